"""Targets and worker subclasses run inside children (importable through PYTHONPATH=/verif)."""
import os

from pyworkers.thread import ThreadWorker
from pyworkers.process import ProcessWorker
from pyworkers.remote import RemoteWorker
from pyworkers.persistent_thread import PersistentThreadWorker
from pyworkers.persistent_process import PersistentProcessWorker
from pyworkers.persistent_remote import PersistentRemoteWorker


class NeedArgs(Exception):
    """An exception that cannot be rebuilt on the parent side (constructor needs 2 arguments)."""
    def __init__(self, a, b):
        super().__init__('%s-%s' % (a, b))
        self.a = a


class OwnBase(BaseException):
    pass


class QuotaError(Exception):
    """rebuilding it from its args (the formatted message) raises KeyError in the parent"""
    TABLE = {'cpu': 4}

    def __init__(self, resource):
        super().__init__('quota exceeded for %s' % resource)
        self.limit = self.TABLE[resource]


class BadState:
    """a value whose __setstate__ refuses to be restored in another process"""
    def __init__(self):
        self.pid = os.getpid()

    def __setstate__(self, st):
        if st['pid'] != os.getpid():
            raise ValueError('state of a foreign process')
        self.__dict__.update(st)


def _slow_rebuild(pid):
    import time
    if os.getpid() != pid:
        time.sleep(1.5)          # unpickling in the parent takes a while: the result is "in flight"
    return ('own', 7)


class Slow:
    def __reduce__(self):
        return (_slow_rebuild, (os.getpid(),))


def mark(path, what):
    if path:
        fd = os.open(path, os.O_WRONLY | os.O_APPEND | os.O_CREAT, 0o600)
        os.write(fd, (what + '\n').encode())
        os.close(fd)


def t_ret(mpath, n=2):
    x = 0
    mark(mpath, 'start')
    try:
        for i in range(n):
            x += i + 1
    finally:
        mark(mpath, 'fin_enter')
        x += 100
        mark(mpath, 'fin_done')
    mark(mpath, 'ret')
    return ('own', x)


def t_exc(mpath, n=2):
    x = 0
    mark(mpath, 'start')
    try:
        for i in range(n):
            x += i + 1
    finally:
        mark(mpath, 'fin_enter')
        x += 100
        mark(mpath, 'fin_done')
    mark(mpath, 'raise')
    raise ValueError('own', x)


def t_slowfin(mpath, n=2):
    """the finally block needs 1.5 s: a graceful terminate must give it the time it was promised"""
    import time
    x = 0
    mark(mpath, 'start')
    try:
        for i in range(n):
            x += i + 1
    finally:
        mark(mpath, 'fin_enter')
        time.sleep(1.5)
        mark(mpath, 'fin_done')
    mark(mpath, 'ret')
    return ('own', x)


def t_linger(mpath, n=1):
    """returns at once but leaves a non-daemon thread behind: the child stays alive for a while after reporting"""
    import threading
    import time
    mark(mpath, 'start')
    threading.Thread(target=time.sleep, args=(2.5,)).start()
    mark(mpath, 'ret')
    return ('own', 1)


def t_bexc(mpath, n=1):
    mark(mpath, 'start')
    mark(mpath, 'raise')
    raise OwnBase('own')


def t_unreb(mpath, n=1):
    mark(mpath, 'start')
    mark(mpath, 'raise')
    raise NeedArgs(1, 2)


def t_big(mpath, n=1):
    mark(mpath, 'start')
    mark(mpath, 'ret')
    return b'x' * (3 * 1024 * 1024)


def t_unreb2(mpath, n=1):
    mark(mpath, 'start')
    mark(mpath, 'raise')
    raise QuotaError('cpu')


def t_badret(mpath, n=1):
    mark(mpath, 'start')
    mark(mpath, 'ret')
    return BadState()


def t_slow(mpath, n=1):
    mark(mpath, 'start')
    mark(mpath, 'ret')
    return Slow()


TARGETS = {'linger': t_linger, 'slowfin': t_slowfin, 'unreb2': t_unreb2, 'badret': t_badret, 'slow': t_slow, 'ret': t_ret, 'exc': t_exc, 'bexc': t_bexc, 'unreb': t_unreb, 'big': t_big}


class SlowArg:
    """an argument whose rebuild in the child runs Python code for a while (several line events)"""
    def __init__(self, v=3):
        self.v = v

    def __setstate__(self, st):
        x = 0
        for i in range(3):
            x += i
        self.__dict__.update(st)


class SlowState:
    """a user_state value that takes 2 s to rebuild wherever it is unpickled (the parent of a process / remote worker)"""
    def __init__(self, k):
        self.k = k

    def __eq__(self, o):
        return type(o) is type(self) and o.k == self.k

    def __getstate__(self):
        return {'k': self.k}

    def __setstate__(self, st):
        import time
        time.sleep(2.0)
        self.__dict__.update(st)


def t_sleep(mpath, n=1):
    import time
    mark(mpath, 'start')
    t0 = time.time()
    while time.time() - t0 < 30:        # interruptible Python code
        time.sleep(0.01)
    return ('own', 0)


TARGETS['sleep'] = t_sleep


def p_item(mpath, k, bump=0, arg=None):
    """persistent target: result for item k is ('own', k + bump); only item 1 is enqueued with a bump"""
    mark(mpath, 'item %d start' % k)
    y = k + bump
    mark(mpath, 'item %d ret' % k)
    return ('own', y)


def p_item_stubborn(mpath, k, bump=0, arg=None):
    """item 2 never ends and swallows whatever is raised in it: only a forced termination stops this worker"""
    import time
    mark(mpath, 'item %d start' % k)
    if k == 2:
        while True:
            try:
                time.sleep(0.05)
            except BaseException:  # noqa
                pass
    mark(mpath, 'item %d ret' % k)
    return ('own', k + bump)


def p_item_big(mpath, k, bump=0, arg=None):
    """item 2 comes with 32 MB of padding (more than the socket buffers hold): its result message is read by the receiving side in many pieces"""
    mark(mpath, 'item %d start' % k)
    y = k + bump
    mark(mpath, 'item %d ret' % k)
    return ('own', y, b'p' * (32 * 1024 * 1024)) if k == 2 else ('own', y)


def p_item_raise3(mpath, k, bump=0, arg=None):
    mark(mpath, 'item %d start' % k)
    if k == 3:
        raise ValueError('own', k)
    mark(mpath, 'item %d ret' % k)
    return ('own', k + bump)


def expected_value(k):
    return k + (1000 if k == 1 else 0)


class _Stateful:
    """run() assigns user_state before and after calling the target (C16)."""
    def run(self, *args, **kwargs):
        mpath = args[0] if args else None
        if kwargs.get('n') == 98 or (len(args) > 1 and args[1] == 98):
            return super().run(*args, **kwargs)          # zero assignments in the child: the state stays what it was given
        if kwargs.get('n') == 96 or (len(args) > 1 and args[1] == 96):
            # the state is a container that is UPDATED IN PLACE and assigned back (`self.user_state += [x]`): the same object,
            # new contents; its length plays the part of the integer of the other modes
            st = self.user_state if isinstance(self.user_state, list) else []
            mark(mpath, 'us_pre %d' % (len(st) + 1))
            st.append(len(st) + 1)
            self.user_state = st
            mark(mpath, 'us_post %d' % len(st))
            r = super().run(*args, **kwargs)
            mark(mpath, 'us_pre %d' % (len(st) + 1))
            st.append(len(st) + 1)
            self.user_state = st
            mark(mpath, 'us_post %d' % len(st))
            return r
        base = self.user_state if isinstance(self.user_state, int) else 0
        mark(mpath, 'us_pre %d' % (base + 1))
        self.user_state = base + 1
        mark(mpath, 'us_post %d' % (base + 1))
        r = super().run(*args, **kwargs)
        if kwargs.get('n') == 99 or (len(args) > 1 and args[1] == 99):
            mark(mpath, 'us_pre none')           # the last value assigned in the child is None
            self.user_state = None
            mark(mpath, 'us_post none')
            return r
        mark(mpath, 'us_pre %d' % (base + 2))
        slow = kwargs.get('n') == 97 or (len(args) > 1 and args[1] == 97)
        self.user_state = SlowState(base + 2) if slow else base + 2      # (97: the last value takes a while to reach the parent)
        mark(mpath, 'us_post %d' % (base + 2))
        return r


class SThread(_Stateful, ThreadWorker):
    pass


class SProcess(_Stateful, ProcessWorker):
    pass


class SRemote(_Stateful, RemoteWorker):
    pass


class SPThread(_Stateful, PersistentThreadWorker):
    pass


class SPProcess(_Stateful, PersistentProcessWorker):
    pass


class SPRemote(_Stateful, PersistentRemoteWorker):
    pass


CLASSES = {('thread', False): SThread, ('process', False): SProcess, ('remote', False): SRemote,
           ('thread', True): SPThread, ('process', True): SPProcess, ('remote', True): SPRemote}
