---------------------------- MODULE RemotePickleMC ----------------------------
(* Scenario generators for the exhaustive runs of RemotePickle.tla.  Every set below is   *)
(* enumerated completely by TLC; each terminal state is printed as a CASE and replayed    *)
(* on the real code (vf/drivers/rpickle.py).                                              *)
EXTENDS RemotePickle, IOUtils, SequencesExt, FiniteSetsExt

(* ------------------------------ class hierarchies ------------------------------ *)
Feat == {"none", "gs", "gsr", "gskw", "red"}
Chains(n) == UNION {[1..m -> Feat] : m \in 1..n}
\* marker-derived: `seen` is irrelevant (classified at the class statement); standard operations ignore `remote`
ClsScns(n) ==
  {[t |-> "cls", chain |-> c, marker |-> mk, seen |-> sn, op |-> o, remote |-> rm] :
     c \in Chains(n), mk \in BOOLEAN, sn \in BOOLEAN, o \in {"rp"} \cup StdOps, rm \in BOOLEAN}
ClsOK(s) == (s.marker => ~s.seen) /\ (s.op # "rp" => ~s.remote)
Cls(n) == {s \in ClsScns(n) : ClsOK(s)}

(* ------------------------------ standard-library menu ------------------------------ *)
\* kind = how pickle.Pickler.save treats the type; fb = object.__reduce_ex__ can pickle it without copyreg's table
\* fbsame = ... and gives the same result as the registered reducer; lowfails = pickle itself refuses it at protocols 0 and 1
MenuOf(kind, items, fb, fbsame, lowfails) == {[kind |-> kind, item |-> it, fb |-> fb, fbsame |-> fbsame, lowfails |-> lowfails] : it \in items}
Menu == UNION {
        MenuOf("atomic", {"none", "true", "int", "bigint", "float", "str", "bytes"}, TRUE, TRUE, FALSE),
        MenuOf("container", {"list", "tuple", "dict", "set", "frozenset", "bytearray", "nested"}, TRUE, TRUE, FALSE),
        MenuOf("byref", {"function", "builtin_function", "class", "exception_class", "namedtuple_class", "dataclass_class"}, TRUE, TRUE, FALSE),
        MenuOf("meta", {"enum_class", "abc_class"}, TRUE, TRUE, FALSE),
        MenuOf("inst", {"datetime", "date", "timedelta", "timezone", "decimal", "fraction", "enum_member", "intflag",
                        "dataclass", "frozen_dataclass", "namedtuple", "exception", "oserror",
                        "custom_exception", "ordereddict", "defaultdict", "deque", "counter", "range", "slice",
                        "uuid", "path", "partial", "bound_method", "simplenamespace", "getnewargs", "interned_newargs",
                        "newargs_ex_args", "newargs_ex_kwargs", "newargs_ex_kwonly",
                        "reduce_class", "getstate_class", "kwgetstate_class", "array"}, TRUE, TRUE, FALSE),
        \* __slots__ without __getstate__: pickle raises TypeError at protocols 0 and 1
        MenuOf("inst", {"slots_class", "slots_dataclass"}, TRUE, TRUE, TRUE),
        MenuOf("copyreg", {"re_pattern", "re_pattern_bytes", "union_type"}, FALSE, FALSE, FALSE),
        MenuOf("copyreg", {"complex"}, TRUE, TRUE, FALSE),
        \* registered with copyreg.pickle() after pyworkers.remote_pickle was imported
        MenuOf("copyreg_late", {"late_class"}, TRUE, FALSE, FALSE),
        MenuOf("copyreg_late", {"code_type"}, FALSE, FALSE, FALSE)}
Wraps == {"bare", "list", "attr", "shared", "tuple_key"}
\* after = "fail": the round trip happens on a thread whose previous remote_pickle.loads raised
Leaf == {[t |-> "leaf", kind |-> m.kind, item |-> m.item, fb |-> m.fb, fbsame |-> m.fbsame, lowfails |-> m.lowfails, wrap |-> w,
          op |-> "rp", remote |-> rm, after |-> af, pclass |-> pcl] :
           m \in Menu, w \in Wraps, rm \in BOOLEAN, af \in {"none", "fail"}, pcl \in {"low", "high"}}

(* ------------------------------ object graphs ------------------------------ *)
RECURSIVE AncSelf(_, _)
AncSelf(tp, x) == IF x = 0 THEN {} ELSE {x} \cup AncSelf(tp, tp[x])
\* first-visit trees with nodes numbered in depth-first order
TPs(n) == {tp \in [1..n -> 0..(n - 1)] : tp[1] = 0 /\ \A i \in 2..n : tp[i] \in AncSelf(tp, i - 1)}
LastDesc(tp, n, a) == Max({c \in 1..n : a \in AncSelf(tp, c)})
\* additional references to objects already met: shared, cyclic, self
XCands(tp, n) == {x \in (1..n) \X (1..n) : x[2] <= LastDesc(tp, n, x[1])}
XSets(tp, n, mx) == {X \in SUBSET XCands(tp, n) : Cardinality(X) <= mx}
Asc(S) == SetToSortSeq(S, LAMBDA a, b : a < b)
Ent(tp, n, X, i) ==
  LET tk == Asc({c \in 2..n : tp[c] = i})
      xs == Asc({b \in 1..n : <<i, b>> \in X})
  IN [j \in 1..Len(tk) |-> [k |-> "k" \o NatStr(tk[j]), to |-> tk[j]]]
     \o [j \in 1..Len(xs) |-> [k |-> "x" \o NatStr(xs[j]), to |-> xs[j]]]
Mk(n, tp, kind, X, noss, nods) ==
  [g |-> [i \in 1..n |-> [kind |-> kind[i], ent |-> Ent(tp, n, X, i), ss |-> i # noss, ds |-> i # nods, fs |-> "no"]], tp |-> tp]
\* one opt-in leaf whose __getstate__ returns a falsy state that is not None: {} | 0 | () | '' | False
\* ... or whose class re-creates it through __getnewargs_ex__ (state {}): args only | args and kwargs | kwargs only
FsKinds == {"d0", "i0", "t0", "s0", "b0", "xa", "xk", "xo"}
WithFs(s, i, k) == [s EXCEPT !.g[i].fs = k, !.g[i].ds = (k \in {"d0", "xa", "xk", "xo"})]
FalsyOf(S) == UNION {{WithFs(s, i, k) : i \in {x \in 1..Len(s.g) : s.g[x].kind = "opt" /\ s.g[x].ent = <<>> /\ s.g[x].ss /\ s.g[x].ds},
                                        k \in FsKinds} : s \in S}
\* containers hold something; the node without __setstate__ / with a non-dict state is an opt-in one
ShapeOK(n, tp, kind, X, noss, nods) ==
  /\ \A i \in 1..n : kind[i] = "cont" => (\E c \in 2..n : tp[c] = i) \/ (\E b \in 1..n : <<i, b>> \in X)
  /\ noss # 0 => (kind[noss] = "opt" /\ noss # nods)
  /\ nods # 0 => kind[nods] = "opt"
ShapesTX(n, tp, X, kinds, flags) ==
  LET FL == IF flags THEN 0..n ELSE {0} IN
  {Mk(n, tp, c[1], X, c[2], c[3]) : c \in {d \in [1..n -> kinds] \X FL \X FL : ShapeOK(n, tp, d[1], X, d[2], d[3])}}
ShapesN(n, kinds, mx, flags) == UNION {UNION {ShapesTX(n, tp, X, kinds, flags) : X \in XSets(tp, n, mx)} : tp \in TPs(n)}
Shapes(ns, kinds, mx, flags) == UNION {ShapesN(n, kinds, mx, flags) : n \in ns}
HasOpt(s) == \E i \in 1..Len(s.g) : s.g[i].kind = "opt"
Ld(P) == [patch |-> P, fail |-> "none", at |-> 0, thr |-> 1]
Graph(s, op, rm, mk, sn, loads, par) ==
  [t |-> "graph", g |-> s.g, tp |-> s.tp, op |-> op, remote |-> rm, marker |-> mk, seen |-> sn, loads |-> loads, par |-> par,
   churn |-> FALSE]
\* the same scenario in a process that created, remote-pickled and dropped short-lived plain classes before
Churned(S) == {[x EXCEPT !.churn = TRUE] : x \in S}

\* ---- patch dictionaries (leaf paths) derived from the graph ----
Bare(s) == Graph(s, "rp", TRUE, FALSE, FALSE, <<>>, FALSE)
PathsAt(s, i) ==          \* patch paths at an addressed opt-in node with a dict state
  LET a == Addr(Bare(s), i).p  nd == s.g[i] IN
  {Append(a, "w"), Append(a, "new")}
  \cup {Append(a, nd.ent[j].k) : j \in 1..Len(nd.ent)}                                      \* value under k: replaces
  \cup {Append(Append(a, nd.ent[j].k), "q") : j \in {x \in 1..Len(nd.ent) : s.g[nd.ent[x].to].kind # "opt"}}  \* dict under a non-opt-in entry
  \cup {Append(Append(a, nd.ent[j].k), "{}") : j \in 1..Len(nd.ent)}                      \* EMPTY dict under k: overrides nothing / replaces a non-opt-in entry
  \cup (IF i = 1 THEN {<<"zz", "q">>} ELSE {})                                             \* dict under a key that does not exist
Cands(s) == IF s.g[1].kind # "opt" THEN {<<"w">>, <<"new">>}
            ELSE UNION {PathsAt(s, i) : i \in {x \in 1..Len(s.g) : Addr(Bare(s), x).ok /\ s.g[x].ds}}
Compatible(p, q) == p # q /\ ~StrictPrefix(p, q) /\ ~StrictPrefix(q, p)
Patches1(s) == {<<p>> : p \in Cands(s)}
Patches2(s) == {<<p, q>> : p \in {<<"w">>}, q \in {x \in Cands(s) : Compatible(<<"w">>, x) /\ Len(x) >= 2 /\ x[Len(x)] # "{}"}}
SsOpt(s) == {i \in 1..Len(s.g) : s.g[i].kind = "opt" /\ s.g[i].ss}

\* ---- C14: every shape, one plain load ----
C14Of(S, mks) == {Graph(s, "rp", TRUE, mk, FALSE, <<Ld(<<>>)>>, FALSE) : s \in {x \in S : HasOpt(x)}, mk \in mks}
\* ---- C15: shapes x patch dictionaries; sequences of loads with failures; two threads ----
C15PatchOf(s, two) == {Graph(s, "rp", TRUE, FALSE, FALSE, <<Ld(P)>>, FALSE) : P \in Patches1(s) \cup (IF two THEN Patches2(s) ELSE {})}
C15P(S, two) == UNION {C15PatchOf(s, two) : s \in {x \in S : HasOpt(x)}}
Fails(s, maxat) == {[patch |-> P, fail |-> "raise", at |-> i, thr |-> 1] : P \in {<<>>, <<<<"w">>>>}, i \in SsOpt(s)}
                   \* (a truncation point is located through the __new__/__setstate__ calls the harness can see)
                   \cup (IF \A i \in 1..Len(s.g) : s.g[i].kind = "opt" => s.g[i].ss
                         THEN {[patch |-> P, fail |-> "trunc", at |-> m, thr |-> 1] : P \in {<<>>, <<<<"w">>>>}, m \in 0..maxat}
                         ELSE {})
Seq2Of(s, maxat) ==
  LET ps == {<<>>} \cup {P \in Patches1(s) : Len(P[1]) <= 2 /\ P[1][Len(P[1])] = "w"} IN
  {Graph(s, "rp", TRUE, FALSE, FALSE, <<f, Ld(P)>>, FALSE) : f \in Fails(s, maxat), P \in ps}             \* failure, then a load
  \cup {Graph(s, "rp", TRUE, FALSE, FALSE, <<Ld(P), Ld(Q)>>, FALSE) : P \in ps, Q \in ps}                 \* success, then a load
  \cup {Graph(s, "rp", TRUE, FALSE, FALSE, <<Ld(P), [Ld(Q) EXCEPT !.thr = 2]>>, TRUE) : P \in ps, Q \in ps}  \* two threads
C15Seq(S, maxat) == UNION {Seq2Of(s, maxat) : s \in {x \in S : HasOpt(x)}}
Seq3Of(s, maxat) ==
  LET ps == {<<>>, <<<<"w">>>>} IN
  {Graph(s, "rp", TRUE, FALSE, FALSE, <<f, h, Ld(P)>>, FALSE) : f \in Fails(s, maxat), h \in Fails(s, maxat) \cup {Ld(<<<<"new">>>>)}, P \in ps}
C15Seq3(S, maxat) == UNION {Seq3Of(s, maxat) : s \in {x \in S : HasOpt(x)}}
\* ---- C14: a load that raises (every kind), then the plain round trip on the same thread ----
FailsPlain(s, maxat) == {f \in Fails(s, maxat) : f.patch = <<>>} \cup {[patch |-> <<>>, fail |-> "noclass", at |-> 0, thr |-> 1]}
C14Seq(S, maxat, mks) == UNION {{Graph(s, "rp", TRUE, mk, FALSE, <<f, Ld(<<>>)>>, FALSE) : f \in FailsPlain(s, maxat), mk \in mks}
                                : s \in {x \in S : HasOpt(x)}}
\* ---- two threads loading at the same time (the library does: every worker frontend thread calls loads) ----
Par2(s, rm, mk) == Graph(s, "rp", rm, mk, FALSE, <<Ld(<<>>), [Ld(<<>>) EXCEPT !.thr = 2]>>, TRUE)
C14Par(S, mks) == {Par2(s, TRUE, mk) : s \in {x \in S : HasOpt(x)}, mk \in mks}
\* ---- C13: graphs without opt-in objects under both flags; opt-in graphs with remote=False and under the standard operations ----
C13Graphs(Splain, Sopt, Sstd) == UNION {
  {Graph(s, "rp", rm, FALSE, FALSE, <<Ld(<<>>)>>, FALSE) : s \in Splain, rm \in BOOLEAN},
  \* plain data loaded by two threads at the same time
  {Par2(s, rm, FALSE) : s \in {x \in Splain : \E i \in 1..Len(x.g) : x.g[i].kind = "plain"}, rm \in BOOLEAN},
  \* plain data on a thread whose previous loads raised (truncated stream)
  {Graph(s, "rp", rm, FALSE, FALSE, <<[patch |-> <<>>, fail |-> "trunc", at |-> 0, thr |-> 1], Ld(<<>>)>>, FALSE) : s \in Splain, rm \in BOOLEAN},
  {Graph(s, "rp", FALSE, mk, sn, <<Ld(<<>>)>>, FALSE) : s \in {x \in Sopt : HasOpt(x)}, mk \in BOOLEAN, sn \in BOOLEAN},
  {Graph(s, o, FALSE, mk, sn, <<Ld(<<>>)>>, FALSE) : s \in {x \in Sstd : HasOpt(x)}, o \in {"pickle", "deepcopy", "mp"}, mk \in BOOLEAN, sn \in {TRUE}}}

All3 == {"opt", "plain", "cont"}
\* (TLC evaluates every constant definition without parameters at start-up: the sets take a dummy argument)
S_small(u)   == Shapes(1..3, All3, 1, TRUE)                        \* <= 3 nodes, <= 1 extra reference, all flags
S_four(u)    == Shapes({4}, All3, 0, FALSE)                         \* 4-node trees
S_fourx(u)   == Shapes({4}, All3, 1, FALSE)                         \* 4 nodes, <= 1 extra reference
S_fourf(u)   == Shapes({4}, All3, 1, TRUE)
S_three2(u)  == Shapes(1..3, All3, 2, TRUE)                         \* <= 3 nodes, <= 2 extra references
S_plain3(u)  == Shapes(1..3, {"plain", "cont"}, 1, FALSE)
S_plain4(u)  == Shapes(1..4, {"plain", "cont"}, 2, FALSE)
S_opt2(u)    == Shapes(1..2, All3, 1, TRUE)
S_noflag3(u) == Shapes(1..3, All3, 1, FALSE)
S_tree3(u)   == Shapes(1..3, All3, 0, FALSE)                        \* <= 3 nodes, no extra reference, no flags
S_five(u)    == Shapes({5}, {"opt", "cont"}, 0, FALSE)              \* 5-node trees of opt-in objects and containers

ScnSet(name) ==
  CASE name = "C13_quick"    -> UNION {Cls(3), Leaf, C13Graphs(S_plain3(0), UNION {S_noflag3(0), S_opt2(0), FalsyOf(S_opt2(0))}, S_noflag3(0))}
    [] name = "C13_thorough" -> UNION {Cls(4), Leaf, C13Graphs(S_plain4(0), UNION {S_small(0), S_fourx(0), FalsyOf(S_noflag3(0))}, UNION {S_small(0), S_fourx(0)})}
    [] name = "C14_quick"    -> UNION {C14Of(UNION {S_small(0), S_four(0), FalsyOf(S_tree3(0))}, BOOLEAN), C14Seq(S_opt2(0), 2, BOOLEAN), C14Par(S_opt2(0), BOOLEAN),
                                       Churned(C14Of(S_opt2(0), BOOLEAN))}
    [] name = "C14_thorough" -> UNION {C14Of(UNION {S_three2(0), S_fourf(0), S_five(0), FalsyOf(UNION {S_noflag3(0), S_four(0)})}, BOOLEAN),
                                       C14Seq(UNION {S_noflag3(0), S_opt2(0)}, 4, BOOLEAN), C14Par(UNION {S_noflag3(0), S_opt2(0)}, BOOLEAN),
                                       Churned(C14Of(UNION {S_noflag3(0), S_opt2(0)}, BOOLEAN))}
    [] name = "C15_quick"    -> UNION {C15P(S_small(0), FALSE), C15P(S_noflag3(0), TRUE), C15P(S_four(0), FALSE), C15Seq(S_opt2(0), 2)}
    [] name = "C15_thorough" -> UNION {C15P(UNION {S_three2(0), S_fourx(0)}, TRUE), C15Seq(S_noflag3(0), 4), C15Seq(S_opt2(0), 3), C15Seq3(S_opt2(0), 2)}
    [] name = "tiny"         -> C14Of(S_opt2(0), {FALSE})
    [] name = "wit"          -> UNION {Cls(2), {x \in Leaf : x.wrap = "bare"}, C13Graphs({}, UNION {S_opt2(0), FalsyOf(S_opt2(0))}, {}), C15Seq(S_opt2(0), 1), C14Of(FalsyOf(S_opt2(0)), {FALSE}), Churned(C14Of(S_opt2(0), BOOLEAN)),
                                       C13Graphs(Shapes(1..2, {"plain", "cont"}, 0, FALSE), {}, {}), C15P(Shapes({3}, {"opt"}, 0, FALSE), FALSE)}
    [] name = "par"          -> UNION {C13Graphs(Shapes(1..2, {"plain", "cont"}, 0, FALSE), {}, {}), C14Par(S_opt2(0), {FALSE}), C15Seq(S_opt2(0), 1)}
    [] name = "env"          -> Rng(JsonDeserialize(IOEnv.SCN_FILE))     \* hand-picked scenarios (replays, smoke tests)
\* the scenario set is named by the environment variable RP_SET and enumerated once, by the initial predicate
MCInit == InitWith(ScnSet(IOEnv.RP_SET))
MCSpec == MCInit /\ [][Next]_vars /\ WF_vars(Next)
=============================================================================
