SPECIFICATION Spec
CONSTANTS
  Ids <- Ids2
  MaxLen = 5
  MaxW = 2
  Hist = TRUE
  PopOnDelete = TRUE
  DupCheck = TRUE
  Patience = 1
  HandlerKills = TRUE
  Profile = "free"
  AliasDefaults = FALSE
  ShutdownFirst = FALSE
  CutDeletes = FALSE
INVARIANT TypeOK
INVARIANT Ref_Table
INVARIANT Ref_Reply
INVARIANT Ref_Workers
INVARIANT Inv_Table
INVARIANT Inv_Duplicate
INVARIANT Inv_First
INVARIANT Inv_Target
INVARIANT Inv_Delete
INVARIANT Inv_Reusable
INVARIANT Inv_Unknown
CHECK_DEADLOCK FALSE
