SPECIFICATION Spec
CONSTANTS
  defaultInitValue = defaultInitValue
  W = {1, 2}
  N = 3
  Extra = 1
  Retry = TRUE
  Poison = {}
  Bad = {}
  BadAfter = 0
  MaxKills = 1
  Refuse <- NoPairs
  MaxDyRaise = 1
  IgnoreLate = TRUE
  OfferOnce = TRUE
  RetRes = TRUE
  CallSrc = FALSE
  Reduced = FALSE
  DetOrder = FALSE
  Hist = FALSE
INVARIANT Inv_NoInternalError
INVARIANT Inv_ExactlyOnce
INVARIANT Inv_Terminates
INVARIANT Inv_SoundError
INVARIANT Inv_SurvivorSuffices
INVARIANT Inv_Genuine
INVARIANT Inv_MissingExplained
INVARIANT Inv_NotStuck
CHECK_DEADLOCK FALSE
