\* The code as written (private dispatch table built from copyreg's: repo commit 4b3bc0a; keyword-only __getnewargs_ex__ accepted: 35e075b).  Strict invariants where the code satisfies the property on every shape,
\* AsIs_* (weakened by exactly the shapes of known_findings.d/rpickle.json) where it does not.
\* CaseDump prints every terminal state as a case for the replay on the real code.
INIT MCInit
NEXT Next
CONSTANTS
  Algo = "asis"
  SeedCopyreg = "live"
  InitGuard = FALSE
  CacheById = FALSE
  KwOnlyOK = TRUE
  SharedCtx = FALSE
  CtxCopy = TRUE
  Scns = {}
INVARIANT TypeOK
INVARIANT Inv_FreshStart
INVARIANT Inv_C13_StdKeepsPlainGetstate
INVARIANT Inv_C13_InconsistentRejected
INVARIANT AsIs_C13_NonOptInEqualsPickle
INVARIANT AsIs_C13_RemoteFalseIsStd
INVARIANT Inv_C13_SamePath
INVARIANT Inv_C14_Once
INVARIANT Inv_C14_Shape
INVARIANT Inv_C14_ViaSetstate
INVARIANT AsIs_C14_LoadsSucceeds
INVARIANT AsIs_C15_Delivery
INVARIANT AsIs_C15_OnlyAddressed
INVARIANT Inv_C15_Independent
INVARIANT AsIs_C15_NoResidue
INVARIANT CaseDump
CHECK_DEADLOCK FALSE
