SPECIFICATION Spec
CONSTANTS
  MaxKids = 4
  KidStates <- States_all
  Racers <- Racers_all
  CtxTerm = TRUE
  DupTerm = TRUE
  ParentKill = TRUE
  ClearFirst = FALSE
  NarrowExcept = FALSE
  NoAckWait = FALSE
  CacheDead = FALSE
INVARIANT TypeOK
INVARIANT Inv_Reaped
INVARIANT Inv_ParentsKnow
INVARIANT Inv_ErrorKind
INVARIANT Inv_NoBlock
CHECK_DEADLOCK FALSE
