INIT MCInit
NEXT Next
CONSTANTS
  Algo = "asis"
  SeedCopyreg = FALSE
  Scns = {}
INVARIANT TypeOK
INVARIANT Inv_FreshStart
INVARIANT CaseDump
CHECK_DEADLOCK FALSE
