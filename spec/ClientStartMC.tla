---------------------------- MODULE ClientStartMC ----------------------------
EXTENDS ClientStart
AllScenarios == {[kind |-> "remote", step |-> st, how |-> "na"] :
                    st \in {"healthy", "refuse_data", "unknown_ctx", "conn", "kill_hdr", "kill_self", "kill_addr", "kill_spawn", "kill_window"}}
                \cup {[kind |-> "remote", step |-> st, how |-> h] :
                    st \in {"hdr", "self", "addr0", "addrM", "addrL", "info0", "infoM", "infoL"}, h \in {"fin", "rst"}}
                \cup {[kind |-> "process", step |-> st, how |-> "na"] : st \in {"healthy", "exit_early"}}
FixAll == {"report", "srvclose"}
FixNone == {}
FixNoReport == {"srvclose"}
FixNoSrv == {"report"}
=============================================================================
