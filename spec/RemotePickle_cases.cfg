SPECIFICATION Spec
CONSTANTS
  Algo = "asis"
  SeedCopyreg = FALSE
  Scns <- Scns_sel
INVARIANT TypeOK
INVARIANT Inv_FreshStart
INVARIANT CaseDump
CHECK_DEADLOCK FALSE
