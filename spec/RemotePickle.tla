------------------------------ MODULE RemotePickle ------------------------------
(* Implementation-shaped model of pyworkers/remote_pickle.py and                          *)
(* pyworkers/_remote_pickle/{remote_pickler_3_6,state}.py.                                *)
(*                                                                                        *)
(* (i)   opt-in classification: SupportRemoteGetStateMeta.__check_type_cached, one        *)
(*       transition per element of the MRO (ScanStep), the cache, the Warning, when it    *)
(*       runs (class statement for marker-derived classes, first remote dump for          *)
(*       duck-typed ones);                                                                *)
(* (ii)  pickler dispatch per type kind x remote flag: the private dispatch_table         *)
(*       replaces copyreg.dispatch_table (SeedCopyreg = "none": empty private table, the  *)
(*       code before repo commit 4b3bc0a; "live": built from copyreg's table whenever a   *)
(*       pickler is created, the code now; "snapshot": copied once at import);            *)
(* (iii) dump: depth-first walk with memo over an abstract object graph (work stack, one  *)
(*       transition per visited reference), __getstate__(remote) call log, children_names,*)
(*       the stream of REDUCE/BUILD events of the opt-in objects;                         *)
(* (iv)  load: RemoteState.context.__init__/__enter__/__exit__, break_patches,            *)
(*       patched_setstate, child_restored (with its asserts), close_current_ctx on the    *)
(*       thread-local frame stack, driven by the event stream; sequences of loads on one  *)
(*       thread including failing ones (raising __setstate__, truncated stream), two      *)
(*       threads, and every load repeated on a fresh thread.                              *)
(* Algo = "asis" is the frame discipline as written (positional frames: stack + iter);    *)
(* Algo = "fixed" is the corrected discipline of                                          *)
(* proposed_fixes/C14_C15_address_patch_frames_by_owner.diff (one frame per open opt-in   *)
(* object, found by the serial of the object that claimed it at dump time).               *)
EXTENDS Integers, Sequences, FiniteSets, TLC, Json, RemotePickleProps

CONSTANTS Scns, Algo, SeedCopyreg,
          SharedCtx,  \* the load context is one object for the whole process instead of a threading.local (FALSE = as written)
          CtxCopy,    \* context(extra_kwargs) is a (shallow) copy of the caller's dictionary (TRUE = as written)
          CacheById,  \* the opt-in check cache is keyed by the ADDRESS of the class (FALSE = as written: by the class itself, which
                      \* the cache keeps alive); a class created after another one was dropped can get its address
          KwOnlyOK,   \* remote_reduce accepts __getnewargs_ex__ returning keyword arguments only (TRUE = the code as written since
                      \* repo commit 35e075b; FALSE = before it: RuntimeError('Internal bad call'), the variant TLC must reject)
          InitGuard   \* context.__init__ refuses to start when the thread-local still has a stack (FALSE = the code as written)

VARIABLES scn,                        \* the scenario (never changes)
          pc,                         \* "scan" | "dump" | "load" | "done"
          cq, cs, cached, created, res0,      \* classification: queue of scans, loop state, cache, outcomes
          work, memo, gs, ops, claims,        \* dump
          ex, tl                              \* loads: per execution / per thread (thread-local)
vars == <<scn, pc, cq, cs, cached, created, res0, work, memo, gs, ops, claims, ex, tl>>


(* ================================ (i) classification ================================ *)
ScanInit == [j |-> 1, allow |-> TRUE, first |-> 0, has |-> FALSE, res |-> "run"]
\* one iteration of `for base in t.__mro__[:-1]`
ScanStep(mro, s) ==
  IF s.j > Len(mro) THEN [s EXCEPT !.res = IF s.has THEN "optin" ELSE "no"]
  ELSE LET f == mro[s.j] IN
       CASE f = "red"  -> [s EXCEPT !.has = FALSE, !.res = "no"]                       \* break
         [] f = "gsr"  -> IF ~s.allow THEN [s EXCEPT !.res = "warning"]                 \* raise Warning
                          ELSE [s EXCEPT !.has = TRUE, !.j = @ + 1]
         [] f = "gskw" -> [s EXCEPT !.j = @ + 1]                                        \* continue
         [] f = "gs"   -> [s EXCEPT !.allow = FALSE, !.first = s.j, !.j = @ + 1]
         [] OTHER      -> [s EXCEPT !.j = @ + 1]
RECURSIVE ScanAll(_, _)
ScanAll(mro, s) == IF s.res # "run" THEN s.res ELSE ScanAll(mro, ScanStep(mro, s))

Suffix(c, l) == SubSeq(c, l, Len(c))
\* marker-derived hierarchies are classified by the metaclass at every class statement (base first)
ClsQueue(s) == IF s.marker
               THEN [x \in 1..Len(s.chain) |-> [mro |-> Suffix(s.chain, Len(s.chain) + 1 - x),
                                                why |-> IF x = Len(s.chain) THEN "create" ELSE "base"]]
               ELSE IF s.seen THEN <<[mro |-> s.chain, why |-> "prior"]>> ELSE <<>>

\* the __getstate__ levels of a hierarchy and what each of them sees
Levels(c) == SelectSeq(c, LAMBDA f : f \in {"gs", "gsr", "gskw"})
RECURSIVE Accepts(_)
Accepts(ls) == IF ls = <<>> THEN FALSE ELSE IF ls[1] = "gsr" THEN TRUE
               ELSE IF ls[1] = "gskw" THEN Accepts(Tail(ls)) ELSE FALSE
RECURSIVE GsWalk(_, _)
GsWalk(ls, f) ==
  IF ls = <<>> THEN (IF f = "unset" THEN <<>> ELSE <<"!">>)          \* object.__getstate__(remote=..): TypeError
  ELSE CASE ls[1] = "gsr"  -> LET v == IF f = "unset" THEN "F" ELSE f IN
                              <<v>> \o GsWalk(Tail(ls), IF Accepts(Tail(ls)) THEN v ELSE "unset")
         [] ls[1] = "gskw" -> <<f>> \o GsWalk(Tail(ls), f)
         [] OTHER          -> IF f = "unset" THEN <<"unset">> \o GsWalk(Tail(ls), "unset") ELSE <<"!">>

(* ================================ (ii) dispatch ================================ *)
\* pickle.Pickler.save: atomic -> memo -> builtin containers -> type/function by reference ->
\* dispatch table (the pickler's own if it has one, else copyreg's) -> metaclass instances by
\* reference -> __reduce_ex__
StdPath(kind) == CASE kind = "atomic" -> "atomic" [] kind = "container" -> "builtin"
                   [] kind = "byref" -> "global" [] kind \in {"copyreg", "copyreg_late"} -> "copyreg"
                   [] kind = "meta" -> "global" [] OTHER -> "reduce_ex"
ImplPath(kind, optin) ==
  CASE kind = "atomic" -> "atomic" [] kind = "container" -> "builtin" [] kind = "byref" -> "global"
    [] optin -> "remote_reduce"
    \* the private table hides copyreg's unless it is built from it: SeedCopyreg = "none" (empty private table),
    \* "snapshot" (copied once, when the module is imported: later registrations are lost), "live" (copied from
    \* copyreg.dispatch_table whenever a pickler is created - the code as written)
    [] kind = "copyreg" -> IF SeedCopyreg \in {"live", "snapshot"} THEN "copyreg" ELSE "reduce_ex"
    [] kind = "copyreg_late" -> IF SeedCopyreg = "live" THEN "copyreg" ELSE "reduce_ex"
    [] kind = "meta" -> "global"
    [] OTHER -> "reduce_ex"

(* ================================ scenario plumbing ================================ *)
NoEx == <<>>
K == IF scn.t = "graph" THEN Len(scn.loads) ELSE 0
LoadOf(e) == IF e <= K THEN scn.loads[e] ELSE scn.loads[e - K]
\* which context record a load uses: its thread's (threading.local), or the only one there is (SharedCtx)
Thr(e) == IF SharedCtx THEN 1 ELSE IF e <= K THEN LoadOf(e).thr ELSE 2 + (e - K)
NG == IF scn.t = "graph" THEN Len(scn.g) ELSE 0
ViaTok == IF scn.op = "rp" /\ scn.remote THEN "R" ELSE "L"
\* do opt-in instances go through remote_reduce?  remote=True: always (dyn_dispatch_table asks
\* issubclass); remote=False: only classes already in supported_classes
\* (graph scenarios with churn: short-lived plain classes were remote-pickled and dropped before the opt-in classes of
\* the scenario were created; `cached` = "no" when a cache keyed by address answers for one of those with the stale entry)
UsesRR == scn.op = "rp" /\ (scn.remote \/ scn.marker \/ scn.seen) /\ cached # "no"
TLInit == [stack |-> <<>>, iter |-> -1, unused |-> TRUE, has |-> FALSE]
ExInit == [st |-> "wait", pos |-> 1, pm |-> {}, rest |-> [i \in 1..NG |-> BaseEnt(scn, i, ViaTok)],
           ssn |-> [i \in 1..NG |-> IF scn.g[i].kind = "opt" /\ scn.g[i].ss /\ ~UsesRR THEN 1 ELSE 0],   \* standard unpickling calls it
           out |-> "ok"]

InitWith(S) ==
        /\ scn \in S
        /\ pc = (IF scn.t = "graph" THEN "dump" ELSE "scan")
        /\ cq = (IF scn.t = "cls" THEN ClsQueue(scn) ELSE <<>>)
        /\ cs = ScanInit /\ created = "ok" /\ res0 = [outcome |-> "none"]
        /\ cached \in (IF scn.t = "graph" /\ scn.churn /\ CacheById THEN {"none", "no"} ELSE {"none"})
        /\ work = (IF scn.t = "graph" THEN <<[a |-> "v", n |-> 1]>> ELSE <<>>)
        /\ memo = {} /\ gs = [i \in 1..NG |-> <<>>] /\ ops = <<>> /\ claims = {}
        /\ ex = [e \in 1..(2 * K) |-> ExInit]
        /\ tl = [t \in 1..(2 + K) |-> TLInit]
Init == InitWith(Scns)

(* ---------------- cls / leaf families ---------------- *)
ScanOne ==
  /\ pc = "scan" /\ cq # <<>>
  /\ LET s2 == ScanStep(Head(cq).mro, cs)  why == Head(cq).why IN
     IF s2.res = "run" THEN cs' = s2 /\ UNCHANGED <<pc, cq, cached, created, res0>>
     ELSE /\ cs' = ScanInit
          /\ IF s2.res = "warning" /\ why \in {"create", "base"}          \* the class statement raises
             THEN created' = "raised:Warning" /\ pc' = "done" /\ cq' = <<>>
                  /\ res0' = [outcome |-> "skip", gslog |-> <<>>, eq |-> "na"] /\ UNCHANGED cached
             ELSE IF s2.res = "warning" /\ why = "dump"                    \* dumps(...) raises
             THEN pc' = "done" /\ cq' = <<>> /\ res0' = [outcome |-> "raised:Warning", gslog |-> <<>>, eq |-> "F"]
                  /\ UNCHANGED <<cached, created>>
             ELSE /\ cq' = Tail(cq)
                  /\ cached' = IF s2.res = "warning" \/ why = "base" THEN cached ELSE s2.res   \* a Warning is not cached
                  /\ UNCHANGED <<pc, created, res0>>
  /\ UNCHANGED <<scn, work, memo, gs, ops, claims, ex, tl>>

\* dyn_dispatch_table.__getitem__ -> issubclass(key, SupportRemoteGetState) on a class not classified yet
DumpScan ==
  /\ pc = "scan" /\ cq = <<>> /\ scn.t = "cls" /\ scn.op = "rp" /\ scn.remote /\ cached = "none"
  /\ cq' = <<[mro |-> scn.chain, why |-> "dump"]>>
  /\ UNCHANGED <<scn, pc, cs, cached, created, res0, work, memo, gs, ops, claims, ex, tl>>

FinishCls ==
  /\ pc = "scan" /\ cq = <<>> /\ scn.t = "cls" /\ ~(scn.op = "rp" /\ scn.remote /\ cached = "none")
  /\ LET rr == scn.op = "rp" /\ cached = "optin"          \* in supported_classes => remote_reduce, whatever `remote`
         log == IF rr THEN GsWalk(Levels(scn.chain), IF scn.remote THEN "T" ELSE "F")
                ELSE IF HasRed(scn.chain) THEN <<>>        \* an overridden __reduce__ never asks __getstate__
                ELSE GsWalk(Levels(scn.chain), "unset")
         bad == \E j \in 1..Len(log) : log[j] = "!"
     IN res0' = [outcome |-> IF bad THEN "raised:TypeError" ELSE "ok",
                 gslog |-> SelectSeq(log, LAMBDA x : x # "!"),
                 eq |-> IF scn.op # "rp" THEN "na" ELSE IF bad \/ (\E j \in 1..Len(log) : log[j] = "T") THEN "F" ELSE "T"]
  /\ pc' = "done"
  /\ UNCHANGED <<scn, cq, cs, cached, created, work, memo, gs, ops, claims, ex, tl>>

\* "leaf" scenarios with after = "fail": an earlier remote_pickle.loads on this thread raised - context.__exit__
\* with an exception deletes nothing, the thread-local keeps stack / iter / unused
PriorFail ==
  /\ pc = "scan" /\ scn.t = "leaf" /\ scn.after = "fail" /\ ~tl[1].has
  /\ tl' = [tl EXCEPT ![1] = [stack |-> <<>>, iter |-> -1, unused |-> TRUE, has |-> TRUE]]
  /\ UNCHANGED <<scn, pc, cq, cs, cached, created, res0, work, memo, gs, ops, claims, ex>>
\* the round trip: context.__init__ resets the thread-local whatever it finds, __exit__ deletes stack and iter
FinishLeaf ==
  /\ pc = "scan" /\ scn.t = "leaf" /\ (scn.after = "fail" => tl[1].has)
  /\ LET path == ImplPath(scn.kind, FALSE)
         diverges == path # StdPath(scn.kind)
         \* pickle itself refuses the value at protocols 0 and 1 (__slots__ without __getstate__): both raise
         lowraise == scn.pclass = "low" /\ scn.lowfails
         fails == diverges /\ ~scn.fb                     \* object.__reduce_ex__ cannot pickle the type
         differs == diverges /\ scn.fb /\ ~scn.fbsame      \* ... or reduces it differently from the registered reducer
         guarded == InitGuard /\ tl[1].has               \* loads() refuses to start on the left-over
     IN res0' = [outcome |-> IF lowraise \/ fails THEN "raised:TypeError" ELSE IF guarded THEN "raised:AssertionError" ELSE "ok",
                 eq |-> IF lowraise THEN "T" ELSE IF fails \/ differs \/ guarded THEN "F" ELSE "T",
                 path |-> path]
  /\ pc' = "done"
  /\ tl' = [tl EXCEPT ![1] = [stack |-> <<>>, iter |-> -1, unused |-> TRUE, has |-> FALSE]]
  /\ UNCHANGED <<scn, cq, cs, cached, created, work, memo, gs, ops, claims, ex>>

(* ================================ (iii) dump ================================ *)
Node(i) == scn.g[i]
Kids(i) == [j \in 1..Len(Node(i).ent) |-> [a |-> "v", n |-> Node(i).ent[j].to]]
\* children_names: keys of the dict state whose value is an opt-in instance
Names(i) == IF Node(i).ds THEN SelectSeq([j \in 1..Len(Node(i).ent) |-> Node(i).ent[j]],
                                         LAMBDA en : Node(en.to).kind = "opt")
            ELSE <<>>
ClaimOf(i) == IF i = 1 THEN [o |-> 0, k |-> ""]
              ELSE IF \E c \in claims : c.n = i THEN LET c == CHOOSE c \in claims : c.n = i IN [o |-> c.o, k |-> c.k]
              ELSE [o |-> -1, k |-> ""]
\* remote_reduce, _PyObject_GetNewArguments part: __getnewargs_ex__ -> (args, kwargs); no kwargs -> copyreg.__newobj__,
\* kwargs (with or without args) -> copyreg.__newobj_ex__; before commit 35e075b (KwOnlyOK = FALSE) kwargs only ->
\* RuntimeError('Internal bad call'), raised before __getstate__ is asked
DumpRaises == /\ work # <<>> /\ Head(work).a = "v" /\ Head(work).n \notin memo
              /\ Node(Head(work).n).kind = "opt" /\ Node(Head(work).n).fs = "xo" /\ UsesRR /\ ~KwOnlyOK
DumpFail ==
  /\ pc = "dump" /\ DumpRaises
  /\ res0' = [outcome |-> "raised:RuntimeError"] /\ pc' = "done"
  /\ UNCHANGED <<scn, cq, cs, cached, created, work, memo, gs, ops, claims, ex, tl>>
DumpStep ==
  /\ pc = "dump" /\ work # <<>> /\ ~DumpRaises
  /\ LET it == Head(work)  i == it.n IN
     IF it.a = "b"
     THEN /\ ops' = Append(ops, [op |-> "B", n |-> i, names |-> <<>>, own |-> 0, key |-> ""])
          /\ work' = Tail(work) /\ UNCHANGED <<memo, gs, claims>>
     ELSE IF i \in memo THEN work' = Tail(work) /\ UNCHANGED <<memo, gs, ops, claims>>     \* memo GET: no REDUCE
     ELSE /\ memo' = memo \cup {i}
          /\ IF Node(i).kind = "opt"
             THEN /\ gs' = [gs EXCEPT ![i] = Append(@, IF UsesRR /\ scn.remote THEN "T" ELSE "F")]
                  /\ IF UsesRR
                     THEN /\ ops' = Append(ops, [op |-> "R", n |-> i,
                                                 names |-> [j \in 1..Len(Names(i)) |-> Names(i)[j].k],
                                                 own |-> ClaimOf(i).o, key |-> ClaimOf(i).k])
                          \* corrected pickler: remember who holds which opt-in child under which key (first holder wins)
                          /\ claims' = claims \cup {[n |-> Names(i)[j].to, o |-> i, k |-> Names(i)[j].k] :
                                                     j \in {x \in 1..Len(Names(i)) :
                                                              /\ ~\E c \in claims : c.n = Names(i)[x].to
                                                              /\ ~\E y \in 1..(x - 1) : Names(i)[y].to = Names(i)[x].to}}
                          /\ work' = Kids(i) \o <<[a |-> "b", n |-> i]>> \o Tail(work)
                     ELSE /\ work' = Kids(i) \o Tail(work) /\ UNCHANGED <<ops, claims>>    \* object.__reduce_ex__
             ELSE /\ work' = Kids(i) \o Tail(work) /\ UNCHANGED <<gs, ops, claims>>
  /\ UNCHANGED <<scn, pc, cq, cs, cached, created, res0, ex, tl>>
DumpDone ==
  /\ pc = "dump" /\ work = <<>>
  /\ pc' = "load"
  /\ UNCHANGED <<scn, cq, cs, cached, created, res0, work, memo, gs, ops, claims, ex, tl>>

(* ================================ (iv) load ================================ *)
Dummy == [pi |-> -1, name |-> "", e |-> TRUE, p |-> <<>>, n |-> 0]
FKeys(P, fr) == IF fr.e THEN {} ELSE PKeys(P, fr.p)
MutAt(pm, x) == \E m \in pm : m.p = x
IsDictAt(P, pm, x) == ~MutAt(pm, x) /\ ~(\E q \in Rng(P) : q = x) /\ (\E q \in Rng(P) : StrictPrefix(x, q))
ValAt(P, pm, x) == IF MutAt(pm, x) THEN "n:" \o NatStr((CHOOSE m \in pm : m.p = x).n)
                   ELSE IF \E q \in Rng(P) : q = x THEN "P:" \o Join(x) ELSE "D:" \o Join(x)
\* patched_state = state.copy(); patched_state.update(current_patches())
Upd(b, P, pm, fr) == LET pk == FKeys(P, fr) IN
                     [k \in DOMAIN b \cup pk |-> IF k \notin pk THEN b[k] ELSE ValAt(P, pm, Append(fr.p, k))]
Del(s, j) == SubSeq(s, 1, j - 1) \o SubSeq(s, j + 1, Len(s))

CanStart(e) == /\ ex[e].st = "wait"
               /\ \A d \in 1..(e - 1) : ex[d].st = "done" \/ (scn.par /\ e = 2 /\ d = 1)
\* RemoteState.context(extra_kwargs): __init__ resets the thread-local, __enter__ pushes the top frame
Fail(e, what) == ex' = [ex EXCEPT ![e].st = "done", ![e].out = what]      \* __exit__ with an exception: nothing is deleted
\* The thread-local record tl[t] survives a failed load (has = TRUE: __exit__ with an exception deletes nothing),
\* so FailedLoad ; Load behaviours start the second context on the left-over.  As written __init__ overwrites it;
\* with InitGuard the assertion in __init__ looks at the attribute that really exists and the load raises.
StartGuarded(e) ==
  /\ pc = "load" /\ CanStart(e) /\ InitGuard /\ tl[Thr(e)].has
  /\ Fail(e, "raised:AssertionError") /\ UNCHANGED tl
  /\ UNCHANGED <<scn, pc, cq, cs, cached, created, res0, work, memo, gs, ops, claims>>
Start(e) ==
  /\ pc = "load" /\ CanStart(e) /\ ~(InitGuard /\ tl[Thr(e)].has)
  /\ LET P == LoadOf(e).patch IN
     tl' = [tl EXCEPT ![Thr(e)] =
              [stack |-> IF P # <<>> /\ Algo = "asis" THEN <<[pi |-> -1, name |-> "", e |-> FALSE, p |-> <<>>, n |-> 0]>> ELSE <<>>,
               iter |-> IF P # <<>> /\ Algo = "asis" THEN 0 ELSE -1, unused |-> TRUE, has |-> TRUE]]
  /\ ex' = [ex EXCEPT ![e].st = "run"]
  /\ UNCHANGED <<scn, pc, cq, cs, cached, created, res0, work, memo, gs, ops, claims>>


\* ---- the code as written ----
ReduceAsIs(e, o) ==
  LET T == tl[Thr(e)]  P == LoadOf(e).patch  it == T.iter IN
  IF ~Node(o.n).ss THEN Fail(e, "raised:AttributeError") /\ UNCHANGED tl          \* ret.__setstate__.__func__
  ELSE IF it >= Len(T.stack) THEN Fail(e, "raised:IndexError") /\ UNCHANGED tl
  ELSE LET cur == IF it < 0 THEN Dummy ELSE T.stack[it + 1]
           subs == [j \in 1..Len(o.names) |->
                      IF o.names[j] \in FKeys(P, cur) /\ IsDictAt(P, ex[e].pm, Append(cur.p, o.names[j]))
                      THEN [pi |-> it + (j - 1), name |-> o.names[j], e |-> FALSE, p |-> Append(cur.p, o.names[j]), n |-> 0]
                      ELSE Dummy]
       IN /\ tl' = IF o.names = <<>> THEN tl
                   ELSE [tl EXCEPT ![Thr(e)].stack = SubSeq(T.stack, 1, it + 1) \o subs \o SubSeq(T.stack, it + 2, Len(T.stack)),
                                   ![Thr(e)].iter = it + 1]
          /\ ex' = [ex EXCEPT ![e].pos = @ + 1]
BuildAsIs(e, o) ==
  LET T == tl[Thr(e)]  P == LoadOf(e).patch  it == T.iter  L == LoadOf(e) IN
  IF it >= Len(T.stack) THEN Fail(e, "raised:IndexError") /\ UNCHANGED tl
  ELSE LET cur == IF it < 0 THEN Dummy ELSE T.stack[it + 1] IN
       IF ~Node(o.n).ds /\ FKeys(P, cur) # {} THEN Fail(e, "raised:AttributeError") /\ UNCHANGED tl   \* ..._active_contexts.ctxs
       ELSE IF L.fail = "raise" /\ L.at = o.n THEN Fail(e, "raised:injected") /\ UNCHANGED tl        \* the user's __setstate__ raises
       ELSE IF it # Len(T.stack) - 1 THEN Fail(e, "raised:AssertionError") /\ UNCHANGED tl           \* child_restored
       ELSE LET par == IF cur.pi < 0 THEN Dummy ELSE T.stack[cur.pi + 1] IN
            IF (FKeys(P, par) # {}) # (cur.name # "") THEN Fail(e, "raised:AssertionError") /\ UNCHANGED tl
            ELSE /\ ex' = [ex EXCEPT ![e].pos = @ + 1,
                                     ![e].rest[o.n] = IF Node(o.n).ds THEN Upd(@, P, ex[e].pm, cur) ELSE @,
                                     ![e].ssn[o.n] = @ + 1,
                                     ![e].pm = IF FKeys(P, par) # {} THEN @ \cup {[p |-> Append(par.p, cur.name), n |-> o.n]} ELSE @]
                 /\ tl' = [tl EXCEPT ![Thr(e)].unused = FALSE,
                                     ![Thr(e)].stack = IF it < 0 THEN @ ELSE Del(@, it + 1),        \* close_current_ctx
                                     ![Thr(e)].iter = IF it < 0 THEN @ ELSE @ - 1]
ExitAsIs(e) ==
  LET T == tl[Thr(e)] IN
  IF ~T.unused /\ (T.iter # -1 \/ T.stack # <<>>) THEN Fail(e, "raised:AssertionError") /\ UNCHANGED tl
  ELSE /\ ex' = [ex EXCEPT ![e].st = "done"]
       /\ tl' = [tl EXCEPT ![Thr(e)].has = FALSE, ![Thr(e)].stack = <<>>, ![Thr(e)].iter = -1]

\* ---- the corrected discipline ----
FrameOf(T, n) == IF \E j \in 1..Len(T.stack) : T.stack[j].n = n
                 THEN T.stack[CHOOSE j \in 1..Len(T.stack) : T.stack[j].n = n] ELSE Dummy
ReduceFixed(e, o) ==
  LET T == tl[Thr(e)]  P == LoadOf(e).patch
      pf == IF o.own > 0 THEN FrameOf(T, o.own) ELSE Dummy
      my == IF o.own = 0 THEN (IF P # <<>> THEN [pi |-> -1, name |-> "", e |-> FALSE, p |-> <<>>, n |-> o.n] ELSE [Dummy EXCEPT !.n = o.n])
            ELSE IF o.own > 0 /\ o.key \in FKeys(P, pf) /\ IsDictAt(P, ex[e].pm, Append(pf.p, o.key))
            THEN [pi |-> o.own, name |-> o.key, e |-> FALSE, p |-> Append(pf.p, o.key), n |-> o.n]
            ELSE [Dummy EXCEPT !.n = o.n]
  IN /\ tl' = [tl EXCEPT ![Thr(e)].stack = Append(@, my)]
     /\ ex' = [ex EXCEPT ![e].pos = @ + 1]
BuildFixed(e, o) ==
  LET T == tl[Thr(e)]  P == LoadOf(e).patch  L == LoadOf(e)  cur == FrameOf(T, o.n) IN
  IF ~Node(o.n).ds /\ FKeys(P, cur) # {} THEN Fail(e, "raised:TypeError") /\ UNCHANGED tl
  ELSE IF L.fail = "raise" /\ L.at = o.n THEN Fail(e, "raised:injected") /\ UNCHANGED tl
  ELSE /\ ex' = [ex EXCEPT ![e].pos = @ + 1,
                           ![e].rest[o.n] = IF Node(o.n).ds THEN Upd(@, P, ex[e].pm, cur) ELSE @,
                           ![e].ssn[o.n] = IF Node(o.n).ss THEN @ + 1 ELSE @,
                           ![e].pm = IF ~cur.e /\ cur.pi > 0 THEN @ \cup {[p |-> cur.p, n |-> o.n]} ELSE @]
       /\ tl' = [tl EXCEPT ![Thr(e)].unused = FALSE,
                           ![Thr(e)].stack = SelectSeq(@, LAMBDA fr : fr.n # o.n)]
ExitFixed(e) ==
  /\ ex' = [ex EXCEPT ![e].st = "done"]
  /\ tl' = [tl EXCEPT ![Thr(e)].has = FALSE, ![Thr(e)].stack = <<>>]

Step(e) ==
  /\ pc = "load" /\ ex[e].st = "run"
  /\ LET L == LoadOf(e)  p == ex[e].pos IN
     \* the stream ends after L.at events / names a class that cannot be imported (before any event)
     IF L.fail \in {"trunc", "noclass"} /\ p - 1 = L.at /\ L.at <= Len(ops) THEN Fail(e, "raised:injected") /\ UNCHANGED tl
     \* another load deleted stack / iter meanwhile (only possible when the context is shared between threads)
     ELSE IF ~tl[Thr(e)].has THEN Fail(e, "raised:AttributeError") /\ UNCHANGED tl
     ELSE IF p > Len(ops) THEN (IF Algo = "asis" THEN ExitAsIs(e) ELSE ExitFixed(e))
     ELSE IF ops[p].op = "R" THEN (IF Algo = "asis" THEN ReduceAsIs(e, ops[p]) ELSE ReduceFixed(e, ops[p]))
     ELSE (IF Algo = "asis" THEN BuildAsIs(e, ops[p]) ELSE BuildFixed(e, ops[p]))
  /\ UNCHANGED <<scn, pc, cq, cs, cached, created, res0, work, memo, gs, ops, claims>>

LoadsDone ==
  /\ pc = "load" /\ \A e \in 1..(2 * K) : ex[e].st = "done"
  /\ pc' = "done"
  /\ UNCHANGED <<scn, cq, cs, cached, created, res0, work, memo, gs, ops, claims, ex, tl>>

Next == ScanOne \/ DumpScan \/ FinishCls \/ PriorFail \/ FinishLeaf \/ DumpStep \/ DumpFail \/ DumpDone
        \/ (\E e \in 1..(2 * K) : Start(e) \/ StartGuarded(e) \/ Step(e)) \/ LoadsDone
Spec == Init /\ [][Next]_vars /\ WF_vars(Next)

(* ================================ projection on (scn, obs) ================================ *)
Terminal == pc = "done"
Refs(ent) == {j \in 1..NG : \E k \in DOMAIN ent : ent[k] = "n:" \o NatStr(j)}
RECURSIVE ReachFrom(_, _)
ReachFrom(S, rest) == LET S2 == S \cup UNION {Refs(rest[i]) : i \in S} IN IF S2 = S THEN S ELSE ReachFrom(S2, rest)
\* residue in the CALLER's patch dictionary: child_restored stores the restored child in its parent's patch dict.
\* As written the context is a shallow copy of the caller's dict, so only nested dicts (paths of length >= 2) are
\* the caller's objects; without the copy the top level is too; the corrected design copies every level.
ResidueFrom == IF Algo = "fixed" THEN 99 ELSE IF CtxCopy THEN 2 ELSE 1
Pres(e) == IF \E m \in ex[e].pm : Len(m.p) >= ResidueFrom THEN "F" ELSE "T"
ExObs(e) == IF ex[e].out # "ok" THEN [outcome |-> ex[e].out, top |-> "none", nodes |-> <<>>, ss |-> <<>>, pres |-> Pres(e)]
            ELSE LET rs == ReachFrom({1}, ex[e].rest) IN
                 [outcome |-> "ok", top |-> "n:1",
                  nodes |-> [i \in 1..NG |-> IF i \in rs THEN ex[e].rest[i] ELSE [x \in {"#"} |-> "unreached"]],
                  ss |-> [i \in 1..NG |-> IF i \in rs THEN ex[e].ssn[i] ELSE 0], pres |-> Pres(e)]
StdRest == [i \in 1..NG |-> BaseEnt(scn, i, "L")]
\* the loads() calls without patches and without injected failure: each of them must equal pickle's round trip
PlainGood == {k \in 1..K : scn.loads[k].patch = <<>> /\ scn.loads[k].fail = "none"}
NoDump == [outcome |-> "nodump", top |-> "none", nodes |-> <<>>, ss |-> <<>>, pres |-> "T"]
DumpOutcome == IF res0.outcome = "none" THEN "ok" ELSE res0.outcome
GraphObs == IF DumpOutcome # "ok"
            THEN [dump |-> DumpOutcome, gs |-> gs, loads |-> [k \in 1..K |-> NoDump], fresh |-> [k \in 1..K |-> NoDump],
                  equal_to_pickle |-> IF scn.op = "rp" THEN "F" ELSE "na"]          \* pickle itself dumps the graph
            ELSE
            [dump |-> "ok", gs |-> gs,
             loads |-> [k \in 1..K |-> ExObs(k)], fresh |-> [k \in 1..K |-> ExObs(K + k)],
             equal_to_pickle |-> IF scn.op # "rp" \/ K \notin PlainGood THEN "na"
                                 ELSE IF \A k \in PlainGood : ex[k].out = "ok" /\ ex[k].rest = StdRest THEN "T" ELSE "F"]
Obs == CASE scn.t = "cls"  -> [created |-> created, outcome |-> res0.outcome, gslog |-> res0.gslog, equal_to_pickle |-> res0.eq]
         \* proto_same (soft): the stream has the protocol pickle.dumps produces for the same protocol argument
         [] scn.t = "leaf" -> [outcome |-> res0.outcome, equal_to_pickle |-> res0.eq, proto_same |-> "T"]
         [] OTHER          -> GraphObs
Rec == [scn |-> scn, obs |-> Obs]

(* ================================ invariants ================================ *)
TypeOK == /\ pc \in {"scan", "dump", "load", "done"}
          /\ \A t \in DOMAIN tl : tl[t].iter >= -1 /\ tl[t].iter <= Len(tl[t].stack)
Inv_C13_NonOptInEqualsPickle == Terminal => C13_NonOptInEqualsPickle(Rec)
Inv_C13_RemoteFalseIsStd     == Terminal => C13_RemoteFalseIsStd(Rec)
Inv_C13_StdKeepsPlainGetstate == Terminal => C13_StdKeepsPlainGetstate(Rec)
Inv_C13_InconsistentRejected == Terminal => C13_InconsistentRejected(Rec)
\* model-only: the path taken by the pickler is the standard one for everything that does not opt in
Inv_C13_SamePath == (Terminal /\ scn.t = "leaf") => res0.path = StdPath(scn.kind)
Inv_C14_Once          == Terminal => C14_Once(Rec)
Inv_C14_LoadsSucceeds == Terminal => C14_LoadsSucceeds(Rec)
Inv_C14_Shape         == Terminal => C14_Shape(Rec)
Inv_C14_ViaSetstate   == Terminal => C14_ViaSetstate(Rec)
Inv_C15_Delivery      == Terminal => C15_Delivery(Rec)
Inv_C15_OnlyAddressed == Terminal => C15_OnlyAddressed(Rec)
Inv_C15_Independent   == Terminal => C15_Independent(Rec)
Inv_C15_NoResidue     == Terminal => C15_NoResidue(Rec)
\* thread-locals: whatever one load leaves behind, the next context starts from the same state
Inv_FreshStart == \A e \in 1..(2 * K) : (pc = "load" /\ ex[e].st = "run" /\ ex[e].pos = 1) =>
                     (tl[Thr(e)].unused /\ tl[Thr(e)].has /\ Len(tl[Thr(e)].stack) <= 1)
Live_Terminates == <>Terminal

\* ---- the code as written: the same invariants, weakened by exactly the listed shapes ----
AsIs_C13_NonOptInEqualsPickle == Terminal => (C13_NonOptInEqualsPickle(Rec) \/ Known_C13(scn))
AsIs_C13_RemoteFalseIsStd     == Terminal => (C13_RemoteFalseIsStd(Rec) \/ Known_C13(scn))
AsIs_C14_LoadsSucceeds == (Terminal /\ scn.t = "graph") => (C14_LoadsSucceeds(Rec) \/ Known_C15(scn))
AsIs_C15_Delivery      == (Terminal /\ scn.t = "graph") => (C15_Delivery(Rec) \/ Known_C15(scn))
AsIs_C15_OnlyAddressed == (Terminal /\ scn.t = "graph") => (C15_OnlyAddressed(Rec) \/ Known_C15(scn))
AsIs_C15_NoResidue     == (Terminal /\ scn.t = "graph") => (C15_NoResidue(Rec) \/ K_DeepPatch(scn))

\* ---- witnesses: every antecedent / fault is reachable (W_x must be VIOLATED; WitDump names the reached ones) ----
R_Warning      == Terminal /\ scn.t = "cls" /\ created = "raised:Warning"
R_DumpWarning  == Terminal /\ scn.t = "cls" /\ res0.outcome = "raised:Warning"
R_OptInFalse   == Terminal /\ scn.t = "cls" /\ ~scn.remote /\ scn.op = "rp" /\ cached = "optin"
R_StdOp        == Terminal /\ scn.t = "cls" /\ scn.op \in StdOps /\ Len(res0.gslog) >= 2
R_Copyreg      == Terminal /\ scn.t = "leaf" /\ scn.kind = "copyreg"
R_LateCopyreg  == Terminal /\ scn.t = "leaf" /\ scn.kind = "copyreg_late" /\ res0.path = "copyreg"
R_FailedThenLoad == pc = "load" /\ \E e \in 2..K : CanStart(e) /\ tl[Thr(e)].has /\ ex[e - 1].out = "raised:injected" /\ LoadOf(e).fail = "none"
R_ParPlain     == pc = "load" /\ OptNodes(scn) = {} /\ K >= 2 /\ ex[1].st = "run" /\ ex[2].st = "run"
R_Residue2     == Terminal /\ scn.t = "graph" /\ \E e \in 1..K : \E m \in ex[e].pm : Len(m.p) >= 2
R_NewArgsEx    == Terminal /\ scn.t = "graph" /\ res0.outcome = "none" /\ \E i \in 1..NG : scn.g[i].fs \in {"xa", "xk"} /\ ex[1].ssn[i] = 1
R_KwOnly       == Terminal /\ scn.t = "graph" /\ UsesRR /\ res0.outcome = "none" /\ \E i \in 1..NG : scn.g[i].fs = "xo" /\ ex[1].ssn[i] = 1
R_Churn        == Terminal /\ scn.t = "graph" /\ scn.churn /\ UsesRR /\ OptNodes(scn) # {}
R_LowProto     == Terminal /\ scn.t = "leaf" /\ scn.pclass = "low" /\ scn.lowfails
R_Siblings     == pc = "load" /\ \E t \in DOMAIN tl : Len(tl[t].stack) >= 3
R_PatchDelivered == Terminal /\ scn.t = "graph" /\ \E e \in 1..K : ex[e].out = "ok" /\ ex[e].pm # {}
R_Failure      == Terminal /\ scn.t = "graph" /\ \E e \in 1..K : ex[e].out = "raised:injected"
R_Residue      == pc = "load" /\ \E e \in 2..K : CanStart(e) /\ tl[Thr(e)].has /\ tl[Thr(e)].stack # <<>>
R_Concurrency  == pc = "load" /\ K >= 2 /\ ex[1].st = "run" /\ ex[2].st = "run" /\ ex[1].pos > 1 /\ ex[2].pos > 1
R_MemoGet      == pc = "dump" /\ work # <<>> /\ Head(work).a = "v" /\ Head(work).n \in memo /\ Node(Head(work).n).kind = "opt"
R_AfterFail    == pc = "scan" /\ scn.t = "leaf" /\ tl[1].has
R_Falsy        == Terminal /\ scn.t = "graph" /\ \E i \in 1..NG : scn.g[i].fs # "no" /\ ex[1].ssn[i] = 1
R_StdPath      == Terminal /\ scn.t = "graph" /\ scn.op = "rp" /\ ~UsesRR /\ OptNodes(scn) # {}
W_Warning == ~R_Warning
W_Siblings == ~R_Siblings
W_Residue == ~R_Residue
Wit(name, reached) == reached => PrintT(<<"WIT", name>>)
WitDump == /\ Wit("Warning", R_Warning) /\ Wit("DumpWarning", R_DumpWarning) /\ Wit("OptInFalse", R_OptInFalse)
           /\ Wit("StdOp", R_StdOp) /\ Wit("Copyreg", R_Copyreg) /\ Wit("Siblings", R_Siblings)
           /\ Wit("PatchDelivered", R_PatchDelivered) /\ Wit("Failure", R_Failure) /\ Wit("Residue", R_Residue)
           /\ Wit("Concurrency", R_Concurrency) /\ Wit("MemoGet", R_MemoGet) /\ Wit("StdPath", R_StdPath)
           /\ Wit("AfterFail", R_AfterFail) /\ Wit("Falsy", R_Falsy)
           /\ Wit("FailedThenLoad", R_FailedThenLoad) /\ Wit("NewArgsEx", R_NewArgsEx) /\ Wit("KwOnly", R_KwOnly) /\ Wit("Churn", R_Churn) /\ Wit("ParPlain", R_ParPlain) /\ Wit("NestedResidue", R_Residue2) /\ Wit("LateCopyreg", R_LateCopyreg) /\ Wit("LowProto", R_LowProto)

\* ---- every terminal state as a case for the replay on the real code ----
CaseDump == Terminal => PrintT(<<"CASE", ToJson(Rec)>>)
=============================================================================
