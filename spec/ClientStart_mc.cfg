SPECIFICATION Spec
CONSTANTS
  Fix <- FixAll
  Scenarios <- AllScenarios
  LateClose = FALSE
INVARIANT TypeOK
INVARIANT Inv_Usable
INVARIANT Inv_NoLeftover
PROPERTY Live_Returns
CHECK_DEADLOCK FALSE
