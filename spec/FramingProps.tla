--------------------------- MODULE FramingProps ---------------------------
(* C10 as operators over an observable record r = [scn |-> ..., obs |-> ...].          *)
(*   scn.lens  body lengths of the messages written by the sender (header = 4 bytes)    *)
(*   scn.cut   number of stream bytes that exist before the stream ends                 *)
(*   scn.endk  "none" (stream complete, stays open) | "fin" | "rst"                     *)
(*   obs.msgs  for each message handed to the caller: k if it equals the k-th message   *)
(*             sent, 0 if it equals none (partial / foreign)                            *)
(*   obs.outcome "done" | "CCE" | "raised:<type>" | "spin"                              *)
(*   obs.calls number of recv() calls the receiver made                                 *)
(* The same operators are evaluated on states of Framing.tla and on records projected  *)
(* from executions of the real recv_msg (FramingJudge.tla).                             *)
EXTENDS Naturals, Sequences, FiniteSets

RECURSIVE SumTo(_, _)
SumTo(lens, k) == IF k = 0 THEN 0 ELSE SumTo(lens, k - 1) + 4 + lens[k]
Total(lens) == SumTo(lens, Len(lens))
CompleteMsgs(lens, cut) == Cardinality({k \in 1..Len(lens) : SumTo(lens, k) <= cut})
Complete(r) == r.scn.cut = Total(r.scn.lens)

C10_Roundtrip(r) == Complete(r) => /\ r.obs.outcome = "done"
                                   /\ Len(r.obs.msgs) = Len(r.scn.lens)
                                   /\ \A k \in 1..Len(r.obs.msgs) : r.obs.msgs[k] = k
C10_NoPartial(r) == \A k \in 1..Len(r.obs.msgs) : r.obs.msgs[k] = k
C10_Detects(r)   == ~Complete(r) => /\ r.obs.outcome = "CCE"
                                    /\ Len(r.obs.msgs) = CompleteMsgs(r.scn.lens, r.scn.cut)
C10_Prompt(r)    == /\ r.obs.outcome \in {"done", "CCE"}
                    /\ r.obs.calls <= r.scn.cut + 1
=============================================================================
