------------------------ MODULE RemotePickleProps ------------------------
(* C13, C14, C15 as operators over an observable record r = [scn |-> .., obs |-> ..].      *)
(* Nothing here mentions the patch-frame stack, the dispatch table or any other           *)
(* implementation variable: scn says what was asked (classes, graph, patches, calls),     *)
(* obs says what the public API showed (exceptions, the loaded graph, the arguments the   *)
(* user's __getstate__/__setstate__ received, comparison with the `pickle` oracle).       *)
(* The same operators are evaluated by TLC on terminal states of RemotePickle.tla and on  *)
(* records projected from real executions (RemotePickleJudge.tla).                        *)
(*                                                                                        *)
(* Three scenario families (scn.t):                                                       *)
(*  "cls"   one instance of a generated class hierarchy                                   *)
(*      scn.chain   per-class feature, most derived first:                                *)
(*                  "none" | "gs" (plain __getstate__) | "gsr" (__getstate__(remote))     *)
(*                  | "gskw" (__getstate__ with ** kw, pass-through) | "red" (__reduce__)       *)
(*      scn.marker  derived from SupportRemoteGetState (TRUE) or duck-typed               *)
(*      scn.seen    the class was pickled remotely earlier in this process                *)
(*      scn.op      "rp" (remote_pickle round trip) | "pickle" | "copy" | "deepcopy"      *)
(*                  | "mp" (multiprocessing's ForkingPickler)                             *)
(*      scn.remote, scn.proto                                                             *)
(*      obs.created "ok" | "raised:<type>"  (outcome of the class statements)             *)
(*      obs.outcome "ok" | "raised:<type>" | "skip" (no class => nothing to run)          *)
(*      obs.gslog   flags the __getstate__ levels saw, in call order:                     *)
(*                  "T" | "F" (value of `remote`) | "unset" (no such argument arrived)    *)
(*      obs.equal_to_pickle  "T" | "F" | "na":  round trip result structurally equal to   *)
(*                  pickle.loads(pickle.dumps(x, proto)), or both raise                   *)
(*  "leaf"  a standard-library value (scn.kind, scn.item) bare or wrapped (scn.wrap);     *)
(*      scn.after = "fail": on a thread whose previous remote_pickle.loads raised         *)
(*      scn.pclass  "low" (protocols 0, 1) | "high" (2..5, None, -1); kind "copyreg_late" *)
(*                  = the reducer was registered with copyreg.pickle() at run time        *)
(*      obs.outcome, obs.equal_to_pickle as above                                         *)
(*  "graph" an object graph                                                               *)
(*      scn.g[i]    node i (numbered in the order pickle reaches them from node 1):       *)
(*                  kind "opt" (opt-in instance) | "plain" (instance) | "cont" (list /    *)
(*                  tuple / dict), ent = <<[k |-> key, to |-> node]>> in state order,     *)
(*                  ss (class defines __setstate__), ds (state is a dict), fs ("no", or   *)
(*                  the falsy state __getstate__ returns: "d0" {} | "i0" 0 | "t0" () |    *)
(*                  "s0" '' | "b0" False - standard unpickling calls __setstate__ for     *)
(*                  every state that is not None; or the class uses __getnewargs_ex__:    *)
(*                  "xa" args only | "xk" args and kwargs | "xo" kwargs only, state {})   *)
(*      scn.tp[i]   the node through which pickle reaches i first (0 for node 1)          *)
(*      scn.loads   <<[patch |-> <<path>>, fail, at, thr]>>: the loads() calls; a patch   *)
(*                  dictionary is given by its leaf paths: <<"k2","w">> = {k2: {w: X}},   *)
(*                  <<"k2","{}">> = {k2: {}} (an empty dict patch)                        *)
(*                  fail "none" | "raise" (__setstate__ of node `at` raises) | "trunc"    *)
(*                  (stream cut after `at` events) | "noclass" (a stream naming a class   *)
(*                  that cannot be imported)                                              *)
(*      scn.par     loads 1 and 2 run concurrently on two threads                         *)
(*      scn.churn   history: short-lived plain classes were remote-pickled and dropped    *)
(*                  before the (brand-new) opt-in classes of the graph were created       *)
(*      obs.dump    "ok" | "raised:<type>";  obs.gs[i] flags node i's __getstate__ saw    *)
(*      obs.loads[k] = [outcome, top, nodes, ss]: nodes[i] = the entries of the loaded    *)
(*                  copy of node i (key -> token; "n:j" reference to the copy of node j,  *)
(*                  "s:.." scalar, "P:path" patch value, "D:path" patch sub-dictionary),  *)
(*                  nodes[i]["#"] = kind or "unreached"; ss[i] = number of calls of the   *)
(*                  user's __setstate__ for node i; pres = "T" iff the patch dictionary   *)
(*                  the caller passed is unchanged (all levels) after the call            *)
(*      obs.fresh[k] the same loads() call executed on a fresh thread                     *)
(*      obs.equal_to_pickle compares the LAST loads() call (no patches, no injected       *)
(*                  failure; earlier calls of the sequence may have failed) with pickle   *)
EXTENDS Naturals, Sequences, FiniteSets

Rng(s) == {s[j] : j \in 1..Len(s)}
RECURSIVE Join(_)
Join(p) == IF Len(p) = 0 THEN "" ELSE IF Len(p) = 1 THEN p[1] ELSE p[1] \o "/" \o Join(Tail(p))
StrictPrefix(a, p) == Len(a) < Len(p) /\ SubSeq(p, 1, Len(a)) = a
NatStr(n) == CASE n = 0 -> "0" [] n = 1 -> "1" [] n = 2 -> "2" [] n = 3 -> "3" [] n = 4 -> "4"
               [] n = 5 -> "5" [] n = 6 -> "6" [] n = 7 -> "7" [] n = 8 -> "8" [] OTHER -> "9"

(* ------------------------------ class hierarchies ------------------------------ *)
HasRed(c) == \E j \in 1..Len(c) : c[j] = "red"
\* a plain __getstate__ shadows a remote-aware one further up the hierarchy
ShadowPairs(c) == {<<i, j>> \in (1..Len(c)) \X (1..Len(c)) : i < j /\ c[i] = "gs" /\ c[j] = "gsr"}
\* clear-cut inconsistency: no __reduce__ anywhere takes pickling out of __getstate__'s hands
Inconsistent(c) == ShadowPairs(c) # {} /\ ~HasRed(c)
\* a shadowed remote __getstate__ in a hierarchy that also overrides __reduce__: the
\* statement does not say which rule wins, nothing is demanded
Ambiguous(c) == ShadowPairs(c) # {} /\ HasRed(c)
\* the class declares a remote-aware __getstate__
DeclaresRemote(c) == ~HasRed(c) /\ ~Inconsistent(c) /\ \E j \in 1..Len(c) : c[j] = "gsr"
StdOps == {"pickle", "copy", "deepcopy", "mp"}

(* ------------------------------ graphs and patch addressing ------------------------------ *)
N(scn) == Len(scn.g)
OptNodes(scn) == {i \in 1..N(scn) : scn.g[i].kind = "opt"}
RECURSIVE Anc(_, _, _)           \* a is a proper ancestor of c on pickle's first-visit tree
Anc(scn, a, c) == IF c = 0 \/ scn.tp[c] = 0 THEN FALSE ELSE scn.tp[c] = a \/ Anc(scn, a, scn.tp[c])
\* "the direct child stored under k": c is a value of a's dict state, both opt-in.  When an
\* object is stored in several places the address is the first holder pickle meets.
Claims(scn, c) == {<<a, j>> \in (1..N(scn)) \X (1..N(scn)) :
                     /\ a \in OptNodes(scn) /\ scn.g[a].ds /\ j <= Len(scn.g[a].ent)
                     /\ scn.g[a].ent[j].to = c /\ Anc(scn, a, c)}
Owner(scn, c) == LET cl == Claims(scn, c) IN
                 IF c \notin OptNodes(scn) \/ cl = {} THEN <<0, 0>>
                 ELSE CHOOSE x \in cl : \A y \in cl : x[1] < y[1] \/ (x[1] = y[1] /\ x[2] <= y[2])
RECURSIVE Addr(_, _)
Addr(scn, c) == IF c = 1 THEN [ok |-> scn.g[1].kind = "opt", p |-> <<>>]
                ELSE LET o == Owner(scn, c) IN
                     IF o[1] = 0 THEN [ok |-> FALSE, p |-> <<>>]
                     ELSE LET pa == Addr(scn, o[1]) IN
                          [ok |-> pa.ok, p |-> Append(pa.p, scn.g[o[1]].ent[o[2]].k)]
\* keys of the patch dictionary found at address a
\* (a path ending in "{}" stands for an EMPTY dictionary at that place: <<"k2", "{}">> = {k2: {}}; it is a dict
\* patch addressed to the child under k2 that overrides zero entries)
PKeys(P, a) == {p[Len(a) + 1] : p \in {q \in Rng(P) : StrictPrefix(a, q)}} \ {"{}"}
Patched(scn, P, i) == Addr(scn, i).ok /\ PKeys(P, Addr(scn, i).p) # {}
\* every addressed object has a dict state (only entries of a dict state can be overridden)
Patchable(scn, P) == \A i \in 1..N(scn) : Patched(scn, P, i) => scn.g[i].ds

EntKeys(nd) == {nd.ent[j].k : j \in 1..Len(nd.ent)}
EntTo(nd, k) == nd.ent[CHOOSE j \in 1..Len(nd.ent) : nd.ent[j].k = k].to
\* what standard unpickling of the state taken with the given flag restores
BaseEnt(scn, i, via) ==
  LET nd == scn.g[i]
      \* an opt-in instance whose __getstate__ returns a falsy (but not None) state keeps its attributes
      \* through __getnewargs__; its __setstate__ records which state it received ("got")
      ks == {"#", "val"} \cup (IF nd.kind = "cont" THEN {} ELSE {"w"})
            \cup (IF nd.kind = "opt" THEN (IF nd.fs = "no" THEN {"via"} ELSE {"got"}) \cup (IF nd.ss THEN {"sset"} ELSE {}) ELSE {})
            \cup EntKeys(nd)
  IN [k \in ks |-> CASE k = "#" -> nd.kind
                     [] k = "val" -> "s:v" \o NatStr(i)
                     [] k = "w" -> "s:w" \o NatStr(i)
                     [] k = "via" -> "s:" \o via
                     [] k = "sset" -> "s:T"
                     [] k = "got" -> "s:" \o nd.fs
                     [] OTHER -> "n:" \o NatStr(EntTo(nd, k))]
\* AbsPatch: the entries of node i after loads(.., P)
PatchedEnt(scn, P, i, via) ==
  LET b == BaseEnt(scn, i, via)
      a == Addr(scn, i)
  IN IF ~a.ok THEN b
     ELSE LET pk == PKeys(P, a.p) IN
          [k \in DOMAIN b \cup pk |->
             IF k \notin pk THEN b[k]
             ELSE IF \E q \in Rng(P) : q = Append(a.p, k) THEN "P:" \o Join(Append(a.p, k))
             ELSE IF \E c \in 1..N(scn) : Owner(scn, c)[1] = i /\ scn.g[i].ent[Owner(scn, c)[2]].k = k
                  THEN b[k]                       \* the child itself is patched, the reference stays
                  ELSE "D:" \o Join(Append(a.p, k))]
Via(scn) == IF scn.remote THEN "R" ELSE "L"
Reached(ld, i) == ld.nodes[i]["#"] # "unreached"
IsGraph(r) == r.scn.t = "graph"
RpGraph(r) == IsGraph(r) /\ r.scn.op = "rp"
GoodLoads(r) == {k \in 1..Len(r.scn.loads) : r.scn.loads[k].fail = "none"}
PlainLoads(r) == {k \in GoodLoads(r) : r.scn.loads[k].patch = <<>>}

(* ------------------------------ shape vocabulary ------------------------------ *)
(* Used by the signatures of RemotePickleJudge.tla and by the invariants of the model of the  *)
(* code as written, which are weakened by exactly the shapes listed in                        *)
(* known_findings.d/rpickle.json (a violation on any other shape still fails the run).        *)
NamedKids(scn, a) == {j \in 1..Len(scn.g[a].ent) : scn.g[scn.g[a].ent[j].to].kind = "opt"}
\* some opt-in class has no __setstate__
K_NoSetstate(scn) == \E c \in OptNodes(scn) : ~scn.g[c].ss
\* two opt-in objects are direct attributes of one opt-in object
K_Siblings(scn) == \E a \in OptNodes(scn) : scn.g[a].ds /\ Cardinality(NamedKids(scn, a)) >= 2
\* an opt-in object that is nobody's direct child (held by a container, a plain object, a non-dict state,
\* or below a top-level object that is not opt-in)
K_Free(scn) == \E c \in OptNodes(scn) : c # 1 /\ Owner(scn, c)[1] = 0
\* a dict-state attribute refers to an opt-in object pickle has met before (shared / cyclic / self)
K_Stale(scn) == \E a \in OptNodes(scn) : scn.g[a].ds /\ \E j \in NamedKids(scn, a) :
                   Owner(scn, scn.g[a].ent[j].to) # <<a, j>>
AnyPatch(scn) == \E k \in 1..Len(scn.loads) : scn.loads[k].patch # <<>>
\* a dict patch two levels down (for the child of a child)
\* an opt-in class whose __getnewargs_ex__ returns keyword arguments only (signature field; the defect it named is
\* fixed in repo commit 35e075b and no invariant is weakened by it any more)
K_KwOnly(scn) == \E c \in OptNodes(scn) : scn.g[c].fs = "xo"
K_DeepPatch(scn) == \E k \in 1..Len(scn.loads) : \E p \in Rng(scn.loads[k].patch) : Len(p) >= 3
Known_C14(scn) == K_NoSetstate(scn) \/ K_Siblings(scn)
Known_C15(scn) == K_NoSetstate(scn) \/ K_Siblings(scn) \/ (AnyPatch(scn) /\ (K_Free(scn) \/ K_Stale(scn)))
\* remote=False goes through the same restore machinery for classes already registered as opt-in
Known_C13(scn) == scn.t = "graph" /\ scn.op = "rp" /\ ~scn.remote /\ (scn.marker \/ scn.seen) /\ Known_C14(scn)

(* ===================================== C13 ===================================== *)
\* graphs / classes / values that do not opt in: the remote_pickle round trip is the pickle round trip
C13_NonOptInEqualsPickle(r) ==
  /\ (r.scn.t = "cls" /\ r.scn.op = "rp" /\ ~DeclaresRemote(r.scn.chain) /\ ~Inconsistent(r.scn.chain)
        /\ ~Ambiguous(r.scn.chain)) => (r.obs.created = "ok" /\ r.obs.equal_to_pickle = "T")
  /\ (r.scn.t = "leaf") => r.obs.equal_to_pickle = "T"
  /\ (RpGraph(r) /\ OptNodes(r.scn) = {}) => r.obs.equal_to_pickle = "T"
\* dumps(g, remote=False) is standard pickling even for classes that opt in
C13_RemoteFalseIsStd(r) ==
  /\ (r.scn.t = "cls" /\ r.scn.op = "rp" /\ ~r.scn.remote /\ r.obs.created = "ok"
        /\ ~Ambiguous(r.scn.chain)) => r.obs.equal_to_pickle = "T"
  /\ (RpGraph(r) /\ ~r.scn.remote) => r.obs.equal_to_pickle = "T"
\* pickle, copy and multiprocessing keep calling __getstate__ without the remote flag
C13_StdKeepsPlainGetstate(r) ==
  /\ (r.scn.t = "cls" /\ r.scn.op \in StdOps /\ r.obs.created = "ok")
        => (r.obs.outcome = "ok" /\ \A j \in 1..Len(r.obs.gslog) : r.obs.gslog[j] # "T")
  /\ (IsGraph(r) /\ r.scn.op \in StdOps)
        => (r.obs.dump = "ok" /\ \A i \in 1..N(r.scn) : \A j \in 1..Len(r.obs.gs[i]) : r.obs.gs[i][j] # "T")
\* an inconsistent hierarchy is rejected with a Warning: when the class is declared (marker
\* base) or at the latest when an instance is dumped remotely (duck-typed)
C13_InconsistentRejected(r) ==
  (r.scn.t = "cls" /\ Inconsistent(r.scn.chain)) =>
     /\ r.scn.marker => r.obs.created = "raised:Warning"
     /\ (~r.scn.marker /\ r.scn.op = "rp" /\ r.scn.remote) => r.obs.outcome = "raised:Warning"

(* ===================================== C14 ===================================== *)
C14Applies(r) == RpGraph(r) /\ r.scn.remote
\* every opt-in instance has its state taken with remote=True exactly once
C14_Once(r) == C14Applies(r) =>
  /\ r.obs.dump = "ok"
  /\ \A i \in OptNodes(r.scn) : r.obs.gs[i] = <<"T">>
C14_LoadsSucceeds(r) == C14Applies(r) => \A k \in GoodLoads(r) :
  (Patchable(r.scn, r.scn.loads[k].patch) => r.obs.loads[k].outcome = "ok")
\* the loaded graph has the shape of the dumped one, sharing and cycles included
C14_Shape(r) == C14Applies(r) => \A k \in PlainLoads(r) :
  r.obs.loads[k].outcome = "ok" =>
     /\ r.obs.loads[k].top = "n:1"
     /\ \A i \in 1..N(r.scn) : Reached(r.obs.loads[k], i) =>
            r.obs.loads[k].nodes[i] = BaseEnt(r.scn, i, "R")
\* restored through the class' own __setstate__, called once, when it defines one
C14_ViaSetstate(r) == C14Applies(r) => \A k \in PlainLoads(r) :
  r.obs.loads[k].outcome = "ok" =>
     \A i \in OptNodes(r.scn) : Reached(r.obs.loads[k], i) =>
            r.obs.loads[k].ss[i] = (IF r.scn.g[i].ss THEN 1 ELSE 0)

(* ===================================== C15 ===================================== *)
C15Applies(r) == RpGraph(r) /\ r.scn.remote
\* patches reach the addressed objects: top-level entries, dict under k -> direct child, value under k -> replaces
C15_Delivery(r) == C15Applies(r) => \A k \in GoodLoads(r) :
  LET P == r.scn.loads[k].patch IN
  (Patchable(r.scn, P) /\ P # <<>>) =>
     /\ r.obs.loads[k].outcome = "ok"
     /\ r.obs.loads[k].top = "n:1"
     /\ \A i \in 1..N(r.scn) : (Patched(r.scn, P, i) /\ Reached(r.obs.loads[k], i)) =>
            r.obs.loads[k].nodes[i] = PatchedEnt(r.scn, P, i, Via(r.scn))
\* ... and nobody else
C15_OnlyAddressed(r) == C15Applies(r) => \A k \in GoodLoads(r) :
  LET P == r.scn.loads[k].patch IN
  (Patchable(r.scn, P) /\ P # <<>> /\ r.obs.loads[k].outcome = "ok") =>
     \A i \in 1..N(r.scn) : (~Patched(r.scn, P, i) /\ Reached(r.obs.loads[k], i)) =>
            r.obs.loads[k].nodes[i] = BaseEnt(r.scn, i, Via(r.scn))
\* every loads call behaves as the same call on a fresh thread (after successes, failures, other threads)
C15_Independent(r) == C15Applies(r) => \A k \in 1..Len(r.scn.loads) :
  r.obs.loads[k] = r.obs.fresh[k]
\* ... and leaves no residue: whether it returns or raises, the patch dictionary of the caller (all levels) is what it was
C15_NoResidue(r) == C15Applies(r) => \A k \in 1..Len(r.scn.loads) : r.obs.loads[k].pres = "T"
=============================================================================
