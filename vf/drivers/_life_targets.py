"""Targets for children spawned by the lifecycle / clientstart / poollife drivers.
Must be importable by `spawn` children and by the remote server's backends
(PYTHONPATH contains REPO and /verif)."""
import os
import time


def _mark(flag_path):
    if flag_path:
        with open(flag_path, 'w') as f:
            f.write(str(os.getpid()))


def coop_loop(flag_path=None):
    """cooperative: a Python-level loop; an asynchronous exception surfaces within ~1 ms"""
    _mark(flag_path)
    while True:
        time.sleep(0.001)


def swallow_loop(flag_path=None):
    """the suite's malicious_loop: catches Exception (hence WorkerTerminatedError) and continues"""
    while True:
        try:
            _mark(flag_path)
            while True:
                time.sleep(0.001)
        except Exception:
            pass


def sleep_block(flag_path=None):
    """blocked in one long system call (async exceptions surface only when bytecode resumes)"""
    _mark(flag_path)
    time.sleep(600)


def frozen_c(flag_path=None):
    """interpreter lock held inside C: no Python thread of this process (incl. the control
    thread) gets to run until the builtin returns (hours)"""
    _mark(flag_path)
    return sum(range(10 ** 13))


def pers_target(beh, flag_path=None):
    """target of a persistent worker: one enqueue(beh, flag) puts the child into the behaviour"""
    return {'coop': coop_loop, 'swallow': swallow_loop, 'sleep': sleep_block, 'frozen': frozen_c, 'linger': linger_raise}[beh](flag_path)


def quick_ret():
    return 7


def exit_early():
    os._exit(3)


# ---- pool targets -------------------------------------------------------------------------
def sq(x):
    return x * x


def sq_or_stick(x):
    """x >= 1000: never returns and swallows every Exception (stuck, uncooperative)"""
    if x >= 1000:
        while True:
            try:
                while True:
                    time.sleep(0.001)
            except Exception:
                pass
    return x * x


def sq_or_sleep(x):
    if x >= 1000:
        time.sleep(600)
    return x * x


# ---- C20: children that die while starting ---------------------------------------------------
class ExitOnLoad:
    """a target that kills the child while the child unpickles it (before ProcessWorker._run starts)"""

    def __reduce__(self):
        return (os._exit, (3,))

    def __call__(self, *a, **kw):
        return None


try:
    from pyworkers.process import ProcessWorker as _PW
    from pyworkers.persistent_process import PersistentProcessWorker as _PPW

    class CtrlExitProcessWorker(_PW):
        """the child dies in its control thread, i.e. before the main thread reports the identity"""

        def _ctrl_fn(self):
            os._exit(4)

    class CtrlExitPersistentProcessWorker(_PPW):
        def _ctrl_fn(self):
            os._exit(4)
except ImportError:        # pyworkers not importable here (e.g. manifest tooling): the classes are only needed by replays
    pass


# ---- C09: pool targets and workers whose id collides with a registered one ---------------------
def pool_target(x):
    """x >= 2000: one long system call; x >= 1000: never returns and swallows every Exception;
    x < 0: poison (raises: the persistent worker dies); else x*x"""
    if x >= 1000:
        d = os.environ.get('LIFE_FLAGDIR')
        if d:
            import threading
            with open(os.path.join(d, 'stuck.%d.%d' % (os.getpid(), threading.get_native_id())), 'w') as f:
                f.write(str(x))
        if x >= 2000:
            time.sleep(600)
        while True:
            try:
                while True:
                    time.sleep(0.001)
            except Exception:
                pass
    if x == -2:
        # fails, but leaves a non-daemon thread behind: the worker reports its end while its process lingers
        import threading
        threading.Thread(target=time.sleep, args=(20.0,), name='left-behind').start()
        d = os.environ.get('LIFE_FLAGDIR')
        if d:        # tells the harness which worker processes have ended their work and merely linger
            with open(os.path.join(d, 'linger.%d' % os.getpid()), 'w') as f:
                f.write('x')
        raise RuntimeError('poison input (process lingers)')
    if x < 0:
        raise RuntimeError('poison input')
    return x * x


class _Colliding:
    """a worker that reports a given id (two hosts with the same hostname and pid/tid numbering produce
    such collisions for remote workers; here the id is handed in)"""

    def __init__(self, *a, forced_id=None, **kw):
        self._forced_id = forced_id
        super().__init__(*a, **kw)

    @property
    def id(self):
        f = self.__dict__.get('_forced_id')
        return tuple(f) if f else super().id


try:
    from pyworkers.persistent_thread import PersistentThreadWorker as _PTW
    from pyworkers.persistent_remote import PersistentRemoteWorker as _PRW

    class CollidingPersistentThreadWorker(_Colliding, _PTW):
        pass

    class CollidingPersistentProcessWorker(_Colliding, _PPW):
        pass

    class CollidingPersistentRemoteWorker(_Colliding, _PRW):
        pass
except (ImportError, NameError):
    pass


def linger_ret(flag_path=None, linger=8.0):
    """the target returns at once but leaves a non-daemon thread behind: the child reports its result and closes
    its pipes, while the process lives on (interpreter shutdown joins the thread) for `linger` seconds"""
    import threading
    threading.Thread(target=time.sleep, args=(linger,), name='left-behind').start()
    _mark(flag_path)
    return 7


def linger_raise(flag_path=None, linger=8.0):
    """item of a persistent worker: leaves a non-daemon thread behind and fails - the child's loop ends, it reports, closes its
    pipes (the arguments pipe too) and the process lives on for `linger` seconds"""
    import threading
    threading.Thread(target=time.sleep, args=(linger,), name='left-behind').start()
    _mark(flag_path)
    raise RuntimeError('this item fails after leaving a thread behind')


# ---- C04: a result that takes long to rebuild on the parent side (keeps the frontend thread of a remote worker busy) ----
def _slow_rebuild(flag_path, secs):
    _mark(flag_path)
    time.sleep(secs)
    return 'rebuilt'


class SlowResult:
    def __init__(self, flag_path, secs):
        self.flag_path, self.secs = flag_path, secs

    def __reduce__(self):
        return (_slow_rebuild, (self.flag_path, self.secs))


def slow_result_target(flag_path=None, secs=7.0):
    return SlowResult(flag_path, secs)


# ---- C04: an outcome that cannot be rebuilt on the parent side ----------------------------------------------------------
class Unrebuildable(Exception):
    """unpickling calls Unrebuildable('...') - one argument short: TypeError wherever the outcome is rebuilt"""

    def __init__(self, a, b):
        super().__init__('cannot be rebuilt from its args')


def unreb_raise(flag_path=None, delay=0.25):
    _mark(flag_path)
    time.sleep(delay)
    raise Unrebuildable(1, 2)


# ---- C20: a real server that is killed exactly when it is about to send the runtime info to the client ------------------
def suicidal_server(addr_file):
    """runs a real RemoteServer in this process; pyworkers.remote.send_msg is wrapped (in this process only) so that the
    process SIGKILLs itself when it is asked to send the 'ctrl: runtime info' frame"""
    import signal
    import multiprocessing.connection  # noqa: pyworkers.remote uses mp.connection without importing the submodule itself
    import pyworkers.remote as R
    from pyworkers.remote_server import RemoteServer
    real_send = R.send_msg

    def send_msg(sock, msg, comment=None):
        if comment and str(comment).startswith('ctrl: runtime info'):
            os.kill(os.getpid(), signal.SIGKILL)
            time.sleep(60)
        return real_send(sock, msg, comment)
    R.send_msg = send_msg
    srv = RemoteServer(('127.0.0.1', 0))
    srv.open_socket()
    with open(addr_file + '.tmp', 'w') as f:
        f.write('%s %d %d' % (srv.addr[0], srv.addr[1], os.getpid()))
    os.rename(addr_file + '.tmp', addr_file)
    srv.run()


LIFE_MODX = '''import multiprocessing, sys
if multiprocessing.current_process().name != 'MainProcess':      # imported in a spawned child (remote backend, process-kind child)
    sys.exit(0)


def work(x=1):
    return x + 1
'''
