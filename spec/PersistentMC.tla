----------------------------- MODULE PersistentMC -----------------------------
EXTENDS Persistent
\* constant operators for the cfg files (cfg files cannot hold tuples or records)
Sh(n, kw, sp) == [n |-> n, kw |-> kw, sp |-> sp]
K_all == {"thread", "process", "remote"}
K_thread == {"thread"}
K_proc == {"process"}
K_remote == {"remote"}
DT_all == {"list", "tuple"}
DT_list == {"list"}
DT_tuple == {"tuple"}
DA_mc == {<<>>, <<"d1">>, <<"d1", "d2", "d3">>}
DA_one == {<<"d1", "d2">>}
DK_mc == {<<>>, << <<"a", "da">>, <<"b", "db">> >>}
DK_one == {<< <<"a", "da">> >>}
\* fewer / as many / more positional arguments than the defaults, overriding and new keywords, a None result
Sh_mc == {Sh(0, <<>>, "no"), Sh(1, << <<"a", "xa">> >>, "no"), Sh(3, << <<"c", "xc">> >>, "no"),
          Sh(4, <<>>, "no"), Sh(1, <<>>, "@none")}
Sh_small == {Sh(0, << <<"a", "xa">> >>, "no"), Sh(2, << <<"c", "xc">> >>, "no"), Sh(1, <<>>, "@zero")}
Sh_one == {Sh(1, <<>>, "no")}
Ops_c05 == {"enq", "nextnb", "nextb", "close", "wait", "call", "alive"}
Ops_c17 == {"enq", "enq@raise", "enq@stuck", "nextnb", "close", "call", "kill", "term", "waitT",
            "restart", "restartP", "restartT", "restartTnf"}
Ops_c17timed == {"enq", "enq@busy", "enq@slow", "enq@linger", "nextnb", "close", "restartK", "restartKP", "restart"}
Ops_c05iter == {"enq", "iter1", "nextb", "nextnb", "close", "wait"}
Ops_c05death == {"enq", "enq@raise", "call", "nextnb", "alive"}
Ops_c17paths == {"enq", "enq@raise", "enq@stuck", "nextnb", "close", "kill", "term",
                 "restart", "restartP", "restartT", "restartTnf"}
\* replay budgets: how often an operation may occur in one dumped history (state constraint on h)
Cnt(op) == Cardinality({k \in 1..Len(h) : h[k][1] = op})
PathConstraint == /\ Cnt("alive") <= 1 /\ Cnt("close") <= 2 /\ Cnt("wait") <= 2
                  /\ Cnt("nextnb") <= 3 /\ Cnt("nextb") <= 3 /\ Cnt("call") <= 2
                  /\ Cnt("kill") + Cnt("term") + Cnt("enq@raise") + Cnt("enq@stuck") <= 2
=============================================================================
