"""Turns the abstract scenarios enumerated by TLC (spec/RemotePickleMC.tla) into REAL classes
and object graphs, runs them through the real pyworkers.remote_pickle and projects what the
public API showed into the `obs` record of spec/RemotePickleProps.tla.

Nothing in this module decides a property: it only builds, runs and projects.  Generated
classes are created with type(name, bases, ns) and bound to attributes of this (importable)
module so that pickle can find them by reference."""
import copy
import io
import pickle
import pickletools
import queue
import sys
import threading

from ..common import MachineryError, ensure_repo_on_path

_ME = sys.modules[__name__]
LOG = []                       # ('gs', tag, flag) | ('ss', tag) | ('new', kind)
_CTL = threading.local()       # per-thread: raise_at, hook


class Injected(Exception):
    """Raised by a generated __setstate__ when the scenario says so."""


def _rp():
    ensure_repo_on_path()
    from pyworkers import remote_pickle
    return remote_pickle


def _event(ev):
    LOG.append(ev)
    hook = getattr(_CTL, 'hook', None)
    if hook is not None:
        hook(ev)


def _proto(scn):
    """scn.proto: an int, or "None" (JSON / TLC cannot carry null)."""
    p = scn.get('proto', 4)
    return None if p in ('None', None) else p


def rp_dumps(rp, scn, obj, **kw):
    """remote_pickle.dumps, or - scn.api = "file" - remote_pickle.dump into a file object."""
    if scn.get('api') == 'file':
        f = io.BytesIO()
        rp.dump(obj, f, **kw)
        return f.getvalue()
    return rp.dumps(obj, **kw)


def rp_loads(rp, scn, data, patches=None):
    if scn.get('api') == 'file':
        return rp.load(io.BytesIO(data), patches) if patches else rp.load(io.BytesIO(data))
    return rp.loads(data, patches) if patches else rp.loads(data)


def std_roundtrip(scn, obj, proto):
    """The oracle: pickle.dumps/loads, or pickle.dump/load for the file api."""
    if scn.get('api') == 'file':
        f = io.BytesIO()
        pickle.dump(obj, f, protocol=proto)
        return f.getvalue(), pickle.load(io.BytesIO(f.getvalue()))
    data = pickle.dumps(obj, protocol=proto)
    return data, pickle.loads(data)


def _bind(cls):
    cls.__module__ = __name__
    cls.__qualname__ = cls.__name__
    f = cls.__dict__.get('__new__')
    f = getattr(f, '__func__', f)
    if f is not None and '<locals>' in getattr(f, '__qualname__', ''):
        f.__qualname__, f.__module__ = cls.__name__ + '.__new__', __name__
    setattr(_ME, cls.__name__, cls)
    return cls


# ----------------------------------------------------------------------------------------
# graph family: node classes
# ----------------------------------------------------------------------------------------
_OPT_CACHE = {}
_FRESH = [0]


def _new_logged(cls, *a, **kw):
    _event(('new', getattr(cls, '_kind', '?')))
    return object.__new__(cls)


FALSY = {'d0': {}, 'i0': 0, 't0': (), 's0': '', 'b0': False}


def _fs_name(st):
    """Which of the falsy states a __setstate__ received."""
    if isinstance(st, dict):
        return 'd0' if not st else 'dict'
    for k, v in FALSY.items():
        if k != 'd0' and type(st) is type(v) and st == v:
            return k
    return 'other:' + repr(st)[:30]


def _make_falsy_opt(name, marker, fs):
    """Opt-in class whose __getstate__ returns a falsy state that is not None; the attributes travel through
    __getnewargs__.  Standard unpickling calls __setstate__ with that state."""
    rp = _rp()

    def __new__(cls, val=None, w=None):
        _event(('new', 'opt'))
        o = object.__new__(cls)
        if val is not None:
            o.val, o.w = val, w
        return o

    def __getnewargs__(self):
        return (self.val, self.w)

    def __getnewargs_ex__(self):          # fs = xa: args only | xk: args and kwargs | xo: kwargs only
        if fs == 'xa':
            return ((self.val, self.w), {})
        if fs == 'xk':
            return ((self.val,), {'w': self.w})
        return ((), {'val': self.val, 'w': self.w})

    def __getstate__(self, remote=False):
        _event(('gs', self.__dict__.get('val'), 'T' if remote is True else ('F' if remote is False else repr(remote))))
        return {} if fs in ('d0', 'xa', 'xk', 'xo') else FALSY[fs]

    def __setstate__(self, st):
        _event(('ss', self.__dict__.get('val')))
        if getattr(_CTL, 'raise_at', None) == self.__dict__.get('val'):
            raise Injected('injected failure in __setstate__ of %r' % (self.__dict__.get('val'),))
        if isinstance(st, dict):
            self.__dict__.update(st)
        got = _fs_name(st)
        self.__dict__['got'] = fs if (fs[0] == 'x' and got == 'd0') else got
        self.__dict__['sset'] = 'T'

    # protocols 2 and 3 pickle cls.__new__ by reference when __getnewargs_ex__ returns keyword arguments
    __new__.__qualname__, __new__.__module__ = name + '.__new__', __name__
    ns = {'__new__': __new__, '__getstate__': __getstate__, '__setstate__': __setstate__, '_kind': 'opt'}
    if fs[0] == 'x':
        ns['__getnewargs_ex__'] = __getnewargs_ex__
    else:
        ns['__getnewargs__'] = __getnewargs__
    bases = (rp.SupportRemoteGetState,) if marker else (object,)
    return _bind(type(name, bases, ns))


SLOT_NAMES = ('val', 'w', 'via', 'sset') + tuple('%s%d' % (c, i) for c in 'kx' for i in range(1, 7))


def attrs_of(o):
    """The attributes of a generated instance: its __dict__ (if it has one) and its filled slots."""
    d = dict(getattr(o, '__dict__', {}))
    for k in getattr(type(o), '_slotnames', ()):
        if hasattr(o, k):
            d[k] = getattr(o, k)
    return d


def _wrapped(f):
    """a decorator written with functools.wraps: inspect.signature still shows the parameters of f"""
    import functools

    @functools.wraps(f)
    def wrapper(*args, **kwargs):
        return f(*args, **kwargs)
    return wrapper


def _make_opt(name, marker, ss, ds, gvar='plain', slots=False):
    """gvar: how the remote-aware __getstate__ is spelled: "plain" (self, remote=False) | "kwonly" (self, *, remote=False)
    | "wrapped" (behind a functools.wraps decorator).  slots: the class declares __slots__ and keeps its attributes there."""
    rp = _rp()

    def state_of(self, remote):
        _event(('gs', getattr(self, 'val', None), 'T' if remote is True else ('F' if remote is False else repr(remote))))
        d = attrs_of(self)
        d['via'] = 'R' if remote else 'L'
        return d if ds else list(d.items())
    if gvar == 'kwonly':
        def __getstate__(self, *, remote=False):
            return state_of(self, remote)
    else:
        def __getstate__(self, remote=False):
            return state_of(self, remote)
        if gvar == 'wrapped':
            __getstate__ = _wrapped(__getstate__)

    ns = {'__getstate__': __getstate__, '_kind': 'opt', '__new__': _new_logged}
    if slots:
        ns['__slots__'] = SLOT_NAMES
        ns['_slotnames'] = SLOT_NAMES
    if ss:
        def __setstate__(self, st):
            d = dict(st)
            _event(('ss', d.get('val')))
            if getattr(_CTL, 'raise_at', None) == d.get('val'):
                raise Injected('injected failure in __setstate__ of %r' % (d.get('val'),))
            d['sset'] = 'T'
            for k, v in d.items():
                setattr(self, k, v)
        ns['__setstate__'] = __setstate__
    bases = (rp.SupportRemoteGetState,) if marker else (object,)
    return _bind(type(name, bases, ns))


_FRESHN = [0]


def fresh_opt_class(marker, ss, ds):
    """A brand-new opt-in class (never seen by the library before)."""
    _FRESHN[0] += 1
    return _make_opt('OptFresh%d_%s%s%s' % (_FRESHN[0], 'M' if marker else 'D', 'S' if ss else 's', 'D' if ds else 'd'), marker, ss, ds)


class _Record:
    pass


def churn(n=120):
    """History: a program that creates short-lived plain classes, remote-dumps an instance of each and drops them."""
    import gc
    rp = _rp()
    for i in range(n):
        c = type('Record%d' % i, (), {'__module__': __name__})
        c.__qualname__ = c.__name__
        setattr(_ME, c.__name__, c)
        x = c()
        x.a = i
        rp.dumps([x])
        delattr(_ME, c.__name__)
        del x, c
    gc.collect()


def opt_class(marker, ss, ds, seen, fs='no', sub=False, gvar='plain', slots=False):
    """`sub`: a subclass that INHERITS its remote-aware __getstate__ (class Duckling(Duck): pass)."""
    if fs != 'no':
        gvar, slots = 'plain', False
    if sub:
        key = (marker, ss, ds, bool(seen or marker), fs, 'sub', gvar, slots)
        c = _OPT_CACHE.get(key)
        if c is None:
            base = opt_class(marker, ss, ds, seen, fs, gvar=gvar, slots=slots)
            c = _bind(type(base.__name__ + '_sub', (base,), {}))
            if key[3] and not marker:
                x = object.__new__(c)
                x.val, x.w = 'v0', 'w0'
                try:
                    _rp().dumps(x)      # "pickled remotely earlier in this process"
                except BaseException:   # noqa  (a raising dumps is an outcome of the scenario's own dump, not of the harness)
                    pass
            _OPT_CACHE[key] = c
        return c
    return _opt_class(marker, ss, ds, seen, fs, gvar, slots)


def _opt_class(marker, ss, ds, seen, fs='no', gvar='plain', slots=False):
    """One class per feature combination.  `seen` classes have been dumped remotely before (so they sit
    in supported_classes); an un-`seen` duck-typed class is never dumped remotely through this handle."""
    key = (marker, ss, ds, bool(seen or marker), fs, gvar, slots)
    c = _OPT_CACHE.get(key)
    if c is None:
        name = 'Opt_%s%s%s_%s%s' % ('M' if marker else 'D', 'S' if ss else 's', 'D' if ds else 'd', 'seen' if key[3] else 'fresh',
                                    '' if fs == 'no' else '_' + fs)
        name += ('' if gvar == 'plain' else '_' + gvar) + ('_slots' if slots else '')
        c = _make_opt(name, marker, ss, ds, gvar, slots) if fs == 'no' else _make_falsy_opt(name, marker, fs)
        if key[3] and not marker:
            x = object.__new__(c)
            x.val, x.w = 'v0', 'w0'
            try:
                _rp().dumps(x)          # "pickled remotely earlier in this process"
            except BaseException:       # noqa  (a raising dumps is an outcome of the scenario's own dump, not of the harness)
                pass
        _OPT_CACHE[key] = c
    return c


class Plain:
    _kind = 'plain'


class PlainGS(Plain):
    """plain __getstate__/__setstate__ (no remote parameter: a remote flag passed to it would be a TypeError)"""

    def __getstate__(self):
        return dict(self.__dict__)

    def __setstate__(self, st):
        _event(('pss', st.get('val')))          # a point at which another thread's load can be nested
        self.__dict__.update(st)


class PlainKW(PlainGS):
    """**kwargs pass-through override"""

    def __getstate__(self, **kwargs):
        return super().__getstate__(**kwargs)


class PlainReduce(Plain):
    def __reduce__(self):
        return (_plain_new, (type(self),), dict(self.__dict__))


class PlainReduceEx(Plain):
    def __reduce_ex__(self, protocol):
        return (_plain_new, (type(self),), dict(self.__dict__))


class PlainNewArgs(Plain):
    def __new__(cls, *args):
        if args != ('a', 1) and args != ():
            raise TypeError('unexpected __new__ arguments %r' % (args,))
        return object.__new__(cls)

    def __getnewargs__(self):
        return ('a', 1)


class PlainSlots(Plain):
    __slots__ = ('sl',)


def _plain_new(cls):
    return object.__new__(cls)


PLAIN_VARIANTS = {'plain': Plain, 'gs': PlainGS, 'kw': PlainKW, 'reduce': PlainReduce, 'reduce_ex': PlainReduceEx,
                  'newargs': PlainNewArgs, 'slots': PlainSlots}
for _c in PLAIN_VARIANTS.values():
    _bind(_c)


# ----------------------------------------------------------------------------------------
# graph family: build, run, project
# ----------------------------------------------------------------------------------------
def build_graph(scn):
    """scn.g -> (top object, expected class / container type per node)."""
    g = scn['g']
    n = len(g)
    remote_now = scn['op'] == 'rp' and scn['remote']
    seen = scn['seen'] or remote_now            # a remote dump classifies the class anyway
    ctype = scn.get('ctype', 'list')
    objs, kinds = [None] * (n + 1), [None] * (n + 1)
    all_ss = all(nd['ss'] for nd in g if nd['kind'] == 'opt')
    fresh = {}
    if scn.get('churn'):
        churn()                                    # short-lived plain classes were remote-pickled and dropped before
    for i, nd in enumerate(g, 1):
        if nd['kind'] == 'opt':
            if scn.get('churn') and nd.get('fs', 'no') == 'no':
                ck = (nd['ss'], nd['ds'])
                if ck not in fresh:
                    fresh[ck] = fresh_opt_class(scn['marker'], nd['ss'], nd['ds'])
                cls = fresh[ck]
            else:
                cls = opt_class(scn['marker'], nd['ss'], nd['ds'], seen, nd.get('fs', 'no'), sub=scn.get('ovar') == 'sub',
                                gvar=scn.get('gvar', 'plain'), slots=scn.get('ovar') == 'slots' and all_ss)
            o = object.__new__(cls)
            o.val, o.w = 'v%d' % i, 'w%d' % i
            objs[i], kinds[i] = o, cls
        elif nd['kind'] == 'plain':
            pc = PLAIN_VARIANTS[scn.get('pvar', 'plain')]
            o = object.__new__(pc)
            o.val, o.w = 'v%d' % i, 'w%d' % i
            if pc is PlainSlots:
                o.sl = 'slot%d' % i
            objs[i], kinds[i] = o, pc
        else:
            ct = ctype if ctype in ('list', 'tuple', 'dict') else ('list', 'tuple', 'dict')[i % 3]
            kinds[i] = {'list': list, 'tuple': tuple, 'dict': dict}[ct]
            if kinds[i] is list:
                objs[i] = ['v%d' % i]
            elif kinds[i] is dict:
                objs[i] = {'val': 'v%d' % i}
    # a tuple on a reference cycle is memoised by pickle only after its elements (the objects inside are met
    # twice): the model's walk memoises at the first visit, so such a container is built as a list
    def reaches(a, b, seen):
        for e in g[a - 1]['ent']:
            if e['to'] == b or (e['to'] not in seen and not seen.add(e['to']) and reaches(e['to'], b, seen)):
                return True
        return False
    for i in range(1, n + 1):
        if kinds[i] is tuple and reaches(i, i, set()):
            kinds[i] = list
            objs[i] = ['v%d' % i]
    busy = set()

    def tup(i):                                   # tuples exist only once their elements do
        if objs[i] is not None:
            return objs[i]
        if i in busy:                             # a cycle made of tuples only cannot exist: demote to a list
            kinds[i] = list
            objs[i] = ['v%d' % i]
            return objs[i]
        busy.add(i)
        items = ['v%d' % i] + [tup(e['to']) for e in g[i - 1]['ent']]
        busy.discard(i)
        if objs[i] is None:
            objs[i] = tuple(items)
        return objs[i]

    for i in range(1, n + 1):
        if objs[i] is None:
            tup(i)
    for i, nd in enumerate(g, 1):
        o = objs[i]
        if kinds[i] is tuple:
            continue
        for e in nd['ent']:
            c = objs[e['to']]
            if kinds[i] is list:
                o.append(c)
            elif kinds[i] is dict:
                o[e['k']] = c
            else:
                setattr(o, e['k'], c)
    return objs[1], kinds


def patch_dict(paths):
    d = {}
    for p in paths:
        cur = d
        for k in p[:-1]:
            cur = cur.setdefault(k, {})
        if p[-1] != '{}':                     # a path ending in "{}": an empty dictionary at that place
            cur[p[-1]] = 'P:' + '/'.join(p)
    return d


def _subdicts(d, prefix=()):
    out = {}
    for k, v in d.items():
        if isinstance(v, dict):
            out[prefix + (k,)] = v
            out.update(_subdicts(v, prefix + (k,)))
    return out


def project(top, scn, kinds, patch_paths=()):
    """The loaded graph as `nodes[i] = {key: token}` (RemotePickleProps.tla, family "graph")."""
    g = scn['g']
    n = len(g)
    pristine = _subdicts(patch_dict(patch_paths))
    label, nodes, order = {}, [None] * (n + 1), []

    def tag_of(o):
        t = None
        if hasattr(type(o), '_kind'):
            t = getattr(o, 'val', None)
        elif isinstance(o, (list, tuple)) and o and isinstance(o[0], str):
            t = o[0]
        elif isinstance(o, dict) and isinstance(o.get('val'), str):
            t = o['val']
        if isinstance(t, str) and t[:1] == 'v' and t[1:].isdigit() and 1 <= int(t[1:]) <= n:
            return int(t[1:])
        return None

    def tok(o):
        if isinstance(o, str):
            return o if o.startswith('P:') else 's:' + o
        if id(o) in label:
            return label[id(o)]
        i = tag_of(o)
        if i is not None:
            if nodes[i] is not None:                 # a second copy of node i: sharing lost
                label[id(o)] = 'dup:%d' % i
                return label[id(o)]
            label[id(o)] = 'n:%d' % i
            nodes[i] = {}
            order.append((i, o))
            return label[id(o)]
        if isinstance(o, dict):
            for p, d in pristine.items():
                if d == o:
                    return 'D:' + '/'.join(p)
            return 'D?:' + repr(o)[:60]
        return '?:' + repr(o)[:60]

    toptok = tok(top)
    while order:
        i, o = order.pop()
        ent = {}
        if hasattr(type(o), '_kind'):
            ent['#'] = type(o)._kind if type(o) is kinds[i] else 'wrongclass:' + type(o).__name__
            if type(o) is PlainSlots and getattr(o, 'sl', None) != 'slot%d' % i:
                ent['#'] = 'slotlost'
            for k, v in attrs_of(o).items():
                ent[k] = tok(v)
        elif isinstance(o, (list, tuple)):
            ent['#'] = 'cont' if type(o) is kinds[i] else 'cont?:' + type(o).__name__
            ent['val'] = tok(o[0])
            keys = [e['k'] for e in g[i - 1]['ent']]
            for j, v in enumerate(o[1:]):
                ent[keys[j] if len(keys) == len(o) - 1 else 'i%d' % j] = tok(v)
        else:
            ent['#'] = 'cont' if type(o) is kinds[i] else 'cont?:' + type(o).__name__
            for k, v in o.items():
                ent[k] = tok(v)
        nodes[i] = ent
    return toptok, [nodes[i] if nodes[i] is not None else {'#': 'unreached'} for i in range(1, n + 1)]


def _outcome(e, truncated=False):
    if isinstance(e, Injected):
        return 'raised:injected'
    if truncated and isinstance(e, (EOFError, pickle.UnpicklingError)):
        return 'raised:injected'
    return 'raised:' + type(e).__name__


class Runner(threading.Thread):
    """A thread that runs the jobs it is given, one after the other (loads on `the same thread`)."""

    def __init__(self):
        super().__init__(daemon=True)
        self.q = queue.Queue()
        self.start()

    def run(self):
        while True:
            job = self.q.get()
            if job is None:
                return
            fn, box, done = job
            try:
                box.append(('ok', fn()))
            except BaseException as e:  # noqa
                box.append(('exc', e))
            done.set()

    def submit(self, fn):
        box, done = [], threading.Event()
        self.q.put((fn, box, done))
        return box, done

    def call(self, fn, timeout=60):
        box, done = self.submit(fn)
        if not done.wait(timeout):
            raise MachineryError('a load did not return within %d s' % timeout)
        return box[0]

    def stop(self):
        self.q.put(None)


def _opcode_offsets(data):
    return [pos for _, _, pos in pickletools.genops(data)][1:] + [len(data)]


def _unframe(data):
    """The same pickle without FRAME opcodes (a truncated frame is rejected before any opcode is executed;
    an unframed stream is executed up to the cut)."""
    out, last = [], 0
    for op, arg, pos in pickletools.genops(data):
        if op.name == 'FRAME':
            out.append(data[last:pos])
            last = pos + 9
    out.append(data[last:])
    return b''.join(out)


def _count_events(rp, data):
    """Number of REDUCE/BUILD events of opt-in objects that happen when loading `data` (probe thread)."""
    def job():
        start = len(LOG)
        try:
            rp.loads(data)
        except BaseException:  # noqa
            pass
        return sum(1 for ev in LOG[start:] if ev[0] == 'ss' or ev == ('new', 'opt'))
    r = Runner()
    try:
        return r.call(job)[1]
    finally:
        r.stop()


def cut_for(rp, data, at):
    """Shortest prefix of the stream (cut at an opcode boundary) during whose load exactly `at`
    REDUCE/BUILD events of opt-in objects happen; None if the stream has fewer events."""
    data = _unframe(data)
    total = _count_events(rp, data)
    if at > total:
        return None
    if at == total:
        return data[:-1]                      # everything happens, the STOP opcode is missing
    offs = _opcode_offsets(data)
    lo, hi = 0, len(offs) - 1                 # smallest index whose prefix yields >= at events
    while lo < hi:
        mid = (lo + hi) // 2
        if _count_events(rp, data[:offs[mid]]) >= at:
            hi = mid
        else:
            lo = mid + 1
    if _count_events(rp, data[:offs[lo]]) != at:
        raise MachineryError('cannot cut the stream after %d events' % at)
    return data[:offs[lo]]


def _one_load(rp, data, L, scn, kinds, nest=None):
    """Executed on the thread that performs the load; returns the obs record of that load."""
    paths = L['patch']
    truncated = False
    noclass = L['fail'] == 'noclass'
    if noclass:                                   # a stream naming a class that cannot be imported
        data = b'cvf_no_such_module_xyz\nNoSuchClass\n.'
    if L['fail'] == 'trunc':
        c = L.get('_cut')
        if c is not None:
            data, truncated = c, True
    _CTL.raise_at = 'v%d' % L['at'] if L['fail'] == 'raise' else None
    seen = [0]
    if nest is not None:
        def hook(ev):
            if ev[0] in ('ss', 'pss') or ev == ('new', 'opt'):
                seen[0] += 1
                if seen[0] == nest[0]:
                    nest[1]()
        _CTL.hook = hook
    start = len(LOG)
    mine_p, pristine = patch_dict(paths), patch_dict(paths)      # the caller's dictionary and what it must still be afterwards

    def pres():
        return 'T' if mine_p == pristine else 'F'
    try:
        try:
            top = rp_loads(rp, scn, data, mine_p if paths else None)
        finally:
            _CTL.raise_at = None
            _CTL.hook = None
            mine = [ev for ev in LOG[start:]] if nest is None else None
    except BaseException as e:  # noqa
        if noclass and isinstance(e, (ImportError, AttributeError)):
            return {'outcome': 'raised:injected', 'top': 'none', 'nodes': [], 'ss': [], 'pres': pres()}
        return {'outcome': _outcome(e, truncated), 'top': 'none', 'nodes': [], 'ss': [], 'pres': pres()}
    if noclass:
        return {'outcome': 'ok', 'top': '?:loaded a stream naming a missing class', 'nodes': [], 'ss': [], 'pres': pres()}
    toptok, nodes = project(top, scn, kinds, paths)
    return {'outcome': 'ok', 'top': toptok, 'nodes': nodes, '_log': mine, 'pres': pres()}


def _ss_counts(log, nodes, n):
    cnt = [0] * n
    for ev in log or ():
        if ev[0] == 'ss' and isinstance(ev[1], str) and ev[1][1:].isdigit() and 1 <= int(ev[1][1:]) <= n:
            cnt[int(ev[1][1:]) - 1] += 1
    return [cnt[i] if nodes[i].get('#') != 'unreached' else 0 for i in range(n)]


def run_graph(scn, nest_at=None):
    """Execute a "graph" scenario on the real code.  Returns obs (and the raw stream for replays)."""
    rp = _rp()
    n = len(scn['g'])
    proto = _proto(scn)
    top, kinds = build_graph(scn)
    obs = {'dump': 'ok', 'gs': [[] for _ in range(n)], 'loads': [], 'fresh': [], 'equal_to_pickle': 'na'}
    start = len(LOG)
    op = scn['op']
    try:
        if op == 'rp':
            data = rp_dumps(rp, scn, top, protocol=proto, remote=scn['remote'])
        elif op == 'pickle':
            data = pickle.dumps(top, protocol=proto)
        elif op == 'mp':
            from multiprocessing.reduction import ForkingPickler
            data = bytes(ForkingPickler.dumps(top, proto))
        elif op == 'deepcopy':
            data = None
            copied = copy.deepcopy(top)
        else:
            raise MachineryError('unknown op ' + op)
    except MachineryError:
        raise
    except BaseException as e:  # noqa
        obs['dump'] = _outcome(e)
        data = None
    for ev in LOG[start:]:
        if ev[0] == 'gs' and isinstance(ev[1], str) and ev[1][1:].isdigit() and 1 <= int(ev[1][1:]) <= n:
            obs['gs'][int(ev[1][1:]) - 1].append(ev[2])
    loads = [dict(L) for L in scn['loads']]
    if obs['dump'] != 'ok':
        if op == 'rp':          # the oracle: does pickle refuse the graph as well?
            try:
                pickle.dumps(top, protocol=proto)
                obs['equal_to_pickle'] = 'F'
            except BaseException:  # noqa
                obs['equal_to_pickle'] = 'T'
        bad = {'outcome': 'nodump', 'top': 'none', 'nodes': [], 'ss': [], 'pres': 'T'}
        obs['loads'] = [bad for _ in loads]
        obs['fresh'] = [bad for _ in loads]
        return obs
    if op != 'rp':
        def std():
            s0 = len(LOG)
            try:
                t = copied if op == 'deepcopy' else pickle.loads(data)
            except BaseException as e:  # noqa
                return {'outcome': _outcome(e), 'top': 'none', 'nodes': [], 'ss': [], 'pres': 'T'}
            toptok, nodes = project(t, scn, kinds)
            return {'outcome': 'ok', 'top': toptok, 'nodes': nodes, 'ss': _ss_counts(LOG[s0:], nodes, n), 'pres': 'T'}
        r = std()
        if op == 'deepcopy':
            r['ss'] = _ss_counts(LOG[start:], r['nodes'], n) if r['outcome'] == 'ok' else []
        obs['loads'] = [r for _ in loads]
        obs['fresh'] = [r for _ in loads]
        return obs
    for L in loads:
        if L['fail'] == 'trunc':
            L['_cut'] = cut_for(rp, data, L['at'])
    threads = {1: Runner(), 2: Runner()}
    try:
        def finish(res):
            kind, r = res
            if kind == 'exc':
                raise MachineryError('harness failure inside a load: %r' % (r,))
            if r['outcome'] == 'ok':
                r['ss'] = _ss_counts(r.pop('_log', None), r['nodes'], n)
            r.pop('_log', None)
            return r

        if scn['par'] and len(loads) >= 2:
            # load 2 runs completely on thread 2 while load 1 (thread 1) is inside its nest_at-th event
            res2 = []
            m = nest_at or 1

            def nested():
                res2.append(threads[2].call(lambda: _one_load(rp, data, loads[1], scn, kinds, nest=(0, None))))
            r1 = threads[1].call(lambda: _one_load(rp, data, loads[0], scn, kinds, nest=(m, nested)))
            if not res2:                         # load 1 failed before its m-th event: run load 2 afterwards
                nested()
            # per-thread logs are interleaved in LOG: count __setstate__ calls by thread instead
            out = [finish(r1), finish(res2[0])]
            for r in out:
                if r['outcome'] == 'ok':
                    r['ss'] = [1 if (scn['g'][i]['kind'] == 'opt' and scn['g'][i]['ss'] and r['nodes'][i].get('sset') == 's:T') else 0
                               for i in range(n)]
            obs['loads'] = out
            rest = loads[2:]
        else:
            rest = loads
        for L in rest:
            obs['loads'].append(finish(threads[L['thr']].call(lambda L=L: _one_load(rp, data, L, scn, kinds))))
    finally:
        for t in threads.values():
            t.stop()
    for L in loads:
        f = Runner()
        try:
            r = f.call(lambda L=L: _one_load(rp, data, L, scn, kinds))
        finally:
            f.stop()
        kind, r = r
        if kind == 'exc':
            raise MachineryError('harness failure inside a fresh load: %r' % (r,))
        if r['outcome'] == 'ok':
            r['ss'] = _ss_counts(r.pop('_log', None), r['nodes'], n)
        r.pop('_log', None)
        if scn['par'] and len(loads) >= 2 and r['outcome'] == 'ok':
            r['ss'] = [1 if (scn['g'][i]['kind'] == 'opt' and scn['g'][i]['ss'] and r['nodes'][i].get('sset') == 's:T') else 0
                       for i in range(n)]
        obs['fresh'].append(r)
    # the oracle named by C13: pickle itself
    # the oracle named by C13: pickle itself; every call without patches and without injected failure must equal it
    plain = [k for k, L in enumerate(loads) if not L['patch'] and L['fail'] == 'none']
    if plain and plain[-1] == len(loads) - 1:
        try:
            t = std_roundtrip(scn, top, proto)[1]
            std = ('ok',) + project(t, scn, kinds)
        except BaseException as e:  # noqa
            std = ('raised',)
        eq = True
        for k in plain:
            mine = obs['loads'][k]
            eq = eq and (std == ('ok', mine['top'], mine['nodes']) if mine['outcome'] == 'ok' else std == ('raised',))
        obs['equal_to_pickle'] = 'T' if eq else 'F'
    obs['_stream'] = data
    return obs


def count_load_events(scn):
    """How many REDUCE/BUILD events of opt-in objects load 1 of the scenario goes through (for nesting thread 2)."""
    rp = _rp()
    top, _ = build_graph(scn)
    try:
        data = rp.dumps(top, protocol=_proto(scn), remote=scn['remote'])
    except BaseException:  # noqa
        return 0
    return _count_events(rp, data)


# ----------------------------------------------------------------------------------------
# cls family: generated class hierarchies
# ----------------------------------------------------------------------------------------
class _Root:
    """End of every generated hierarchy: restores the state, defines nothing pickle-related besides."""

    def __setstate__(self, st):
        self.__dict__.update(st)


_bind(_Root)


def _rebuild(cls, d):
    o = cls.__new__(cls)
    o.__dict__.update(d)
    return o


_CHAIN_CACHE = {}


def _accepts(rest):
    for f in rest:
        if f == 'gsr':
            return True
        if f == 'gskw':
            continue
        if f in ('gs',):
            return False
    return False


def _level(feature, lvl, rest_defined, cell):
    """Namespace of one class of a hierarchy.  rest_defined = the __getstate__ features further up."""
    ns = {}
    has_next = bool(rest_defined)
    nxt_accepts = _accepts(rest_defined)

    def up(self, **kw):
        if has_next or kw:
            return super(cell['cls'], self).__getstate__(**kw)
        return self.__dict__
    if feature == 'gs':
        def __getstate__(self):
            _event(('gs', self.__dict__.get('val'), 'unset'))
            return dict(up(self))
        ns['__getstate__'] = __getstate__
    elif feature == 'gsr':
        def __getstate__(self, remote=False):
            _event(('gs', self.__dict__.get('val'), 'T' if remote is True else 'F'))
            d = dict(up(self, remote=remote) if nxt_accepts else up(self))
            d['via'] = 'R' if remote else 'L'
            return d
        ns['__getstate__'] = __getstate__
    elif feature == 'gskw':
        def __getstate__(self, **kwargs):
            _event(('gs', self.__dict__.get('val'), 'unset' if 'remote' not in kwargs else ('T' if kwargs['remote'] is True else 'F')))
            if has_next:
                return super(cell['cls'], self).__getstate__(**kwargs)       # blind pass-through
            return object.__getstate__(self, **kwargs) if hasattr(object, '__getstate__') else dict(self.__dict__, **({} if not kwargs else 1 / 0))
        ns['__getstate__'] = __getstate__
    elif feature == 'red':
        if lvl % 2:
            def __reduce__(self):
                return (_rebuild, (type(self), dict(self.__dict__)))
            ns['__reduce__'] = __reduce__
        else:
            def __reduce_ex__(self, protocol):
                return (_rebuild, (type(self), dict(self.__dict__)))
            ns['__reduce_ex__'] = __reduce_ex__
    return ns


def make_chain(chain, marker, flavour):
    """chain[0] is the most derived class.  Returns (class, 'ok') or (None, 'raised:<type>')."""
    rp = _rp()
    key = (tuple(chain), marker, flavour)
    if key in _CHAIN_CACHE:
        return _CHAIN_CACHE[key]
    base = (_Root, rp.SupportRemoteGetState) if marker else (_Root,)
    cls = None
    n = len(chain)
    _FRESH[0] += 1
    try:
        for lvl in range(n, 0, -1):
            f = chain[lvl - 1]
            rest = [x for x in chain[lvl:] if x in ('gs', 'gsr', 'gskw')]
            cell = {}
            name = 'Ch%d_%s_%d' % (_FRESH[0], ''.join({'none': 'n', 'gs': 'g', 'gsr': 'r', 'gskw': 'k', 'red': 'x'}[x] for x in chain[lvl - 1:]), lvl)
            c = type(name, (cls,) if cls is not None else base, _level(f, lvl, rest, cell))
            cell['cls'] = c
            cls = _bind(c)
    except Warning as w:
        return None, 'raised:' + type(w).__name__       # not cached: the class statement fails every time
    except BaseException as e:  # noqa
        return None, 'raised:' + type(e).__name__
    _CHAIN_CACHE[key] = (cls, 'ok')
    return cls, 'ok'


def _vars_equal(a, b):
    return type(a) is type(b) and a.__dict__ == b.__dict__


def run_cls(scn):
    rp = _rp()
    proto = _proto(scn)
    chain, marker = scn['chain'], scn['marker']
    # an un-`seen` duck-typed class used for remote=False / standard operations must never have been dumped remotely
    flavour = 'seen' if (marker or scn['seen'] or (scn['op'] == 'rp' and scn['remote'])) else 'fresh'
    cls, created = make_chain(chain, marker, flavour)
    obs = {'created': created, 'outcome': 'skip', 'gslog': [], 'equal_to_pickle': 'na'}
    if cls is None:
        return obs

    def inst():
        x = cls.__new__(cls)
        x.val, x.w = 'v1', 'w1'
        return x
    if scn['seen'] and not marker:
        try:
            rp.dumps(inst())
        except BaseException:  # noqa   (an inconsistent hierarchy raises its Warning here as well)
            pass
    x = inst()
    start = len(LOG)
    op = scn['op']
    res = None
    try:
        if op == 'rp':
            data = rp_dumps(rp, scn, x, protocol=proto, remote=scn['remote'])
            glog = [ev[2] for ev in LOG[start:] if ev[0] == 'gs']
            res = rp_loads(rp, scn, data)
        elif op == 'pickle':
            data = pickle.dumps(x, protocol=proto)
            glog = [ev[2] for ev in LOG[start:] if ev[0] == 'gs']
            res = pickle.loads(data)
        elif op == 'copy':
            res = copy.copy(x)
            glog = [ev[2] for ev in LOG[start:] if ev[0] == 'gs']
        elif op == 'deepcopy':
            res = copy.deepcopy(x)
            glog = [ev[2] for ev in LOG[start:] if ev[0] == 'gs']
        elif op == 'mp':
            from multiprocessing.reduction import ForkingPickler
            data = bytes(ForkingPickler.dumps(x, proto))
            glog = [ev[2] for ev in LOG[start:] if ev[0] == 'gs']
            res = pickle.loads(data)
        else:
            raise MachineryError('unknown op ' + op)
        obs['outcome'] = 'ok'
    except MachineryError:
        raise
    except BaseException as e:  # noqa
        obs['outcome'] = 'raised:' + type(e).__name__
        glog = [ev[2] for ev in LOG[start:] if ev[0] == 'gs']
    obs['gslog'] = glog
    if op == 'rp':
        try:
            std = std_roundtrip(scn, inst(), proto)[1]
        except BaseException:  # noqa
            std = None
        if res is None or std is None:
            obs['equal_to_pickle'] = 'T' if (res is None and std is None) else 'F'
        else:
            obs['equal_to_pickle'] = 'T' if _vars_equal(res, std) else 'F'
    return obs


# ----------------------------------------------------------------------------------------
# leaf family: the standard-library menu
# ----------------------------------------------------------------------------------------
def _menu():
    import abc
    import array
    import collections
    import dataclasses
    import datetime
    import decimal
    import enum
    import fractions
    import functools
    import pathlib
    import re
    import types
    import uuid

    if not hasattr(_ME, 'Colour'):
        class Colour(enum.Enum):
            RED = 1
            BLUE = 2

        class Perm(enum.IntFlag):
            R = 4
            W = 2

        @dataclasses.dataclass
        class DC:
            a: int
            b: list

        @dataclasses.dataclass(frozen=True)
        class FDC:
            a: int
            b: tuple = ()

        @dataclasses.dataclass(slots=True)
        class SDC:
            a: int
            b: str = 'x'

        NT = collections.namedtuple('NT', ['x', 'y'])

        class MyError(Exception):
            def __init__(self, code, msg='m'):
                super().__init__(code, msg)
                self.code = code

        class ABCBase(abc.ABC):
            @abc.abstractmethod
            def f(self):
                pass

        class GNA:
            def __new__(cls, a, b=0):
                o = object.__new__(cls)
                o.a, o.b = a, b
                return o

            def __getnewargs__(self):
                return (self.a, self.b)

            def __eq__(self, o):
                return type(o) is GNA and (self.a, self.b, self.__dict__) == (o.a, o.b, o.__dict__)

        class Slots:
            __slots__ = ('p', 'q')

            def __init__(self, p, q):
                self.p, self.q = p, q

        class Red:
            def __init__(self, v):
                self.v = v

            def __reduce__(self):
                return (Red, (self.v,))

        class GS:
            def __init__(self):
                self.v, self.cache = 1, 'drop'

            def __getstate__(self):
                d = dict(self.__dict__)
                d.pop('cache', None)
                return d

            def __setstate__(self, st):
                self.__dict__.update(st)
                self.cache = 'rebuilt'

        class KWGS(GS):
            def __getstate__(self, **kwargs):
                d = super().__getstate__(**kwargs)
                d['kw'] = sorted(kwargs)
                return d

        class Interned:
            """instances are interned by key in __new__: pickle protocol >= 2 goes through __new__ (and returns the
            interned instance), protocols 0 and 1 reconstruct a detached copy"""
            _pool = {}

            def __new__(cls, key):
                o = cls._pool.get(key)
                if o is None:
                    o = cls._pool[key] = object.__new__(cls)
                    o.key = key
                return o

            def __getnewargs__(self):
                return (self.key,)

        class NewArgsEx:
            """not opt-in: re-created through __getnewargs_ex__ (mode: args only / args and kwargs / kwargs only)"""

            def __new__(cls, *args, **kwargs):
                o = object.__new__(cls)
                o.made_with = (len(args), sorted(kwargs))
                return o

            def __init__(self, mode='args'):
                self.mode = mode

            def __getnewargs_ex__(self):
                return {'args': ((1, 2), {}), 'kwargs': ((1,), {'b': 2}), 'kwonly': ((), {'a': 1, 'b': 2})}[self.mode]

        class LateReg:
            """non-opt-in class whose reducer is registered with copyreg.pickle() at run time"""

            def __init__(self, a):
                self.a, self.how = a, 'orig'

        class Holder:
            def m(self):
                return 1

        def a_function(x):
            return x

        for c in (Colour, Perm, DC, FDC, SDC, NT, MyError, ABCBase, GNA, Slots, Red, GS, KWGS, Holder, Interned, LateReg, NewArgsEx):
            _bind(c)
        # registered AFTER pyworkers.remote_pickle has been imported (run_leaf imports it first)
        import copyreg
        if 'pyworkers.remote_pickle' not in sys.modules:
            raise MachineryError('late copyreg registration before pyworkers.remote_pickle was imported')
        copyreg.pickle(LateReg, _reduce_late)
        copyreg.pickle(types.CodeType, _reduce_code)
        a_function.__module__ = __name__
        a_function.__qualname__ = 'a_function'
        _ME.a_function = a_function
    M = _ME
    h = M.Holder()
    h.z = 3
    return {
        'none': lambda: None, 'true': lambda: True, 'int': lambda: 42, 'bigint': lambda: 2 ** 80, 'float': lambda: 2.5,
        'str': lambda: 'text', 'bytes': lambda: b'by\x00tes',
        'list': lambda: [1, 'a', None], 'tuple': lambda: (1, (2, 3)), 'dict': lambda: {'a': 1, 2: [3]},
        'set': lambda: {1, 2, 3}, 'frozenset': lambda: frozenset({'a', 'b'}), 'bytearray': lambda: bytearray(b'abc'),
        'nested': lambda: {'k': [(1, {2}), [[[]]]]},
        'function': lambda: M.a_function, 'builtin_function': lambda: len, 'class': lambda: M.Holder,
        'exception_class': lambda: KeyError, 'namedtuple_class': lambda: M.NT, 'dataclass_class': lambda: M.DC,
        'enum_class': lambda: M.Colour, 'abc_class': lambda: M.ABCBase,
        'datetime': lambda: datetime.datetime(2022, 3, 4, 5, 6, 7, 8, tzinfo=datetime.timezone.utc),
        'date': lambda: datetime.date(2022, 1, 2), 'timedelta': lambda: datetime.timedelta(days=1, microseconds=5),
        'timezone': lambda: datetime.timezone(datetime.timedelta(hours=2), 'X'),
        'decimal': lambda: decimal.Decimal('1.2300'), 'fraction': lambda: fractions.Fraction(3, 7),
        'enum_member': lambda: M.Colour.BLUE, 'intflag': lambda: M.Perm.R | M.Perm.W,
        'dataclass': lambda: M.DC(1, [2, 3]), 'frozen_dataclass': lambda: M.FDC(1, (2,)), 'slots_dataclass': lambda: M.SDC(5),
        'namedtuple': lambda: M.NT(1, 'y'), 'exception': lambda: ValueError('bad', 3),
        'oserror': lambda: FileNotFoundError(2, 'No such file', 'name'), 'custom_exception': lambda: M.MyError(7),
        'ordereddict': lambda: collections.OrderedDict([('b', 1), ('a', 2)]),
        'defaultdict': lambda: collections.defaultdict(list, {'a': [1]}), 'deque': lambda: collections.deque([1, 2], maxlen=5),
        'counter': lambda: collections.Counter('aab'), 'range': lambda: range(1, 10, 3), 'slice': lambda: slice(1, None, 2),
        'uuid': lambda: uuid.UUID(int=12345), 'path': lambda: pathlib.PurePosixPath('/a/b'),
        'partial': lambda: functools.partial(M.a_function, 1), 'bound_method': lambda: h.m,
        'simplenamespace': lambda: types.SimpleNamespace(a=1, b=[2]), 'getnewargs': lambda: M.GNA(1, 2),
        'slots_class': lambda: M.Slots(1, 'q'), 'reduce_class': lambda: M.Red(9), 'getstate_class': lambda: M.GS(),
        'kwgetstate_class': lambda: M.KWGS(), 'array': lambda: array.array('i', [1, 2, 3]),
        'interned_newargs': lambda: M.Interned('k1'), 'newargs_ex_args': lambda: M.NewArgsEx('args'),
        'newargs_ex_kwargs': lambda: M.NewArgsEx('kwargs'), 'newargs_ex_kwonly': lambda: M.NewArgsEx('kwonly'), 'late_class': lambda: M.LateReg(5),
        'code_type': lambda: M.a_function.__code__,
        're_pattern': lambda: re.compile(r'a+b', re.I), 're_pattern_bytes': lambda: re.compile(br'\d+'),
        'union_type': lambda: int | str, 'complex': lambda: 1 + 2j,
    }


def _make_late(a):
    o = LateReg(a)          # noqa: F821  (bound to this module by _menu)
    o.how = 'reducer'
    return o


def _reduce_late(x):
    return (_make_late, (x.a,))


def _load_code(b):
    import marshal
    return marshal.loads(b)


def _reduce_code(c):
    import marshal
    return (_load_code, (marshal.dumps(c),))


def stream_proto(data):
    """Protocol of a pickle stream: the PROTO opcode's argument, else the highest protocol among its opcodes."""
    best = 0
    for op, arg, pos in pickletools.genops(data):
        if op.name == 'PROTO':
            return arg
        best = max(best, op.proto)
    return best


def menu_kind(x):
    """How pickle.Pickler.save treats the value (cross-check of the `kind` column of Menu in RemotePickleMC.tla)."""
    import copyreg
    import types
    t = type(x)
    if x is None or t in (bool, int, float, str, bytes):
        return 'atomic'
    if t in (list, tuple, dict, set, frozenset, bytearray):
        return 'container'
    if t is type or t in (types.FunctionType, types.BuiltinFunctionType):
        return 'byref'
    if t in copyreg.dispatch_table:
        return 'copyreg'
    if issubclass(t, type):
        return 'meta'
    return 'inst'


def canon(x, memo=None):
    """Structure of a value up to identity of the objects: sharing and cycles become back-references."""
    import types
    if memo is None:
        memo = {}
    if x is None or isinstance(x, (bool, int, float, complex, str, bytes)) and type(x) in (bool, int, float, complex, str, bytes):
        return (type(x).__name__, repr(x))
    if id(x) in memo:
        return ('ref', memo[id(x)])
    if isinstance(x, type) or isinstance(x, (types.FunctionType, types.BuiltinFunctionType)):
        return ('byref', getattr(x, '__module__', None), getattr(x, '__qualname__', None), id(x))
    memo[id(x)] = len(memo)
    t = type(x)
    tn = t.__module__ + '.' + t.__qualname__
    if isinstance(x, types.CodeType):
        return ('code', x.co_name, x.co_code, repr(x.co_consts), x.co_names, x.co_varnames)
    if tn.endswith('.Interned'):
        return ('interned', getattr(x, 'key', None), x is t._pool.get(getattr(x, 'key', None)), sorted(x.__dict__))
    if isinstance(x, types.MethodType):
        return ('method', x.__func__.__qualname__, canon(x.__self__, memo))
    if isinstance(x, dict):
        extra = (canon(x.default_factory, memo),) if hasattr(x, 'default_factory') else ()
        return (tn, [(canon(k, memo), canon(v, memo)) for k, v in x.items()], extra,
                canon(x.__dict__, memo) if hasattr(x, '__dict__') and x.__dict__ else None)
    if isinstance(x, (list, tuple)) or tn in ('collections.deque',):
        extra = (x.maxlen,) if tn == 'collections.deque' else ()
        return (tn, [canon(v, memo) for v in x], extra)
    if isinstance(x, (set, frozenset)):
        return (tn, sorted(repr(canon(v, memo)) for v in x))
    if isinstance(x, bytearray):
        return (tn, bytes(x))
    d = getattr(x, '__dict__', None)
    slots = []
    for c in t.__mro__:
        for s in getattr(c, '__slots__', ()) if isinstance(getattr(c, '__slots__', ()), (tuple, list)) else ():
            if s not in ('__dict__', '__weakref__') and hasattr(x, s):
                slots.append((s, canon(getattr(x, s), memo)))
    r = repr(x) if t.__repr__ is not object.__repr__ and not isinstance(x, BaseException) else None
    args = canon(x.args, memo) if isinstance(x, BaseException) else None
    return ('obj', tn, r, args, canon(d, memo) if d else None, slots)


class _Box:
    pass


_bind(_Box)


def wrap_value(mk, wrap):
    v = mk()
    if wrap == 'bare':
        return v
    if wrap == 'list':
        return [v, [v]]
    if wrap == 'attr':
        b = _Box()
        b.a = v
        b.me = b
        return b
    if wrap == 'shared':
        return {'x': v, 'y': (v, v)}
    if wrap == 'tuple_key':
        try:
            hash(v)
            return {(v, 1): v}
        except TypeError:
            return {('k', 1): v}
    raise MachineryError('unknown wrap ' + wrap)


_MENU = None


def run_leaf(scn):
    global _MENU
    rp = _rp()
    if _MENU is None:
        _MENU = _menu()
    if scn['item'] not in _MENU:
        raise MachineryError('menu item %r of RemotePickleMC.tla has no value factory' % scn['item'])
    proto = _proto(scn)
    g = wrap_value(_MENU[scn['item']], scn['wrap'])
    obs = {'outcome': 'ok', 'equal_to_pickle': 'na', 'real_kind': menu_kind(_MENU[scn['item']]())}
    if scn.get('after', 'none') == 'fail':        # an earlier remote_pickle.loads on this thread raised (truncated stream)
        try:
            rp.loads(rp.dumps([1, 'two', (3,)], protocol=proto)[:-1])
            raise MachineryError('the truncated stream was loaded')
        except MachineryError:
            raise
        except BaseException:  # noqa
            pass
    mp = sp = None
    try:
        data = rp_dumps(rp, scn, g, protocol=proto, remote=scn['remote'])
        mp = stream_proto(data)
        mine = ('ok', canon(rp_loads(rp, scn, data)))
    except BaseException as e:  # noqa
        mine = ('raised', type(e).__name__)
        obs['outcome'] = 'raised:' + type(e).__name__
    try:
        data, back = std_roundtrip(scn, g, proto)
        sp = stream_proto(data)
        std = ('ok', canon(back))
    except BaseException as e:  # noqa
        std = ('raised', type(e).__name__)
    obs['proto_same'] = 'T' if mp == sp else 'F'
    obs['stream_protocols'] = [str(mp), str(sp)]
    obs['std_outcome'] = 'ok' if std[0] == 'ok' else 'raised:' + std[1]
    obs['equal_to_pickle'] = 'T' if (mine[0] == std[0] == 'raised' or mine == std) else 'F'
    return obs


def normalise(scn):
    """Fill in fields added to the scenario records later (replay files written by earlier versions)."""
    if scn['t'] == 'graph':
        scn.setdefault('churn', False)
        for nd in scn['g']:
            nd.setdefault('fs', 'no')
    elif scn['t'] == 'leaf':
        scn.setdefault('after', 'none')
        scn.setdefault('pclass', 'low' if scn.get('proto') in (0, 1) else 'high')
        scn.setdefault('fbsame', scn.get('fb', True))
        scn.setdefault('lowfails', False)
    return scn


def run_scn(scn, nest_at=None):
    t = normalise(scn)['t']
    if t == 'graph':
        return run_graph(scn, nest_at)
    if t not in ('cls', 'leaf'):
        raise MachineryError('unknown scenario family %r' % (t,))
    # on a thread of its own: what an earlier scenario left in a thread-local must not leak into this one
    r = Runner()
    try:
        kind, res = r.call(lambda: run_cls(scn) if t == 'cls' else run_leaf(scn))
    finally:
        r.stop()
    if kind == 'exc':
        raise res if isinstance(res, MachineryError) else MachineryError('harness exception: %r' % (res,))
    return res
