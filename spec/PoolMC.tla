------------------------------- MODULE PoolMC -------------------------------
EXTENDS Pool, SequencesExt
Terminal == pc["pool"] = "Done"
Rec == [scn |-> [n |-> N, retry |-> IF Retry THEN "T" ELSE "F", retres |-> IF RetRes THEN "T" ELSE "F"],
        obs |-> [outcome |-> outcome, ret |-> ret, retnone |-> IF RetRes THEN "F" ELSE "T",
                 alive |-> SetToSeq({w \in W : st[w] = "run"}),
                 dead |-> SetToSeq({w \in W : st[w] # "run"}),
                 refusers |-> SetToSeq(refusedEver),
                 handed |-> handed, answered |-> SetToSeq(answered)]]
Inv_NoInternalError   == Terminal => C07_NoInternalError(Rec)
Inv_ExactlyOnce       == Terminal => C07_ExactlyOnce(Rec)
Inv_Terminates        == Terminal => C07_Terminates(Rec)
Inv_SoundError        == Terminal => C08_SoundError(Rec)
Inv_SurvivorSuffices  == Terminal => C08_SurvivorSuffices(Rec)
Inv_Genuine           == C08_Genuine(Rec)
Inv_MissingExplained  == Terminal => C08_MissingExplained(Rec)
\* the pool sits in connection.wait although nobody will ever write or die
Stuck == pc["pool"] = "wait" /\ Ready = {} /\ \A w \in qopen : st[w] = "run" /\ inbox[w] = <<>>
Inv_NotStuck == ~Stuck
FairSpec == Spec /\ WF_vars(pool) /\ WF_vars(TryEnqueue("pool")) /\ WF_vars(HandleDeath("pool")) /\ WF_vars(env)
Live_Terminates == <>Terminal
\* witnesses (must be violated)
W_NoDeathHandled == closed = {}
W_NoRetry == ~(Terminal /\ outcome = "ok" /\ closed # {})
W_NoPoolError == outcome # "poolerror"
\* path dump
PathDump == Terminal => PrintT(<<"PATH", ToString(h), ToString(cis), outcome, ToString(ret), ToString(cbres), ToString(gen)>>)
\* return_results = FALSE: nothing is accumulated, the callback sees what would have been returned
Inv_CallbackSeesAll == (Terminal /\ outcome = "ok" /\ Retry) => (Len(cbres) = N /\ Range(cbres) = 1..N)
Inv_RetIffRetRes == ret = (IF RetRes THEN cbres ELSE <<>>)
\* per-worker callable: every drawn input was generated for the worker that asked for it, exactly once
Inv_GenOnce == \A x \in 1..N : (gen[x] # 0) = (CallSrc /\ x < nxt)
TermDump == Terminal => PrintT(<<"TERM", ToString(Rec)>>)
\* constants that cfg files cannot express
NoPairs == {}
Ref_w1_all == {<<1, x>> : x \in 1..N}
Ref_all == {<<w, x>> : w \in W, x \in 1..N}
Ref_w1_x1 == {<<1, 1>>}
=============================================================================
