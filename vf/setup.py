"""./check setup: parse every TLA+ module with SANY; nothing is fetched or built elsewhere."""
import glob
import os

from . import tlc
from .common import SPEC


def main():
    bad = 0
    for p in sorted(glob.glob(os.path.join(SPEC, '*.tla'))):
        m = os.path.basename(p)[:-4]
        ok, out = tlc.sany(m)
        print('%-22s %s' % (m, 'ok' if ok else 'PARSE ERROR'))
        if not ok:
            print(out[-1500:])
            bad += 1
    return 2 if bad else 0
