------------------------------ MODULE RegistryMC ------------------------------
EXTENDS Registry
H_true == {TRUE}
H_both == {TRUE, FALSE}
T_one == {1}
T_two == {1, 2}
Ops_all == {"create", "die", "restart", "ac", "auto"}
Ops_noauto == {"create", "die", "restart", "ac"}
\* replay: only histories that end with an observation
PathDumpObs == (Terminal /\ Len(h) > 0 /\ h[Len(h)][1] \in {"ac", "auto", "autoexc"}) =>
                  PrintT(<<"PATH", ToString(h), ToString([k \in 1..Len(calls) |-> calls[k].y]), Len(reg)>>)
=============================================================================
