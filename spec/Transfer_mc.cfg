SPECIFICATION Spec
CONSTANTS
  DrainInWait = TRUE
  Kinds_ = {"thread", "process", "remote"}
  Sizes_ = {1, 3}
INVARIANT Inv_Equal
INVARIANT AllowedDump
PROPERTY Live_WaitReturns
CHECK_DEADLOCK FALSE
