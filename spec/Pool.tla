------------------------------- MODULE Pool -------------------------------
(* Pool.run of pyworkers/pool.py, as written: first_enqueue, try_enqueue (with its      *)
(* `continue` on a failing enqueue to a live worker), handle_death (mutually recursive  *)
(* with try_enqueue), handle_new_result (pop(0) on the per-worker pending list), the    *)
(* event loop over connection.wait incl. EOF => artificial end message, final `ok`.     *)
(* Environment: workers with an inbox, a results pipe, a life cycle                     *)
(*   run --(poison input / bad worker: end marker written)--> dying --> dead            *)
(*   run --(external kill: nothing written)--> dead                                     *)
(* and an optional user enqueue function refusing some (worker, input) pairs.           *)
(*                                                                                      *)
(* Call-ins (the only points where the pool observes the environment): `call` (the      *)
(* enqueue / enqueue_fn call), `alive` (is_alive after a failed enqueue), `wait`        *)
(* (connection.wait).  With Reduced = TRUE environment steps are only taken at call-ins *)
(* (and, at `call`/`alive`, only by the worker concerned, in canonical worker order) -  *)
(* that is the replay configuration; Reduced = FALSE is the model-checked one.  The     *)
(* reduction is validated by comparing terminal (scn, obs) sets (./check selftest).     *)
EXTENDS Naturals, Sequences, FiniteSets, TLC, PoolProps

CONSTANTS W,          \* set of worker ids (small naturals)
          N,          \* inputs are 1..N ; Target(x) = x
          Extra,      \* worker_extra_pending_inputs
          Retry,      \* Pool(retry=...)
          Poison,     \* inputs that kill every worker that runs them (target raises)
          Bad,        \* workers that die (worker-specific failure, end marker written) on whatever input they run ...
          BadAfter,   \* ... once they have answered BadAfter inputs (0 = on their first input)
          MaxKills,   \* external kills (SIGKILL: bare EOF, no end marker)
          Refuse,     \* set of <<w, x>> the user enqueue_fn refuses
          MaxDyRaise, \* how often an enqueue may fail on a dying-but-alive worker
          OfferOnce,  \* TRUE: current code - handle_death offers retried inputs to each idle worker at most
                      \* once; FALSE: before the fix (same idle worker, same refused input, forever = "livelock")
          IgnoreLate, \* TRUE: current code - a result arriving from a worker whose death was already
                      \* handled is ignored; FALSE: the pool before the fix (pop(0) on an empty list)
          RetRes,     \* Pool.run(return_results=...): FALSE = results reach the caller only through worker_callback
          CallSrc,    \* TRUE: a second input source is a per-worker callable source(worker); gen[x] = the worker it was
                      \* evaluated for when input x was drawn (a retried input keeps the tuple it was drawn with)
          Reduced, DetOrder, Hist

Min(S) == CHOOSE x \in S : \A y \in S : x <= y

(* --algorithm Pool {
variables
  st = [w \in W |-> "run"], inbox = [w \in W |-> <<>>], out = [w \in W |-> <<>>],
  qopen = W, kills = 0, dyraise = 0,
  pending = 0, ppw = [w \in W |-> <<>>], retries = <<>>, closed = {}, depleted = FALSE,
  nxt = 1, ret = <<>>, outcome = "running", ready = {}, lastHas = TRUE, round = 0, todo = {},
  lastRef = <<0, 0>>,                                  \* last refused <<worker, input>> (livelock detection)
  handed = [x \in 1..N |-> <<>>], answered = {}, refusedEver = {},
  nproc = [w \in W |-> 0],                             \* inputs answered by each worker (only counted for Bad workers)
  cbres = <<>>,                                        \* results passed to worker_callback(worker, 'finished', result)
  gen = [x \in 1..N |-> 0],                            \* per-worker callable: the worker input x was generated for
  enqT = 0,                                            \* worker of the enqueue call in progress (read by env)
  ci = 0, lastEnvW = 0, h = <<>>, cis = <<>>;          \* replay bookkeeping (only if Hist)

define {
  Idle  == {iw \in W : ppw[iw] = <<>>} \ closed
  Ready == {rw \in qopen : out[rw] # <<>> \/ st[rw] # "run"}
  Pick(S) == IF DetOrder THEN {Min(S)} ELSE S
  PoolAt(l) == pc["pool"] = l
}

macro CallIn(kind, w, x) {
  lastEnvW := 0;
  if (Hist) { ci := ci + 1; cis := Append(cis, <<kind, w, x>>) }
}
macro Unused(inp, fromR) {
  if (Retry) { if (fromR) { retries := <<inp>> \o retries } else { retries := Append(retries, inp) } }
}

procedure TryEnqueue(tw)
  variables has = FALSE, fromR = FALSE, inp = 0;
{
te0:  \* next_inputs
      if (retries # <<>>) { has := TRUE; fromR := TRUE; inp := Head(retries); retries := Tail(retries) }
      else if (depleted) { has := FALSE }
      else if (nxt > N) { depleted := TRUE; has := FALSE }
      else { has := TRUE; fromR := FALSE; inp := nxt; nxt := nxt + 1;
             if (CallSrc) { gen[inp] := tw } };
te1:  enqT := tw;
      if (~has) { lastHas := FALSE; return }
      else if (tw \in closed) { Unused(inp, fromR); lastHas := TRUE; return };
tcall:\* the enqueue_fn / worker.enqueue call
      CallIn("call", tw, inp);
      if (<<tw, inp>> \in Refuse) {
         refusedEver := refusedEver \cup {tw}; lastRef := <<tw, inp>>;
         Unused(inp, fromR); lastHas := TRUE; return
      } else {
         handed[inp] := Append(handed[inp], tw);
         if (st[tw] = "run") {
            inbox[tw] := Append(inbox[tw], inp); pending := pending + 1; ppw[tw] := Append(ppw[tw], inp);
            lastRef := <<0, 0>>; lastHas := TRUE; return
         } else if (st[tw] = "dying") {
            either { \* buffered in the args pipe of a child that will never read it
               pending := pending + 1; ppw[tw] := Append(ppw[tw], inp); lastRef := <<0, 0>>; lastHas := TRUE; return }
            or { await dyraise < MaxDyRaise; dyraise := dyraise + 1 }   \* BrokenPipe: raises, falls to `alive`
         }
      };
talive:\* except: sleep(0.1); worker.is_alive()
      CallIn("alive", tw, inp);
      if (st[tw] = "dead") {
         call HandleDeath(tw);
te2:     Unused(inp, fromR); lastHas := TRUE; return
      } else { goto tcall };          \* `continue`: the same input is offered again
}

procedure HandleDeath(dw)
  variables offered = {};
{
hd0: if (Retry) { retries := retries \o ppw[dw] };
     pending := pending - Len(ppw[dw]); ppw[dw] := <<>>; closed := closed \cup {dw};
hd1: while (retries # <<>> /\ (Idle \ offered) # {} /\ outcome = "running") {
        with (i \in Pick(Idle \ offered)) {
           if (~OfferOnce /\ DetOrder /\ lastRef = <<i, Head(retries)>>) { outcome := "livelock" }   \* same pick, same refusal, forever
           else { if (OfferOnce) { offered := offered \cup {i} }; call TryEnqueue(i) }
        }
     };
hd2: return;
}

process (pool = "pool")
  variables cur = 0, m = <<>>;
{
p0:  while (round <= Extra /\ lastHas /\ outcome = "running") {               \* first_enqueue
        todo := W;
p1:     while (todo # {} /\ lastHas /\ outcome = "running") {
           with (x \in Pick(todo)) { cur := x; todo := todo \ {x} };
           if (cur \notin closed) { call TryEnqueue(cur) }
        };
        round := round + 1;
     };
loop: while (pending > 0 /\ (W \ closed) # {} /\ outcome = "running") {
wait:   await Ready # {};                                 \* mp.connection.wait(all queues)
        CallIn("wait", 0, 0);
        ready := Ready;
hdl:    while (ready # {} /\ outcome = "running") {
           with (x \in Pick(ready)) { cur := x; ready := ready \ {x} };
           if (cur \in qopen) {
              if (out[cur] # <<>>) { m := Head(out[cur]); out[cur] := Tail(out[cur]) }
              else {                                       \* EOFError: queue forgotten, artificial closing message
                 qopen := qopen \ {cur};
                 if (cur \notin closed) { m := <<"end">> } else { m := <<"skip">> } }
           } else { m := <<"skip">> };
disp:      if (m[1] = "end") {
              if (cur \notin closed) { call HandleDeath(cur) }
           } else if (m[1] = "res" /\ ~(IgnoreLate /\ cur \in closed)) {
              if (ppw[cur] = <<>>) { outcome := "internal_error"; goto fin }      \* pop(0) from []
              else {
                 pending := pending - 1; ppw[cur] := Tail(ppw[cur]); cbres := Append(cbres, m[2]);
                 if (RetRes) { ret := Append(ret, m[2]) };
                 answered := answered \cup {<<cur, m[2]>>};
                 if (cur \notin closed) { call TryEnqueue(cur) }
              }
           }
        }
     };
done: if (outcome = "running") {
        if (depleted /\ pending = 0 /\ retries = <<>>) { outcome := "ok" } else { outcome := "poolerror" } };
fin:  skip;
}

process (env = "env")
{
e0: while (TRUE) {
      either { \* worker ew runs its next input
         with (ew \in {x \in W : st[x] = "run" /\ inbox[x] # <<>>}) {
            await ~Reduced \/ ((PoolAt("wait") \/ ((PoolAt("tcall") \/ PoolAt("talive")) /\ enqT = ew)) /\ ew >= lastEnvW);
            if (Head(inbox[ew]) \in Poison \/ (ew \in Bad /\ nproc[ew] >= BadAfter)) {
               out[ew] := Append(out[ew], <<"end">>); st[ew] := "dying"; inbox[ew] := <<>> }
            else { out[ew] := Append(out[ew], <<"res", Head(inbox[ew])>>); inbox[ew] := Tail(inbox[ew]);
                   if (ew \in Bad) { nproc[ew] := nproc[ew] + 1 } };
            lastEnvW := ew;
            if (Hist) { h := Append(h, <<ci, "step", ew>>) }
         }
      } or { \* a dying worker's process/thread is gone
         with (ew \in {x \in W : st[x] = "dying"}) {
            await ~Reduced \/ ((PoolAt("wait") \/ ((PoolAt("tcall") \/ PoolAt("talive")) /\ enqT = ew)) /\ ew >= lastEnvW);
            st[ew] := "dead"; lastEnvW := ew;
            if (Hist) { h := Append(h, <<ci, "exit", ew>>) }
         }
      } or { \* external kill: no end marker, pending inputs lost
         await kills < MaxKills;
         with (ew \in {x \in W : st[x] = "run"}) {
            await ~Reduced \/ ((PoolAt("wait") \/ ((PoolAt("tcall") \/ PoolAt("talive")) /\ enqT = ew)) /\ ew >= lastEnvW);
            st[ew] := "dead"; inbox[ew] := <<>>; kills := kills + 1; lastEnvW := ew;
            if (Hist) { h := Append(h, <<ci, "kill", ew>>) }
         }
      }
    }
}
} *)
\* BEGIN TRANSLATION
CONSTANT defaultInitValue
VARIABLES pc, st, inbox, out, qopen, kills, dyraise, pending, ppw, retries, 
          closed, depleted, nxt, ret, outcome, ready, lastHas, round, todo, 
          lastRef, handed, answered, refusedEver, nproc, cbres, gen, enqT, ci, 
          lastEnvW, h, cis, stack

(* define statement *)
Idle  == {iw \in W : ppw[iw] = <<>>} \ closed
Ready == {rw \in qopen : out[rw] # <<>> \/ st[rw] # "run"}
Pick(S) == IF DetOrder THEN {Min(S)} ELSE S
PoolAt(l) == pc["pool"] = l

VARIABLES tw, has, fromR, inp, dw, offered, cur, m

vars == << pc, st, inbox, out, qopen, kills, dyraise, pending, ppw, retries, 
           closed, depleted, nxt, ret, outcome, ready, lastHas, round, todo, 
           lastRef, handed, answered, refusedEver, nproc, cbres, gen, enqT, 
           ci, lastEnvW, h, cis, stack, tw, has, fromR, inp, dw, offered, cur, 
           m >>

ProcSet == {"pool"} \cup {"env"}

Init == (* Global variables *)
        /\ st = [w \in W |-> "run"]
        /\ inbox = [w \in W |-> <<>>]
        /\ out = [w \in W |-> <<>>]
        /\ qopen = W
        /\ kills = 0
        /\ dyraise = 0
        /\ pending = 0
        /\ ppw = [w \in W |-> <<>>]
        /\ retries = <<>>
        /\ closed = {}
        /\ depleted = FALSE
        /\ nxt = 1
        /\ ret = <<>>
        /\ outcome = "running"
        /\ ready = {}
        /\ lastHas = TRUE
        /\ round = 0
        /\ todo = {}
        /\ lastRef = <<0, 0>>
        /\ handed = [x \in 1..N |-> <<>>]
        /\ answered = {}
        /\ refusedEver = {}
        /\ nproc = [w \in W |-> 0]
        /\ cbres = <<>>
        /\ gen = [x \in 1..N |-> 0]
        /\ enqT = 0
        /\ ci = 0
        /\ lastEnvW = 0
        /\ h = <<>>
        /\ cis = <<>>
        (* Procedure TryEnqueue *)
        /\ tw = [ self \in ProcSet |-> defaultInitValue]
        /\ has = [ self \in ProcSet |-> FALSE]
        /\ fromR = [ self \in ProcSet |-> FALSE]
        /\ inp = [ self \in ProcSet |-> 0]
        (* Procedure HandleDeath *)
        /\ dw = [ self \in ProcSet |-> defaultInitValue]
        /\ offered = [ self \in ProcSet |-> {}]
        (* Process pool *)
        /\ cur = 0
        /\ m = <<>>
        /\ stack = [self \in ProcSet |-> << >>]
        /\ pc = [self \in ProcSet |-> CASE self = "pool" -> "p0"
                                        [] self = "env" -> "e0"]

te0(self) == /\ pc[self] = "te0"
             /\ IF retries # <<>>
                   THEN /\ has' = [has EXCEPT ![self] = TRUE]
                        /\ fromR' = [fromR EXCEPT ![self] = TRUE]
                        /\ inp' = [inp EXCEPT ![self] = Head(retries)]
                        /\ retries' = Tail(retries)
                        /\ UNCHANGED << depleted, nxt, gen >>
                   ELSE /\ IF depleted
                              THEN /\ has' = [has EXCEPT ![self] = FALSE]
                                   /\ UNCHANGED << depleted, nxt, gen, fromR, 
                                                   inp >>
                              ELSE /\ IF nxt > N
                                         THEN /\ depleted' = TRUE
                                              /\ has' = [has EXCEPT ![self] = FALSE]
                                              /\ UNCHANGED << nxt, gen, fromR, 
                                                              inp >>
                                         ELSE /\ has' = [has EXCEPT ![self] = TRUE]
                                              /\ fromR' = [fromR EXCEPT ![self] = FALSE]
                                              /\ inp' = [inp EXCEPT ![self] = nxt]
                                              /\ nxt' = nxt + 1
                                              /\ IF CallSrc
                                                    THEN /\ gen' = [gen EXCEPT ![inp'[self]] = tw[self]]
                                                    ELSE /\ TRUE
                                                         /\ gen' = gen
                                              /\ UNCHANGED depleted
                        /\ UNCHANGED retries
             /\ pc' = [pc EXCEPT ![self] = "te1"]
             /\ UNCHANGED << st, inbox, out, qopen, kills, dyraise, pending, 
                             ppw, closed, ret, outcome, ready, lastHas, round, 
                             todo, lastRef, handed, answered, refusedEver, 
                             nproc, cbres, enqT, ci, lastEnvW, h, cis, stack, 
                             tw, dw, offered, cur, m >>

te1(self) == /\ pc[self] = "te1"
             /\ enqT' = tw[self]
             /\ IF ~has[self]
                   THEN /\ lastHas' = FALSE
                        /\ pc' = [pc EXCEPT ![self] = Head(stack[self]).pc]
                        /\ has' = [has EXCEPT ![self] = Head(stack[self]).has]
                        /\ fromR' = [fromR EXCEPT ![self] = Head(stack[self]).fromR]
                        /\ inp' = [inp EXCEPT ![self] = Head(stack[self]).inp]
                        /\ tw' = [tw EXCEPT ![self] = Head(stack[self]).tw]
                        /\ stack' = [stack EXCEPT ![self] = Tail(stack[self])]
                        /\ UNCHANGED retries
                   ELSE /\ IF tw[self] \in closed
                              THEN /\ IF Retry
                                         THEN /\ IF fromR[self]
                                                    THEN /\ retries' = <<inp[self]>> \o retries
                                                    ELSE /\ retries' = Append(retries, inp[self])
                                         ELSE /\ TRUE
                                              /\ UNCHANGED retries
                                   /\ lastHas' = TRUE
                                   /\ pc' = [pc EXCEPT ![self] = Head(stack[self]).pc]
                                   /\ has' = [has EXCEPT ![self] = Head(stack[self]).has]
                                   /\ fromR' = [fromR EXCEPT ![self] = Head(stack[self]).fromR]
                                   /\ inp' = [inp EXCEPT ![self] = Head(stack[self]).inp]
                                   /\ tw' = [tw EXCEPT ![self] = Head(stack[self]).tw]
                                   /\ stack' = [stack EXCEPT ![self] = Tail(stack[self])]
                              ELSE /\ pc' = [pc EXCEPT ![self] = "tcall"]
                                   /\ UNCHANGED << retries, lastHas, stack, tw, 
                                                   has, fromR, inp >>
             /\ UNCHANGED << st, inbox, out, qopen, kills, dyraise, pending, 
                             ppw, closed, depleted, nxt, ret, outcome, ready, 
                             round, todo, lastRef, handed, answered, 
                             refusedEver, nproc, cbres, gen, ci, lastEnvW, h, 
                             cis, dw, offered, cur, m >>

tcall(self) == /\ pc[self] = "tcall"
               /\ lastEnvW' = 0
               /\ IF Hist
                     THEN /\ ci' = ci + 1
                          /\ cis' = Append(cis, <<"call", tw[self], inp[self]>>)
                     ELSE /\ TRUE
                          /\ UNCHANGED << ci, cis >>
               /\ IF <<tw[self], inp[self]>> \in Refuse
                     THEN /\ refusedEver' = (refusedEver \cup {tw[self]})
                          /\ lastRef' = <<tw[self], inp[self]>>
                          /\ IF Retry
                                THEN /\ IF fromR[self]
                                           THEN /\ retries' = <<inp[self]>> \o retries
                                           ELSE /\ retries' = Append(retries, inp[self])
                                ELSE /\ TRUE
                                     /\ UNCHANGED retries
                          /\ lastHas' = TRUE
                          /\ pc' = [pc EXCEPT ![self] = Head(stack[self]).pc]
                          /\ has' = [has EXCEPT ![self] = Head(stack[self]).has]
                          /\ fromR' = [fromR EXCEPT ![self] = Head(stack[self]).fromR]
                          /\ inp' = [inp EXCEPT ![self] = Head(stack[self]).inp]
                          /\ tw' = [tw EXCEPT ![self] = Head(stack[self]).tw]
                          /\ stack' = [stack EXCEPT ![self] = Tail(stack[self])]
                          /\ UNCHANGED << inbox, dyraise, pending, ppw, handed >>
                     ELSE /\ handed' = [handed EXCEPT ![inp[self]] = Append(handed[inp[self]], tw[self])]
                          /\ IF st[tw[self]] = "run"
                                THEN /\ inbox' = [inbox EXCEPT ![tw[self]] = Append(inbox[tw[self]], inp[self])]
                                     /\ pending' = pending + 1
                                     /\ ppw' = [ppw EXCEPT ![tw[self]] = Append(ppw[tw[self]], inp[self])]
                                     /\ lastRef' = <<0, 0>>
                                     /\ lastHas' = TRUE
                                     /\ pc' = [pc EXCEPT ![self] = Head(stack[self]).pc]
                                     /\ has' = [has EXCEPT ![self] = Head(stack[self]).has]
                                     /\ fromR' = [fromR EXCEPT ![self] = Head(stack[self]).fromR]
                                     /\ inp' = [inp EXCEPT ![self] = Head(stack[self]).inp]
                                     /\ tw' = [tw EXCEPT ![self] = Head(stack[self]).tw]
                                     /\ stack' = [stack EXCEPT ![self] = Tail(stack[self])]
                                     /\ UNCHANGED dyraise
                                ELSE /\ IF st[tw[self]] = "dying"
                                           THEN /\ \/ /\ pending' = pending + 1
                                                      /\ ppw' = [ppw EXCEPT ![tw[self]] = Append(ppw[tw[self]], inp[self])]
                                                      /\ lastRef' = <<0, 0>>
                                                      /\ lastHas' = TRUE
                                                      /\ pc' = [pc EXCEPT ![self] = Head(stack[self]).pc]
                                                      /\ has' = [has EXCEPT ![self] = Head(stack[self]).has]
                                                      /\ fromR' = [fromR EXCEPT ![self] = Head(stack[self]).fromR]
                                                      /\ inp' = [inp EXCEPT ![self] = Head(stack[self]).inp]
                                                      /\ tw' = [tw EXCEPT ![self] = Head(stack[self]).tw]
                                                      /\ stack' = [stack EXCEPT ![self] = Tail(stack[self])]
                                                      /\ UNCHANGED dyraise
                                                   \/ /\ dyraise < MaxDyRaise
                                                      /\ dyraise' = dyraise + 1
                                                      /\ pc' = [pc EXCEPT ![self] = "talive"]
                                                      /\ UNCHANGED <<pending, ppw, lastHas, lastRef, stack, tw, has, fromR, inp>>
                                           ELSE /\ pc' = [pc EXCEPT ![self] = "talive"]
                                                /\ UNCHANGED << dyraise, 
                                                                pending, ppw, 
                                                                lastHas, 
                                                                lastRef, stack, 
                                                                tw, has, fromR, 
                                                                inp >>
                                     /\ inbox' = inbox
                          /\ UNCHANGED << retries, refusedEver >>
               /\ UNCHANGED << st, out, qopen, kills, closed, depleted, nxt, 
                               ret, outcome, ready, round, todo, answered, 
                               nproc, cbres, gen, enqT, h, dw, offered, cur, m >>

talive(self) == /\ pc[self] = "talive"
                /\ lastEnvW' = 0
                /\ IF Hist
                      THEN /\ ci' = ci + 1
                           /\ cis' = Append(cis, <<"alive", tw[self], inp[self]>>)
                      ELSE /\ TRUE
                           /\ UNCHANGED << ci, cis >>
                /\ IF st[tw[self]] = "dead"
                      THEN /\ /\ dw' = [dw EXCEPT ![self] = tw[self]]
                              /\ stack' = [stack EXCEPT ![self] = << [ procedure |->  "HandleDeath",
                                                                       pc        |->  "te2",
                                                                       offered   |->  offered[self],
                                                                       dw        |->  dw[self] ] >>
                                                                   \o stack[self]]
                           /\ offered' = [offered EXCEPT ![self] = {}]
                           /\ pc' = [pc EXCEPT ![self] = "hd0"]
                      ELSE /\ pc' = [pc EXCEPT ![self] = "tcall"]
                           /\ UNCHANGED << stack, dw, offered >>
                /\ UNCHANGED << st, inbox, out, qopen, kills, dyraise, pending, 
                                ppw, retries, closed, depleted, nxt, ret, 
                                outcome, ready, lastHas, round, todo, lastRef, 
                                handed, answered, refusedEver, nproc, cbres, 
                                gen, enqT, h, tw, has, fromR, inp, cur, m >>

te2(self) == /\ pc[self] = "te2"
             /\ IF Retry
                   THEN /\ IF fromR[self]
                              THEN /\ retries' = <<inp[self]>> \o retries
                              ELSE /\ retries' = Append(retries, inp[self])
                   ELSE /\ TRUE
                        /\ UNCHANGED retries
             /\ lastHas' = TRUE
             /\ pc' = [pc EXCEPT ![self] = Head(stack[self]).pc]
             /\ has' = [has EXCEPT ![self] = Head(stack[self]).has]
             /\ fromR' = [fromR EXCEPT ![self] = Head(stack[self]).fromR]
             /\ inp' = [inp EXCEPT ![self] = Head(stack[self]).inp]
             /\ tw' = [tw EXCEPT ![self] = Head(stack[self]).tw]
             /\ stack' = [stack EXCEPT ![self] = Tail(stack[self])]
             /\ UNCHANGED << st, inbox, out, qopen, kills, dyraise, pending, 
                             ppw, closed, depleted, nxt, ret, outcome, ready, 
                             round, todo, lastRef, handed, answered, 
                             refusedEver, nproc, cbres, gen, enqT, ci, 
                             lastEnvW, h, cis, dw, offered, cur, m >>

TryEnqueue(self) == te0(self) \/ te1(self) \/ tcall(self) \/ talive(self)
                       \/ te2(self)

hd0(self) == /\ pc[self] = "hd0"
             /\ IF Retry
                   THEN /\ retries' = retries \o ppw[dw[self]]
                   ELSE /\ TRUE
                        /\ UNCHANGED retries
             /\ pending' = pending - Len(ppw[dw[self]])
             /\ ppw' = [ppw EXCEPT ![dw[self]] = <<>>]
             /\ closed' = (closed \cup {dw[self]})
             /\ pc' = [pc EXCEPT ![self] = "hd1"]
             /\ UNCHANGED << st, inbox, out, qopen, kills, dyraise, depleted, 
                             nxt, ret, outcome, ready, lastHas, round, todo, 
                             lastRef, handed, answered, refusedEver, nproc, 
                             cbres, gen, enqT, ci, lastEnvW, h, cis, stack, tw, 
                             has, fromR, inp, dw, offered, cur, m >>

hd1(self) == /\ pc[self] = "hd1"
             /\ IF retries # <<>> /\ (Idle \ offered[self]) # {} /\ outcome = "running"
                   THEN /\ \E i \in Pick(Idle \ offered[self]):
                             IF ~OfferOnce /\ DetOrder /\ lastRef = <<i, Head(retries)>>
                                THEN /\ outcome' = "livelock"
                                     /\ pc' = [pc EXCEPT ![self] = "hd1"]
                                     /\ UNCHANGED << stack, tw, has, fromR, 
                                                     inp, offered >>
                                ELSE /\ IF OfferOnce
                                           THEN /\ offered' = [offered EXCEPT ![self] = offered[self] \cup {i}]
                                           ELSE /\ TRUE
                                                /\ UNCHANGED offered
                                     /\ /\ stack' = [stack EXCEPT ![self] = << [ procedure |->  "TryEnqueue",
                                                                                 pc        |->  "hd1",
                                                                                 has       |->  has[self],
                                                                                 fromR     |->  fromR[self],
                                                                                 inp       |->  inp[self],
                                                                                 tw        |->  tw[self] ] >>
                                                                             \o stack[self]]
                                        /\ tw' = [tw EXCEPT ![self] = i]
                                     /\ has' = [has EXCEPT ![self] = FALSE]
                                     /\ fromR' = [fromR EXCEPT ![self] = FALSE]
                                     /\ inp' = [inp EXCEPT ![self] = 0]
                                     /\ pc' = [pc EXCEPT ![self] = "te0"]
                                     /\ UNCHANGED outcome
                   ELSE /\ pc' = [pc EXCEPT ![self] = "hd2"]
                        /\ UNCHANGED << outcome, stack, tw, has, fromR, inp, 
                                        offered >>
             /\ UNCHANGED << st, inbox, out, qopen, kills, dyraise, pending, 
                             ppw, retries, closed, depleted, nxt, ret, ready, 
                             lastHas, round, todo, lastRef, handed, answered, 
                             refusedEver, nproc, cbres, gen, enqT, ci, 
                             lastEnvW, h, cis, dw, cur, m >>

hd2(self) == /\ pc[self] = "hd2"
             /\ pc' = [pc EXCEPT ![self] = Head(stack[self]).pc]
             /\ offered' = [offered EXCEPT ![self] = Head(stack[self]).offered]
             /\ dw' = [dw EXCEPT ![self] = Head(stack[self]).dw]
             /\ stack' = [stack EXCEPT ![self] = Tail(stack[self])]
             /\ UNCHANGED << st, inbox, out, qopen, kills, dyraise, pending, 
                             ppw, retries, closed, depleted, nxt, ret, outcome, 
                             ready, lastHas, round, todo, lastRef, handed, 
                             answered, refusedEver, nproc, cbres, gen, enqT, 
                             ci, lastEnvW, h, cis, tw, has, fromR, inp, cur, m >>

HandleDeath(self) == hd0(self) \/ hd1(self) \/ hd2(self)

p0 == /\ pc["pool"] = "p0"
      /\ IF round <= Extra /\ lastHas /\ outcome = "running"
            THEN /\ todo' = W
                 /\ pc' = [pc EXCEPT !["pool"] = "p1"]
            ELSE /\ pc' = [pc EXCEPT !["pool"] = "loop"]
                 /\ todo' = todo
      /\ UNCHANGED << st, inbox, out, qopen, kills, dyraise, pending, ppw, 
                      retries, closed, depleted, nxt, ret, outcome, ready, 
                      lastHas, round, lastRef, handed, answered, refusedEver, 
                      nproc, cbres, gen, enqT, ci, lastEnvW, h, cis, stack, tw, 
                      has, fromR, inp, dw, offered, cur, m >>

p1 == /\ pc["pool"] = "p1"
      /\ IF todo # {} /\ lastHas /\ outcome = "running"
            THEN /\ \E x \in Pick(todo):
                      /\ cur' = x
                      /\ todo' = todo \ {x}
                 /\ IF cur' \notin closed
                       THEN /\ /\ stack' = [stack EXCEPT !["pool"] = << [ procedure |->  "TryEnqueue",
                                                                          pc        |->  "p1",
                                                                          has       |->  has["pool"],
                                                                          fromR     |->  fromR["pool"],
                                                                          inp       |->  inp["pool"],
                                                                          tw        |->  tw["pool"] ] >>
                                                                      \o stack["pool"]]
                               /\ tw' = [tw EXCEPT !["pool"] = cur']
                            /\ has' = [has EXCEPT !["pool"] = FALSE]
                            /\ fromR' = [fromR EXCEPT !["pool"] = FALSE]
                            /\ inp' = [inp EXCEPT !["pool"] = 0]
                            /\ pc' = [pc EXCEPT !["pool"] = "te0"]
                       ELSE /\ pc' = [pc EXCEPT !["pool"] = "p1"]
                            /\ UNCHANGED << stack, tw, has, fromR, inp >>
                 /\ round' = round
            ELSE /\ round' = round + 1
                 /\ pc' = [pc EXCEPT !["pool"] = "p0"]
                 /\ UNCHANGED << todo, stack, tw, has, fromR, inp, cur >>
      /\ UNCHANGED << st, inbox, out, qopen, kills, dyraise, pending, ppw, 
                      retries, closed, depleted, nxt, ret, outcome, ready, 
                      lastHas, lastRef, handed, answered, refusedEver, nproc, 
                      cbres, gen, enqT, ci, lastEnvW, h, cis, dw, offered, m >>

loop == /\ pc["pool"] = "loop"
        /\ IF pending > 0 /\ (W \ closed) # {} /\ outcome = "running"
              THEN /\ pc' = [pc EXCEPT !["pool"] = "wait"]
              ELSE /\ pc' = [pc EXCEPT !["pool"] = "done"]
        /\ UNCHANGED << st, inbox, out, qopen, kills, dyraise, pending, ppw, 
                        retries, closed, depleted, nxt, ret, outcome, ready, 
                        lastHas, round, todo, lastRef, handed, answered, 
                        refusedEver, nproc, cbres, gen, enqT, ci, lastEnvW, h, 
                        cis, stack, tw, has, fromR, inp, dw, offered, cur, m >>

wait == /\ pc["pool"] = "wait"
        /\ Ready # {}
        /\ lastEnvW' = 0
        /\ IF Hist
              THEN /\ ci' = ci + 1
                   /\ cis' = Append(cis, <<"wait", 0, 0>>)
              ELSE /\ TRUE
                   /\ UNCHANGED << ci, cis >>
        /\ ready' = Ready
        /\ pc' = [pc EXCEPT !["pool"] = "hdl"]
        /\ UNCHANGED << st, inbox, out, qopen, kills, dyraise, pending, ppw, 
                        retries, closed, depleted, nxt, ret, outcome, lastHas, 
                        round, todo, lastRef, handed, answered, refusedEver, 
                        nproc, cbres, gen, enqT, h, stack, tw, has, fromR, inp, 
                        dw, offered, cur, m >>

hdl == /\ pc["pool"] = "hdl"
       /\ IF ready # {} /\ outcome = "running"
             THEN /\ \E x \in Pick(ready):
                       /\ cur' = x
                       /\ ready' = ready \ {x}
                  /\ IF cur' \in qopen
                        THEN /\ IF out[cur'] # <<>>
                                   THEN /\ m' = Head(out[cur'])
                                        /\ out' = [out EXCEPT ![cur'] = Tail(out[cur'])]
                                        /\ qopen' = qopen
                                   ELSE /\ qopen' = qopen \ {cur'}
                                        /\ IF cur' \notin closed
                                              THEN /\ m' = <<"end">>
                                              ELSE /\ m' = <<"skip">>
                                        /\ out' = out
                        ELSE /\ m' = <<"skip">>
                             /\ UNCHANGED << out, qopen >>
                  /\ pc' = [pc EXCEPT !["pool"] = "disp"]
             ELSE /\ pc' = [pc EXCEPT !["pool"] = "loop"]
                  /\ UNCHANGED << out, qopen, ready, cur, m >>
       /\ UNCHANGED << st, inbox, kills, dyraise, pending, ppw, retries, 
                       closed, depleted, nxt, ret, outcome, lastHas, round, 
                       todo, lastRef, handed, answered, refusedEver, nproc, 
                       cbres, gen, enqT, ci, lastEnvW, h, cis, stack, tw, has, 
                       fromR, inp, dw, offered >>

disp == /\ pc["pool"] = "disp"
        /\ IF m[1] = "end"
              THEN /\ IF cur \notin closed
                         THEN /\ /\ dw' = [dw EXCEPT !["pool"] = cur]
                                 /\ stack' = [stack EXCEPT !["pool"] = << [ procedure |->  "HandleDeath",
                                                                            pc        |->  "hdl",
                                                                            offered   |->  offered["pool"],
                                                                            dw        |->  dw["pool"] ] >>
                                                                        \o stack["pool"]]
                              /\ offered' = [offered EXCEPT !["pool"] = {}]
                              /\ pc' = [pc EXCEPT !["pool"] = "hd0"]
                         ELSE /\ pc' = [pc EXCEPT !["pool"] = "hdl"]
                              /\ UNCHANGED << stack, dw, offered >>
                   /\ UNCHANGED << pending, ppw, ret, outcome, answered, cbres, 
                                   tw, has, fromR, inp >>
              ELSE /\ IF m[1] = "res" /\ ~(IgnoreLate /\ cur \in closed)
                         THEN /\ IF ppw[cur] = <<>>
                                    THEN /\ outcome' = "internal_error"
                                         /\ pc' = [pc EXCEPT !["pool"] = "fin"]
                                         /\ UNCHANGED << pending, ppw, ret, 
                                                         answered, cbres, 
                                                         stack, tw, has, fromR, 
                                                         inp >>
                                    ELSE /\ pending' = pending - 1
                                         /\ ppw' = [ppw EXCEPT ![cur] = Tail(ppw[cur])]
                                         /\ cbres' = Append(cbres, m[2])
                                         /\ IF RetRes
                                               THEN /\ ret' = Append(ret, m[2])
                                               ELSE /\ TRUE
                                                    /\ ret' = ret
                                         /\ answered' = (answered \cup {<<cur, m[2]>>})
                                         /\ IF cur \notin closed
                                               THEN /\ /\ stack' = [stack EXCEPT !["pool"] = << [ procedure |->  "TryEnqueue",
                                                                                                  pc        |->  "hdl",
                                                                                                  has       |->  has["pool"],
                                                                                                  fromR     |->  fromR["pool"],
                                                                                                  inp       |->  inp["pool"],
                                                                                                  tw        |->  tw["pool"] ] >>
                                                                                              \o stack["pool"]]
                                                       /\ tw' = [tw EXCEPT !["pool"] = cur]
                                                    /\ has' = [has EXCEPT !["pool"] = FALSE]
                                                    /\ fromR' = [fromR EXCEPT !["pool"] = FALSE]
                                                    /\ inp' = [inp EXCEPT !["pool"] = 0]
                                                    /\ pc' = [pc EXCEPT !["pool"] = "te0"]
                                               ELSE /\ pc' = [pc EXCEPT !["pool"] = "hdl"]
                                                    /\ UNCHANGED << stack, tw, 
                                                                    has, fromR, 
                                                                    inp >>
                                         /\ UNCHANGED outcome
                         ELSE /\ pc' = [pc EXCEPT !["pool"] = "hdl"]
                              /\ UNCHANGED << pending, ppw, ret, outcome, 
                                              answered, cbres, stack, tw, has, 
                                              fromR, inp >>
                   /\ UNCHANGED << dw, offered >>
        /\ UNCHANGED << st, inbox, out, qopen, kills, dyraise, retries, closed, 
                        depleted, nxt, ready, lastHas, round, todo, lastRef, 
                        handed, refusedEver, nproc, gen, enqT, ci, lastEnvW, h, 
                        cis, cur, m >>

done == /\ pc["pool"] = "done"
        /\ IF outcome = "running"
              THEN /\ IF depleted /\ pending = 0 /\ retries = <<>>
                         THEN /\ outcome' = "ok"
                         ELSE /\ outcome' = "poolerror"
              ELSE /\ TRUE
                   /\ UNCHANGED outcome
        /\ pc' = [pc EXCEPT !["pool"] = "fin"]
        /\ UNCHANGED << st, inbox, out, qopen, kills, dyraise, pending, ppw, 
                        retries, closed, depleted, nxt, ret, ready, lastHas, 
                        round, todo, lastRef, handed, answered, refusedEver, 
                        nproc, cbres, gen, enqT, ci, lastEnvW, h, cis, stack, 
                        tw, has, fromR, inp, dw, offered, cur, m >>

fin == /\ pc["pool"] = "fin"
       /\ TRUE
       /\ pc' = [pc EXCEPT !["pool"] = "Done"]
       /\ UNCHANGED << st, inbox, out, qopen, kills, dyraise, pending, ppw, 
                       retries, closed, depleted, nxt, ret, outcome, ready, 
                       lastHas, round, todo, lastRef, handed, answered, 
                       refusedEver, nproc, cbres, gen, enqT, ci, lastEnvW, h, 
                       cis, stack, tw, has, fromR, inp, dw, offered, cur, m >>

pool == p0 \/ p1 \/ loop \/ wait \/ hdl \/ disp \/ done \/ fin

e0 == /\ pc["env"] = "e0"
      /\ \/ /\ \E ew \in {x \in W : st[x] = "run" /\ inbox[x] # <<>>}:
                 /\ ~Reduced \/ ((PoolAt("wait") \/ ((PoolAt("tcall") \/ PoolAt("talive")) /\ enqT = ew)) /\ ew >= lastEnvW)
                 /\ IF Head(inbox[ew]) \in Poison \/ (ew \in Bad /\ nproc[ew] >= BadAfter)
                       THEN /\ out' = [out EXCEPT ![ew] = Append(out[ew], <<"end">>)]
                            /\ st' = [st EXCEPT ![ew] = "dying"]
                            /\ inbox' = [inbox EXCEPT ![ew] = <<>>]
                            /\ nproc' = nproc
                       ELSE /\ out' = [out EXCEPT ![ew] = Append(out[ew], <<"res", Head(inbox[ew])>>)]
                            /\ inbox' = [inbox EXCEPT ![ew] = Tail(inbox[ew])]
                            /\ IF ew \in Bad
                                  THEN /\ nproc' = [nproc EXCEPT ![ew] = nproc[ew] + 1]
                                  ELSE /\ TRUE
                                       /\ nproc' = nproc
                            /\ st' = st
                 /\ lastEnvW' = ew
                 /\ IF Hist
                       THEN /\ h' = Append(h, <<ci, "step", ew>>)
                       ELSE /\ TRUE
                            /\ h' = h
            /\ kills' = kills
         \/ /\ \E ew \in {x \in W : st[x] = "dying"}:
                 /\ ~Reduced \/ ((PoolAt("wait") \/ ((PoolAt("tcall") \/ PoolAt("talive")) /\ enqT = ew)) /\ ew >= lastEnvW)
                 /\ st' = [st EXCEPT ![ew] = "dead"]
                 /\ lastEnvW' = ew
                 /\ IF Hist
                       THEN /\ h' = Append(h, <<ci, "exit", ew>>)
                       ELSE /\ TRUE
                            /\ h' = h
            /\ UNCHANGED <<inbox, out, kills, nproc>>
         \/ /\ kills < MaxKills
            /\ \E ew \in {x \in W : st[x] = "run"}:
                 /\ ~Reduced \/ ((PoolAt("wait") \/ ((PoolAt("tcall") \/ PoolAt("talive")) /\ enqT = ew)) /\ ew >= lastEnvW)
                 /\ st' = [st EXCEPT ![ew] = "dead"]
                 /\ inbox' = [inbox EXCEPT ![ew] = <<>>]
                 /\ kills' = kills + 1
                 /\ lastEnvW' = ew
                 /\ IF Hist
                       THEN /\ h' = Append(h, <<ci, "kill", ew>>)
                       ELSE /\ TRUE
                            /\ h' = h
            /\ UNCHANGED <<out, nproc>>
      /\ pc' = [pc EXCEPT !["env"] = "e0"]
      /\ UNCHANGED << qopen, dyraise, pending, ppw, retries, closed, depleted, 
                      nxt, ret, outcome, ready, lastHas, round, todo, lastRef, 
                      handed, answered, refusedEver, cbres, gen, enqT, ci, cis, 
                      stack, tw, has, fromR, inp, dw, offered, cur, m >>

env == e0

Next == pool \/ env
           \/ (\E self \in ProcSet: TryEnqueue(self) \/ HandleDeath(self))

Spec == Init /\ [][Next]_vars

\* END TRANSLATION 
=============================================================================
