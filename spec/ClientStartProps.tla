-------------------------- MODULE ClientStartProps --------------------------
(* C20 as operators over an observable record r = [scn |-> ..., obs |-> ...].            *)
(*   scn.kind    "remote" | "process"                                                     *)
(*   scn.step    what happens during start-up: "healthy", "refuse_data", "unknown_ctx",   *)
(*               a handshake step at which the server ends the connection ("hdr" "self"   *)
(*               "addr0/M/L" "conn" "info0/M/L"), "kill_<step>" for a server killed at    *)
(*               that step, "exit_early" for a child process that exits before reporting  *)
(*               "rinfo0/M/L": REAL server, runtime-info frame cut on the control          *)
(*               connection after the backend has been spawned                            *)
(*   scn.how     "fin" | "rst" | "na"                                                     *)
(*   obs.outcome "returned" | "raised" | "hung" (constructor still blocked at the bound)  *)
(*   obs.id_ok   "T" iff the returned worker's id names a child that was really started   *)
(*               (pid seen in the OS process table / reported by the peer), else "F";     *)
(*               "na" when the constructor did not return                                 *)
(*   obs.registry "ok" | "broken": after the constructor raised, Worker.active_children()    *)
(*               raises or lists a worker that carries the caller's own pid                *)
(*   obs.leftover number of live processes left behind by the construction                *)
EXTENDS Naturals

C20_Returns(r)    == r.obs.outcome \in {"returned", "raised"}
C20_Usable(r)     == r.obs.outcome = "returned" => r.obs.id_ok = "T"
C20_NoLeftover(r) == r.obs.outcome = "raised" => r.obs.leftover = 0
\* a failed construction registers nothing: Worker.active_children() still works and lists no half-built worker
C20_NotRegistered(r) == r.obs.outcome = "raised" => r.obs.registry = "ok"
=============================================================================
