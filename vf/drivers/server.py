"""Server side of the remote protocol: C11 (the server survives every client failure),
C18 (remote contexts), C12 (stopping the server).

spec/Server.tla (+ ServerCtx.tla, ServerStop.tla) are model-checked by TLC; the fault
placements / request histories TLC enumerates are replayed against a REAL server process
by scripted raw-socket clients and real RemoteWorker / RemoteContext calls
(vf/drivers/_server_replay.py); every real execution is projected to a (scn, obs) record,
judged by TLC with the operators of spec/ServerProps.tla (ServerJudge.tla) and compared
with the model's outcome for the same scenario (conformance -> DRIFT)."""
import collections
import json
import os
import random
import threading

from .. import tlc
from ..common import MachineryError, Timer, seed, sub_scratch
from ..report import Evidence, Violation, finish
from . import _server_lib as L
from . import _server_replay as R

CHECKS = {
    'C11': dict(
        engine='Server',
        technique='TLA+ spec Server.tla (single-threaded accept loop with its exception policy, server side of the worker handshake S3a-S3g, context branches, clients vanishing with FIN/RST at every protocol step) model-checked with TLC; TLC-enumerated fault placements replayed against a real server process by raw-socket clients that replay a tapped well-formed byte stream cut at the offsets of each step; TLC judges every real execution (ServerJudge) and the real outcome is compared with the model outcome',
        text='Exhaustive TLC model checking of the accept loop and handshake (fixed algorithm: invariants ServerAlive/OthersUndisturbed/Serves over all interleavings of 2 faulty clients x 62 fault plans and a late healthy client, liveness Serves for 1; the algorithm as written is rejected, as is each proposed fix left out). Every single-fault plan TLC enumerates is executed on a real server (first/middle/last byte offset of each step, FIN and RST, with/without the control connect; every byte offset in the thorough tier), plus sampled multi-fault sequences; after each fault: OS liveness of the server, a fresh RemoteWorker round trip (5 s hang bound) and the outcome of two healthy workers that were running.',
        note='Trusted: TLC, the kernel TCP stack on loopback (FIN = close(), RST = SO_LINGER 0), the tap (recorded bytes re-targeted to the replay server port, self-validated). The model treats client writes as atomic up to the next read (TCP buffering) and payloads as opaque. Sequences of >= 2 faults are sampled, not exhaustive.',
        design_ref='6/C11'),
    'C18': dict(
        engine='ServerCtx',
        technique='TLA+ spec ServerCtx.tla (the server\'s context table and helper processes, one action per critical section: unpickle-before-duplicate-test, pop/wait/terminate on delete, lookup/forward on worker requests) checked by TLC as a refinement of the dictionary model of the property; request histories enumerated by TLC (simulation of length-8 histories over 3 ids) replayed on a real server with real RemoteContext / PersistentRemoteWorker(context=i) calls; TLC judges every real history (ServerJudge) and the real replies are compared with the model\'s',
        text='Exhaustive TLC model checking of every request history (create / duplicate / delete / delete unknown / start worker / start in unknown context / call / wait) of length <= 7 over 3 ids (<= 8 with 3 workers in the thorough tier) against the dictionary model (refinement invariants after every request) plus the record operators C18_* on every history of length <= 5; the two mutant algorithms (delete without pop, no duplicate test) are rejected. 40 (600) TLC-simulated histories of length 8, selected for coverage, are played against a real server with hang-bounded real API calls; after each delete the workers of that registration are checked dead by API and OS; at the end server liveness and a fresh round trip.',
        note='Trusted: TLC; the worker handshake inside a context is abstracted to one step here (C11 covers it). A worker request naming an unknown context is sent by a raw-socket client (the real constructor hangs there - C20). Histories of length 8 are sampled, not exhaustive, on the real server.',
        design_ref='6/C18'),
    'C12': dict(
        engine='ServerStop',
        technique='TLA+ spec ServerStop.tla (parent-side terminate(timeout=5, force) with its join time-out, the SIGTERM handler that kills `children` but not the contexts, the `finally` loop with its 1 s waits and forced kills, the context helper\'s own clean-up racing with the server\'s 1 s join, a worker start-up in progress) model-checked with TLC over every configuration of 0-4 children in 11 states x {terminate, SIGTERM, terminate with a short time-out whose SIGTERM lands inside the finally loop, graceful-only terminate(force=False)} x 4 start-up phases; TLC-enumerated configurations are built on a real server and stopped; /proc is scanned for former descendants (found by an environment tag, so re-parented orphans count) and the parent-side accessors are read with hang bounds; TLC judges every real execution (ServerJudge) and the real outcome is compared with the model outcome',
        text='Exhaustive TLC model checking (invariants Reaped / ParentsKnow / ErrorKind / NoParentBlock at every terminal state over all 75k configurations and all interleavings of time-outs, kills and clean-ups; liveness Reaped for <= 3 children) of the proposed algorithm; the algorithm as written is rejected (a context helper killed in the middle of its clean-up). 26 (300) configurations chosen from TLC\'s enumeration for balanced coverage are built on real servers, stopped with terminate() or SIGTERM (also while a scripted client is in the middle of the handshake), and observed: server gone, no former descendant left 3 s later, wait()/is_alive()/has_error/error of every parent-side worker with hang bounds.',
        note='Trusted: TLC, /proc, the time abstraction of the model (a cooperative process that got the termination request exits before a 1 s time-out fires; the parent\'s 5 s join expires after 4 waited-out processes). The parent side of a start-up that races with the stop belongs to C20: the racing worker is a scripted client and only its reaping is judged. Real configurations are a selected sample of the enumerated space.',
        design_ref='6/C12'),
}

MODEL_REQ = {'pworker': 'worker'}


# ----------------------------------------------------------------------------- TLC helpers

def _cfg(nf, fixes, plans='Plans_all', late='FALSE', inv=(), prop=None, step='FALSE', leakpop='FALSE', con='FALSE', cutnone='FALSE'):
    s = ('SPECIFICATION Spec\nCONSTANTS\n  NF = %d\n  Fixes <- %s\n  PlanSet <- %s\n  LateAfter = %s\n  StepSend = %s\n  LeakPop = %s\n  CloseOnNone = %s\n  CutIsNone = %s\n'
         % (nf, fixes, plans, late, step, leakpop, con, cutnone))
    for i in inv:
        s += 'INVARIANT %s\n' % i
    if prop:
        s += 'PROPERTY %s\n' % prop
    return s + 'CHECK_DEADLOCK FALSE\n'


def _allowed(r):
    """PATH lines -> {faults-json: set((srv_alive, fresh, others_err))}"""
    out = collections.defaultdict(set)
    for f, a, g, e in r.tags.get('PATH', []):
        key = json.dumps([[x['req'], x['step'], x['mode']] for x in json.loads(f)])
        out[key].add((a, g, e))
    return out


def _key(faults):
    return json.dumps([[MODEL_REQ.get(f['req'], f['req']), f['step'], f['mode']] for f in faults])


class Jobs:
    """Run several TLC jobs concurrently (threads; each job is its own JVM)."""

    def __init__(self):
        self.res, self.err, self.th = {}, {}, []

    def start(self, name, fn):
        def go():
            try:
                self.res[name] = fn()
            except BaseException as e:  # noqa
                self.err[name] = e
        t = threading.Thread(target=go, daemon=True)
        t.start()
        self.th.append(t)

    def wait(self):
        for t in self.th:
            t.join()
        self.th = []
        for n, e in self.err.items():
            raise e if isinstance(e, MachineryError) else MachineryError('%s: %r' % (n, e))
        return self.res


# ----------------------------------------------------------------------------- confirmation of unlisted failures

def confirm(ev, prop, violations, make_task, scenario_fn, sig_fn, logdir, tries=2):
    """A failure whose signature is not a listed finding is re-executed alone (the pool and the model
    checker are idle by then) before it is reported: a hang bound that was exceeded only because 12
    replays and TLC were competing for the CPU does not come back; a defect does.  The re-run is judged
    by TLC like any other execution; the violation is kept iff one of `tries` re-runs is rejected again."""
    from ..report import split
    _, new = split(violations)
    if not new:
        return violations
    keep = [v for v in violations if v not in new]
    unconfirmed = []
    seen_sig = {}
    for v in new:
        if v.signature in seen_sig:                 # same signature: same verdict, do not re-run every instance
            if seen_sig[v.signature]:
                keep.append(v)
            continue
        if len(seen_sig) >= 3:                      # a tree that fails in many different ways: no need to confirm them all
            seen_sig[v.signature] = True
            keep.append(v)
            continue
        again = False
        for t in range(tries):
            rec = R.pool_map(scenario_fn, [make_task(v.replay, 'confirm%d' % t)], logdir, nproc=1, task_timeout=300)[0]
            fails, _ = tlc.judge('ServerJudge', [{k: rec[k] for k in ('id', 'prop', 'scn', 'obs')}], name='confirm')
            if fails:
                again = True
                break
        seen_sig[v.signature] = again
        if again:
            keep.append(v)
        else:
            unconfirmed.append({'signature': v.signature, 'what': v.what})
            print('NOTE: property=%s a rejected execution did not reproduce in %d quiet re-runs (timing under load), not reported: %s' % (prop, tries, v.signature))
    ev.cov['unconfirmed_rejections'] = unconfirmed
    return keep


def _played(recs, ev):
    """Scenarios that were not started because the replay budget was used up come back as None."""
    done = [x for x in recs if x is not None]
    skipped = len(recs) - len(done)
    if recs and not done:
        raise MachineryError('no replay scenario completed within the replay budget')
    if skipped:
        print('NOTE: property=%s the replay budget was used up: %d of %d scenarios were not played (every step of the played ones ran into its time bound?)'
              % (ev.prop, skipped, len(recs)))
    ev.cov['scenarios_not_played_budget'] = skipped
    return done, skipped


# ----------------------------------------------------------------------------- recording

def record(logdir):
    """Tap one well-formed client per request type (twice, against two servers: the difference
    locates the port bytes, so that the stream can be re-targeted to any replay server)."""
    L.setup_env()
    a, b = R.Srv(logdir, 'rec'), R.Srv(logdir, 'rec')
    try:
        res = L.bounded(lambda: (L.record_streams(a.addr), L.record_streams(b.addr)), 90)
        if res[0] != 'ok':
            raise MachineryError('recording the well-formed client streams failed: %r' % (res,))
        ra, rb = res[1]
        pos = L.retarget_positions(ra, a.addr[1], rb, b.addr[1])
    finally:
        a.destroy()
        b.destroy()
    return ({t: [f.hex() for f in ra[t]] for t in ra}, {t: [list(p) for p in pos[t]] for t in pos},
            {t: [len(f) for f in ra[t]] for t in ra})


# ----------------------------------------------------------------------------- C11

def _offsets(step, hdr, pay, every):
    """Byte offsets (of header+payload) that realise a model step."""
    tot = hdr + pay
    if step == 'connect':
        return [0]
    if step == 'hdr':
        return [hdr]
    if step == 'pay':
        return [tot]
    lo, hi = (1, hdr - 1) if step == 'midhdr' else (hdr + 1, tot - 1)
    if every:
        return list(range(lo, hi + 1, every))
    return sorted(set([lo, (lo + hi) // 2, hi]))


def c11_singles(plans, lens, tier):
    """Expand TLC's single-fault plans to concrete replay faults."""
    out = []
    for req, step, mode in plans:
        # the server cannot tell a persistent worker from a one-shot one before the backend runs
        types = ['worker', 'pworker'] if req == 'worker' and (step in ('connect', 'pay', 'addr', 'ctrl', 'run') or tier == 'thorough') else [req]
        for t in types:
            hdr, pay = lens[t]
            if step in ('connect', 'midhdr', 'hdr', 'midpay', 'pay'):
                every = None
                if tier == 'thorough':
                    every = 1 if t in ('worker', 'ctxcreate', 'ctxdelete') else 8
                for cut in _offsets(step, hdr, pay, every):
                    out.append([dict(req=t, step=step, cut=cut, mode=mode, split=False)])
            else:
                out.append([dict(req=t, step=step, cut=hdr + pay, mode=mode, split=False)])
                if step == 'reply':
                    continue
                if step == 'ctrl' or (step == 'run' and tier == 'thorough'):
                    out.append([dict(req=t, step=step, cut=hdr + pay, mode=mode, split=True)])
    return out


def c11_concrete(plan, lens, rng):
    req, step, mode = plan
    t = rng.choice(['worker', 'pworker']) if req == 'worker' else req
    hdr, pay = lens[t]
    if step in ('connect', 'midhdr', 'hdr', 'midpay', 'pay'):
        cut = rng.choice(_offsets(step, hdr, pay, None))
    else:
        cut = hdr + pay
    return dict(req=t, step=step, cut=cut, mode=mode, split=False)


def c11_con(faults, i):
    """Which scenarios run against a server configured with close_on_none=True (run_server / --close_on_none): the
    header-phase cuts of the request types that are redundant there (the server does not know the type yet), and every
    fifth other scenario."""
    f = faults[0]
    if f['step'] in ('connect', 'midhdr') and len(faults) == 1:
        return f['req'] in ('pworker', 'ctxworker', 'ctxdelete', 'uctxworker')
    return i % 5 == 0


def c11_signature(rec, clauses):
    f = rec['faults_full'][-1] if rec['faults_full'] else {'req': '-', 'step': '-', 'mode': '-'}
    o = rec['obs']
    if o['srv_alive'] != 'T':
        effect = 'crashed'
    elif any(x['got'] != x['want'] for x in o['fresh']):
        effect = 'blocked'
    else:
        effect = 'disturbed'
    return 'C11|req=%s|step=%s%s|mode=%s|effect=%s%s' % (f['req'], f['step'], '+split' if f.get('split') else '', f['mode'], effect,
                                                         ('|close_on_none' if rec.get('con') else '') + ('|cli' if rec.get('cli') else ''))


def c11_summary(rec):
    o = rec['obs']
    return (o['srv_alive'], 'v:1' if all(x['got'] == x['want'] for x in o['fresh']) else 'hang',
            'F' if all(x['got'] == x['want'] and x['err'] == 'F' for x in o['others']) else 'T')


def run_c11(tier, replay):
    T = Timer()
    ev = Evidence('C11', tier)
    rng = random.Random(seed())
    logdir = sub_scratch('c11-logs')
    violations, drift = [], []

    if replay is not None:
        streams, pos, lens = record(logdir)
        rec = R.scenario_c11(dict(id='replay', faults=replay['replay']['faults'], con=replay['replay'].get('con', False), cli=replay['replay'].get('cli', False), streams=streams, pos=pos, logdir=logdir))
        fails, _ = tlc.judge('ServerJudge', [rec], name='replay')
        print('replayed:', json.dumps({'scn': rec['scn'], 'obs': rec['obs'], 'notes': rec['notes']}))
        for _, clause in fails:
            print('VIOLATION property=C11 replay=(given) clause=%s signature=%s' % (clause, c11_signature(rec, [clause])))
        return 1 if fails else 0

    # 0. the design, concurrently with everything else: exhaustive model checking of the proposed
    #    algorithm, liveness, witnesses, rejection of the algorithm as written / of each fix left out
    invs = ('TypeOK', 'Inv_ServerAlive', 'Inv_Others', 'Inv_Serves', 'Inv_HealthyNotAborted')
    wit = ['W_NoBlockedAccept', 'W_NoDeadBackend', 'W_NoCtrlSendFail', 'W_NoPeerNameFail', 'W_NoOrphanHelper',
           'W_NoUnknownCtx', 'W_NoHelperFault', 'W_LateNeverDone']
    fixsets = ('Fix_none', 'Fix_no_hdr', 'Fix_no_ctx', 'Fix_no_peer', 'Fix_no_accept', 'Fix_no_info')
    design = Jobs()
    design.start('mc2', lambda: tlc.run('ServerMC', 'Server_mc.cfg', workers=8, name='mc2', timeout=1500))
    design.start('live', lambda: tlc.run('ServerMC', 'Server_live.cfg', workers=2, name='live', timeout=900))
    if tier == 'thorough':
        design.start('mc3', lambda: tlc.run('ServerMC', cfg_text=_cfg(3, 'Fix_all', 'Plans_core', inv=invs), workers=8, name='mc3', timeout=3000))
    design.start('unreduced', lambda: {fx: tlc.run('ServerMC', cfg_text=_cfg(1, fx, late='TRUE', inv=('PathDump',), step='TRUE'), workers=2,
                                                   name='unred' + fx, timeout=900) for fx in ('Fix_all', 'Fix_none')})
    design.start('wits', lambda: {w: tlc.run('ServerMC', cfg_text=_cfg(2, 'Fix_all', inv=(w,)), workers=1, name=w,
                                             must_complete=False, timeout=600) for w in wit})
    design.start('rejs', lambda: {fx: tlc.run('ServerMC', cfg_text=_cfg(1, fx, inv=invs, prop='Live_Serves'), workers=1,
                                              name='rej' + fx, must_complete=False, timeout=600) for fx in fixsets})
    # the server configuration close_on_none=True: same properties; the mutant that takes a cut header for a None request is rejected
    design.start('con', lambda: tlc.run('ServerMC', cfg_text=_cfg(1, 'Fix_all', inv=invs, prop='Live_Serves', con='TRUE'), workers=1,
                                        name='con', timeout=600))
    design.start('cutnone', lambda: tlc.run('ServerMC', cfg_text=_cfg(1, 'Fix_all', inv=invs, prop='Live_Serves', con='TRUE', cutnone='TRUE'), workers=1,
                                            name='rejcutnone', must_complete=False, timeout=600))
    design.start('leakpop', lambda: tlc.run('ServerMC', cfg_text=_cfg(1, 'Fix_all', inv=invs, prop='Live_Serves', leakpop='TRUE'), workers=1,
                                            name='rejleakpop', must_complete=False, timeout=600))

    # 1. TLC enumerates the fault placements (path dumps = relation Allowed: scenario -> outcomes),
    #    for the algorithm as proposed (all fixes) and as written (no fix); the tap records the streams
    jobs, jobs2 = Jobs(), Jobs()
    def rec_or_none():
        try:
            return record(logdir)
        except MachineryError as e:          # well-formed clients could not even be recorded on a fresh server
            return e
    jobs.start('rec', rec_or_none)
    for nf in (1, 2):
        for fx in ('Fix_all', 'Fix_none'):
            (jobs if nf == 1 else jobs2).start('paths%d%s' % (nf, fx), lambda nf=nf, fx=fx: tlc.run(
                'ServerMC', cfg_text=_cfg(nf, fx, late='TRUE', inv=('PathDump',)), workers=6, name='paths%d%s' % (nf, fx), timeout=900))
    res = jobs.wait()
    if isinstance(res['rec'], MachineryError):
        # is it the server (it does not serve well-behaved clients at all - for the judge to say) or the machinery?
        probe = R.pool_map('scenario_c11', [dict(id='nofault', faults=[], con=False, streams={}, pos={}, logdir=logdir)], logdir, nproc=1)[0]
        pf, _ = tlc.judge('ServerJudge', [{k: probe[k] for k in ('id', 'prop', 'scn', 'obs')}], name='probe11')
        if not pf:
            raise res['rec']
        what = ('%s violated without any faulty client: a fresh server does not serve well-behaved clients: round trips %s, server alive=%s, healthy workers %s (recording said: %s)'
                % (','.join(sorted(c for _, c in pf)), [y['got'] for y in probe['obs']['fresh']], probe['obs']['srv_alive'],
                   [(y['kind'], y['got']) for y in probe['obs']['others']], str(res['rec'])[:200]))
        ev.cov['evaluations'], ev.cov['distinct_nontrivial'], ev.cov['rule'] = 1, 0, 'recording of well-formed clients failed; one scenario without faults was played and judged'
        ev.sample({'scn': [], 'obs': probe['obs']})
        return finish(ev, [Violation('C11', c11_signature(probe, [c for _, c in pf]), what, {'kind': 'C11', 'faults': [], 'con': False})], T.s(), [])
    streams, pos, lens = res['rec']
    allowed = {'Fix_all': {}, 'Fix_none': {}}

    def take(nf, res_):
        for fx in ('Fix_all', 'Fix_none'):
            r = res_['paths%d%s' % (nf, fx)]
            if r.error or not r.tags.get('PATH'):
                raise MachineryError('path dump NF=%d %s failed: %s\n%s' % (nf, fx, r.error, r.stdout[-1500:]))
            ev.add_tlc('path dump NF=%d %s (late client after the faults): scenario -> outcomes' % (nf, fx), r)
            allowed[fx].update(_allowed(r))
    take(1, res)
    plans1 = sorted(tuple(json.loads(k)[0]) for k in allowed['Fix_all'] if len(json.loads(k)) == 1)

    # 2. scenarios: every single-fault plan at its byte offsets (started as soon as the NF=1 dump is there);
    #    then sampled sequences of 2-3 faults (half of them chosen among those the algorithm as written
    #    survives up to the last fault)
    scen = c11_singles(plans1, lens, tier)
    box = {}

    def mk_tasks(lst, off):
        # every 8th scenario runs against a server started the documented command-line way (python -m pyworkers.remote_server)
        return [dict(id='s%d' % (off + i), faults=f, con=c11_con(f, off + i), cli=((off + i) % 8 == 3), streams=streams, pos=pos, logdir=logdir)
                for i, f in enumerate(lst)]

    def replay_all():
        try:
            bud = 270 if tier == 'quick' else 3000
            t0_ = Timer()
            box['recs'] = R.pool_map('scenario_c11', mk_tasks(scen, 0), logdir, nproc=12, budget=bud)
            box['recs'] += R.pool_map('scenario_c11', mk_tasks(box['seqs'](), len(scen)), logdir, nproc=12, budget=max(30, bud - t0_.s()))
        except BaseException as e:  # noqa
            box['err'] = e
    nseq = 12 if tier == 'quick' else 160
    ready = threading.Event()

    def seqs():
        ready.wait()
        return box['seqlist']
    box['seqs'] = seqs
    rt = threading.Thread(target=replay_all, daemon=True)
    rt.start()
    try:
        take(2, jobs2.wait())
        pairs = sorted(k for k in allowed['Fix_none'] if len(json.loads(k)) == 2)
        harmless = [p for p in plans1 if allowed['Fix_none'][json.dumps([list(p)])] == {('T', 'v:1', 'F')}]
        sl = []
        for n in range(nseq):
            k = 2 if n % 2 == 0 else 3
            if n % 4 < 2 and harmless:
                seq = [rng.choice(harmless) for _ in range(k - 1)] + [rng.choice(plans1)]
            else:
                seq = [tuple(x) for x in json.loads(rng.choice(pairs))] + ([rng.choice(plans1)] if k == 3 else [])
            sl.append([c11_concrete(p, lens, rng) for p in seq])
        box['seqlist'] = sl
    except BaseException:
        box['seqlist'] = []
        raise
    finally:
        ready.set()

    # 3. collect the design runs
    dres = design.wait()
    r = dres['mc2']
    ev.add_tlc('exhaustive NF=2, all fault plans, late healthy client at any moment (proposed algorithm)', r)
    if r.error:
        raise MachineryError('Server.tla (all fixes) violates its own properties: %s\n%s' % (r.error, '\n'.join(r.trace[:80])))
    r = dres['live']
    ev.add_tlc('NF=1 with PROPERTY Live_Serves under weak fairness (proposed algorithm)', r)
    if r.error:
        raise MachineryError('Server.tla (all fixes) violates liveness: %s\n%s' % (r.error, '\n'.join(r.trace[:80])))
    if tier == 'thorough':
        r = dres['mc3']
        ev.add_tlc('exhaustive NF=3, core fault plans (proposed algorithm)', r)
        if r.error:
            raise MachineryError('Server.tla NF=3 violates its own properties: %s' % r.error)
    for w in wit:
        if dres['wits'][w].error != 'invariant:' + w:
            raise MachineryError('witness %s not reachable (vacuous model): %s' % (w, dres['wits'][w].error))
    ev.cov['witnesses'] = {w: 'reached' for w in wit}
    rejected, cex = {}, []
    for fx in fixsets:
        rp = dres['rejs'][fx]
        if not (rp.error or '').startswith(('invariant:', 'temporal')):
            raise MachineryError('the algorithm with %s is not rejected by the model checker (%s)' % (fx, rp.error))
        rejected[fx] = rp.error
        if fx == 'Fix_none':
            cex = [l for l in rp.trace if l.startswith(('State', '/\\ spc', '/\\ cpc', '/\\ dopen'))][:40]
    ev.add_tlc('NF=1, server configured with close_on_none=True (proposed algorithm)', dres['con'])
    if dres['con'].error:
        raise MachineryError('Server.tla with CloseOnNone violates its properties: %s' % dres['con'].error)
    if not (dres['cutnone'].error or '').startswith('invariant:'):
        raise MachineryError('the mutant algorithm CutIsNone is not rejected by the model checker (%s)' % dres['cutnone'].error)
    rejected['CutIsNone with close_on_none=True (mutant: a connection cut inside the header counts as a None request)'] = dres['cutnone'].error
    if dres['leakpop'].error != 'invariant:Inv_Others':
        raise MachineryError('the mutant algorithm LeakPop is not rejected by the model checker (%s)' % dres['leakpop'].error)
    rejected['LeakPop (mutant: pops the entry of a REFUSED duplicate when its reply cannot be sent)'] = dres['leakpop'].error
    ev.cov['prefix_models_rejected'] = rejected
    # reduction check: with the client's writes arriving piecewise (unreduced) the scenario -> outcome relation is the same
    for fx in ('Fix_all', 'Fix_none'):
        ru = dres['unreduced'][fx]
        ev.add_tlc('unreduced NF=1 %s (client writes arrive piecewise): same scenario -> outcome relation required' % fx, ru)
        au = _allowed(ru)
        red = {k: v for k, v in allowed[fx].items() if len(json.loads(k)) == 1}
        if ru.error or au != red:
            diff = [k for k in set(au) | set(red) if au.get(k) != red.get(k)][:3]
            raise MachineryError('reduction check failed (%s): atomic client writes change the outcomes of %s' % (fx, diff))
    ev.cov['reduction_check'] = 'atomic client writes vs piecewise writes: identical scenario->outcome relation at NF=1 (both algorithms)'

    rt.join()
    if 'err' in box:
        raise box['err'] if isinstance(box['err'], MachineryError) else MachineryError('replay failed: %r' % (box['err'],))
    recs, nskipped = _played(box['recs'], ev)

    # 4. TLC judges every real execution with the C11 operators
    jrecs = [{'id': x['id'], 'prop': 'C11', 'scn': x['scn'], 'obs': x['obs']} for x in recs]
    fails, rj = tlc.judge('ServerJudge', jrecs, name='judge11')
    ev.add_tlc('judge: C11 operators on %d real executions' % len(recs), rj, role='judge')
    byid = collections.defaultdict(list)
    for rid, clause in fails:
        byid[rid].append(clause)
    recmap = {x['id']: x for x in recs}
    for rid, clauses in byid.items():
        x = recmap[rid]
        sig = c11_signature(x, clauses)
        f = x['faults_full'][-1] if x['faults_full'] else {}
        what = ('%s violated: faulty client(s) %s; after the last one: server process alive=%s, fresh RemoteWorker round trip(s) %s, '
                'healthy workers %s%s' % (
                    ','.join(sorted(clauses)),
                    ' then '.join('%s@%s(%s,%s%s)' % (g['req'], g['step'], 'byte %d' % g['cut'], g['mode'], ',ctrl first' if g.get('split') else '') for g in x['faults_full']),
                    x['obs']['srv_alive'], [y['got'] for y in x['obs']['fresh']],
                    [(y['kind'], y['got'], 'err=' + y['err']) for y in x['obs']['others']],
                    ('; server log: ' + x['notes']['server_error']) if x['notes'].get('server_error') else ''))
        if x.get('con'):
            what += ' [server configured with close_on_none=True]'
        if x.get('cli'):
            what += ' [server started as `python -m pyworkers.remote_server`]'
        if not x['faults_full']:
            what = what.replace('faulty client(s) ;', 'NO faulty client: the set-up of the healthy clients already failed;')
        violations.append(Violation('C11', sig, what, {'kind': 'C11', 'faults': x['faults_full'], 'con': bool(x.get('con')), 'cli': bool(x.get('cli'))}))

    violations = confirm(ev, 'C11', violations, lambda rp, i: dict(id=i, faults=rp['faults'], con=rp.get('con', False), cli=rp.get('cli', False), streams=streams, pos=pos, logdir=logdir),
                         'scenario_c11', c11_signature, logdir)
    unconf = set(u['signature'] for u in ev.cov.get('unconfirmed_rejections', []))

    # 5. conformance: the real outcome must be an outcome of the model for that scenario
    #    (of the proposed algorithm, or - where a known finding applies - of the algorithm as written)
    conf = collections.Counter()
    for x in recs:
        key = _key(x['faults_full'])
        s = c11_summary(x)
        if key not in allowed['Fix_all']:
            conf['not-enumerated'] += 1
            continue
        if s in allowed['Fix_all'][key]:
            conf['as-proposed'] += 1
        elif s in allowed['Fix_none'][key]:
            conf['as-written'] += 1
        elif x['id'] in byid and c11_signature(x, byid[x['id']]) in unconf:
            conf['unconfirmed-timing'] += 1
        else:
            conf['drift'] += 1
            if len(drift) < 4:
                drift.append('real server deviates from Server.tla: faults=%s real outcome (alive, fresh, others-err)=%s, model allows %s (proposed) / %s (as written)'
                             % (key, s, sorted(allowed['Fix_all'][key]), sorted(allowed['Fix_none'][key])))
    landed = set()
    for x in recs:
        for f, lg in zip(x['faults_full'], x['notes']['client_logs']):
            if 'connected' in lg and any(str(e).startswith('gone') for e in lg) and not any(str(e).startswith('client-error') for e in lg):
                landed.add((f['req'], f['step'], f['cut'], f['mode'], bool(f.get('split'))))
    ev.cov['traces_validated_against_impl'] = conf['as-proposed'] + conf['as-written']
    ev.cov['evaluations'] = len(recs)
    ev.cov['distinct_nontrivial'] = len(landed)
    ev.cov['rule'] = ('each case = sequence of faulty clients (request type, protocol step, byte offset, FIN/RST, ctrl-first) on its own real server; '
                      'single faults: every plan of TLC\'s NF=1 path dump (%d plans) at first/middle/last offset of the step%s; sequences: %d sampled from the NF=2 dump (+1); '
                      'non-trivial = the scripted client reached its step and vanished there as planned (distinct (type, step, offset, mode) counted)'
                      % (len(plans1), ' (every offset for worker/ctxcreate/ctxdelete, every 8th otherwise)' if tier == 'thorough' else '', nseq))
    ev.cov['exhaustive'] = False
    ev.cov['conformance_counts'] = dict(conf)
    ev.cov['single_fault_plans'] = len(plans1)
    ev.cov['scenarios'] = len(recs)
    for x in recs[:2] + recs[len(recs) // 2:len(recs) // 2 + 1] + recs[-2:]:
        ev.sample({'scn': x['faults_full'], 'obs': x['obs']})
    if rejected.get('Fix_none'):
        ev.sample({'tlc_counterexample_of_the_algorithm_as_written': cex})
    ev.assumptions += ['client writes are atomic up to the client\'s next read (TCP buffers them); payloads are opaque to the model',
                       'FIN = close() of a socket without unread data, RST = SO_LINGER 0 + close(); loopback only',
                       'the healthy party of every scenario: a persistent worker, a one-shot worker in the middle of its target, and a context (the one faulty worker-in-context and duplicate-create requests name) with a worker in it; afterwards each must answer with its own work and a NEW worker in that context must be accepted',
                       'every 8th scenario starts its server the documented command-line way (`python -m pyworkers.remote_server --addr .. --port ..` as a plain subprocess) instead of spawn_server()',
                       'both server configurations are exercised: close_on_none=False (spawn_server default) and True (run_server / --close_on_none); no scenario sends a None request',
                       'time-outs in the proposed algorithm only fire for clients that are gone (a well-behaved client connects the control channel in time)',
                       'sequences of >= 2 faulty clients are sampled (seeded), not exhaustive; model NF<=2 exhaustive (NF=3 core plans in the thorough tier)',
                       'a rejected execution whose signature is not a listed finding is re-run alone twice and reported only if TLC rejects a re-run too (hang bounds are wall-clock: 12 parallel replays + TLC can exceed them on a loaded machine)']
    return finish(ev, violations, T.s(), drift)


# ----------------------------------------------------------------------------- C18

REAL_PATIENCE = 4      # busy workers a context helper waits out (1 s each) before the server's 5 s are over


def _ctx_cfg(ids, maxlen, maxw, hist='FALSE', pop='TRUE', dup='TRUE', inv=(), spec=True, patience=1, hk='TRUE', profile='free',
             alias='FALSE', shutfirst='FALSE', cutdel='FALSE'):
    s = ('SPECIFICATION Spec\n' if spec else 'INIT Init\nNEXT Next\n')
    s += ('CONSTANTS\n  Ids <- %s\n  MaxLen = %d\n  MaxW = %d\n  Hist = %s\n  PopOnDelete = %s\n  DupCheck = %s\n  Patience = %d\n  HandlerKills = %s\n  Profile = "%s"\n  AliasDefaults = %s\n  ShutdownFirst = %s\n  CutDeletes = %s\n'
          % (ids, maxlen, maxw, hist, pop, dup, patience, hk, profile, alias, shutfirst, cutdel))
    for i in inv:
        s += 'INVARIANT %s\n' % i
    return s + 'CHECK_DEADLOCK FALSE\n'


C18_REF = ('TypeOK', 'Ref_Table', 'Ref_Reply', 'Ref_Workers', 'Ref_ServerUp', 'Ref_HelperAlive')
C18_REC = ('Inv_Table', 'Inv_Duplicate', 'Inv_First', 'Inv_Target', 'Inv_Delete', 'Inv_Reusable', 'Inv_Unknown')


def c18_features(hist, reps):
    """What a history exercises (used only to select which TLC-generated histories are replayed)."""
    f = set()
    dup_ids, deleted, started_in = set(), set(), {}
    registered = set()
    busy, busy_ctx, kw, cutids = set(), {}, set(), set()
    prev = None
    for n, (q, a) in enumerate(zip(hist, reps)):
        op = q['op']
        if op == 'delete' and q['k'] == 'F':
            if n == 0:
                f.add('first-delete-unknown')
            if prev is not None and prev[0]['op'] == 'create' and prev[1] == 'ValueError':
                f.add('delete-unknown-after-dup')
        if op == 'start' and a != 'started' and q['id'] in deleted:
            f.add('start-in-deleted')
        prev = (q, a)
        if op == 'create':
            if a == 'ValueError':
                f.add('dup')
                dup_ids.add(q['id'])
            else:
                if q['id'] in deleted:
                    f.add('reuse')
                registered.add(q['id'])
                dup_ids.discard(q['id'])
            if len(registered) >= 2:
                f.add('two-contexts')
        elif op == 'delete':
            if q['k'] == 'F':
                f.add('delete-unknown')
            else:
                live = [w for w, i in started_in.items() if i == q['id']]
                f.add('delete-with-workers' if live else 'delete-empty')
                for w in live:
                    del started_in[w]
                registered.discard(q['id'])
                deleted.add(q['id'])
        elif op == 'start':
            if a == 'started':
                started_in[q['w']] = q['id']
                f.add('start')
                if q['id'] in dup_ids:
                    f.add('start-after-dup')
            else:
                f.add('start-unknown')
        elif op == 'call':
            if a.startswith('v:'):
                f.add('call')
                if started_in.get(q['w']) in dup_ids:
                    f.add('call-after-dup')
                if started_in.get(q['w']) in deleted:
                    f.add('call-in-reused')
            else:
                f.add('call-dead')
        elif op == 'wait':
            f.add('wait')
            started_in.pop(q['w'], None)
        elif op == 'busy':
            f.add('busy')
            busy.add(q['w'])
        elif op == 'callk':
            if a.startswith('v:'):
                f.add('callk')
                kw.add(q['w'])
        elif op == 'rstart':
            f.add('rstart-unknown' if q['k'] == 'F' else 'rstart-known')
        elif op == 'cut':
            f.add('cut-known' if q['k'] == 'T' else 'cut-unknown')
            if q['k'] == 'T':
                cutids.add(q['id'])
        if op in ('start', 'create', 'delete') and q['id'] in cutids:
            f.add('use-after-cut')
        if op in ('call', 'callk') and a.startswith('v:') and started_in.get(q['w']) in cutids:
            f.add('call-after-cut')
        if op == 'call' and a.startswith('v:') and q['w'] in kw:
            f.add('plain-call-after-keyword')
        if op == 'delete' and q['k'] == 'T':
            nb = len([w for w in busy if busy_ctx.get(w) == q['id']])
            if nb:
                f.add('delete-with-busy')
            if nb > REAL_PATIENCE:
                f.add('delete-forced')
        if op == 'start' and a == 'started':
            busy_ctx[q['w']] = q['id']
    return f


def c18_select(paths, k, rng):
    """Greedy coverage-balanced choice of k histories out of TLC's."""
    count = collections.Counter()
    pool = list(paths)
    rng.shuffle(pool)
    feats = [c18_features(h, r) for h, r, _ in pool]
    chosen, used = [], set()
    for _ in range(min(k, len(pool))):
        best, bs = None, -1.0
        for i, fs in enumerate(feats):
            if i in used:
                continue
            sc = sum(1.0 / (1 + count[x]) for x in fs)
            if sc > bs:
                best, bs = i, sc
        used.add(best)
        chosen.append(pool[best])
        count.update(feats[best])
    # request shapes the client API never produces by itself are always played, several times
    for must, times in (('first-delete-unknown', 3), ('delete-unknown-after-dup', 3), ('start-in-deleted', 2), ('delete-with-busy', 2),
                        ('plain-call-after-keyword', 4), ('rstart-unknown', 4), ('rstart-known', 1),
                        ('use-after-cut', 4), ('call-after-cut', 2)):
        for i, fs in enumerate(feats):
            if count[must] >= times:
                break
            if must in fs and i not in used:
                used.add(i)
                chosen.append(pool[i])
                count.update(fs)
    return chosen, dict(count)


def c18_idmap(hist, reps, n, tier):
    """Concretise the model's abstract ids 1..3: one of them becomes a falsy context id (0; '' too in the
    thorough tier) - alternately the id most workers are started in and the id most often named while unknown."""
    started = collections.Counter(q['id'] for q, a in zip(hist, reps) if q['op'] == 'start' and a == 'started')
    unknown = collections.Counter(q['id'] for q, a in zip(hist, reps) if q['op'] in ('start', 'delete') and q['k'] == 'F')
    pref = started if (n % 2 == 0 and started) or not unknown else unknown
    special = max((1, 2, 3), key=lambda i: (pref[i], started[i] + unknown[i], -i))
    falsy = '' if (tier == 'thorough' and n % 4 >= 2) else 0
    rest = iter((7, 8))
    return {str(i): (falsy if i == special else next(rest)) for i in (1, 2, 3)}


def c18_signature(rec, clauses):
    h, reps = rec['scn']['hist'], rec['obs']['rep']
    model = rec.get('model_rep') or []
    for n, q in enumerate(h):
        got = reps[n] if n < len(reps) else 'missing'
        if n < len(model) and got != model[n]:
            im = (rec.get('notes') or {}).get('idmap') or {}
            cid = im.get(str(q['id'])) if q['id'] else im.get(str(next((p['id'] for p in h if p['op'] == 'start' and p['w'] == q['w']), 0)))
            route = ('|via=' + (rec.get('notes') or {}).get('droute', 'wait')) if q['op'] == 'delete' and q['k'] == 'T' else ''
            return 'C18|%s|op=%s%s|known=%s|ctxid=%s|got=%s' % ('+'.join(sorted(clauses)), q['op'], route, q['k'], 'falsy' if cid in (0, '') else 'truthy',
                                                              got.split(':')[0] if got.startswith('v:') else got)
    if any(rec['obs']['live']):
        return 'C18|%s|op=delete|workers-left-alive' % '+'.join(sorted(clauses))
    return 'C18|%s|srv_alive=%s|fresh=%s' % ('+'.join(sorted(clauses)), rec['obs']['srv_alive'], [x['got'] for x in rec['obs']['fresh']])


def run_c18(tier, replay):
    T = Timer()
    ev = Evidence('C18', tier)
    rng = random.Random(seed())
    logdir = sub_scratch('c18-logs')
    violations, drift = [], []

    if replay is not None:
        streams, pos, lens = record(logdir)
        rec = R.scenario_c18(dict(id='replay', hist=replay['replay']['hist'], idmap=replay['replay'].get('idmap'), droute=replay['replay'].get('droute'), upayload=streams['uctxworker'][1],
                                  upos=[p for p in pos['uctxworker'] if p[0] == 1], logdir=logdir))
        fails, _ = tlc.judge('ServerJudge', [{k: rec[k] for k in ('id', 'prop', 'scn', 'obs')}], name='replay')
        print('replayed:', json.dumps({'scn': rec['scn'], 'obs': rec['obs'], 'notes': rec['notes']}))
        for _, clause in fails:
            print('VIOLATION property=C18 replay=(given) clause=%s' % clause)
        return 1 if fails else 0

    # 0. the design (concurrently): refinement of the dictionary model over every history; record operators
    #    on every short history; witnesses; mutant algorithms rejected
    wit = ['W_NoDuplicate', 'W_NoOrphan', 'W_NoReuse', 'W_NoUnknownStart', 'W_NoUnknownDelete', 'W_NoDeleteWithWorkers',
           'W_NoCallAfterDup', 'W_NoTwoContexts', 'W_NoForcedDelete', 'W_NoBusyRegular', 'W_NoPlainAfterKeyword', 'W_NoResetUnknown', 'W_NoCutKnown']
    design = Jobs()
    big = ('Ids3', 8, 3) if tier == 'thorough' else ('Ids3', 6, 2)
    design.start('mc', lambda: tlc.run('ServerCtxMC', cfg_text=_ctx_cfg(*big, inv=C18_REF), workers=8, name='ctxmc', timeout=3000))
    if tier != 'thorough':
        design.start('mc2ids', lambda: tlc.run('ServerCtxMC', cfg_text=_ctx_cfg('Ids2', 7, 2, inv=C18_REF), workers=6, name='ctxmc2', timeout=3000))
    design.start('hist', lambda: tlc.run('ServerCtxMC', 'ServerCtx_hist.cfg', workers=4, name='ctxhist', timeout=1500))
    # forced delete path (two busy workers against an abstract patience of 1) with the record operators
    design.start('hist6', lambda: tlc.run('ServerCtxMC', cfg_text=_ctx_cfg('Ids1', 7, 3, hist='TRUE', inv=C18_REF + C18_REC), workers=2,
                                          name='ctxhist6', timeout=1500))
    design.start('wits', lambda: {w: tlc.run('ServerCtxMC', cfg_text=_ctx_cfg('Ids2', 6, 2, hist='TRUE', inv=(w,)), workers=1, name=w,
                                             must_complete=False, timeout=600) for w in wit})
    design.start('muts', lambda: {m: tlc.run('ServerCtxMC', cfg_text=_ctx_cfg(ids_, len_, 2, hist='TRUE', inv=C18_REC, **kw), workers=1,
                                             name='mut' + m, must_complete=False, timeout=600)
                                  for m, ids_, len_, kw in (('no_pop', 'Ids2', 5, {'pop': 'FALSE'}), ('no_dupcheck', 'Ids2', 5, {'dup': 'FALSE'}),
                                                            ('handler_kills_nothing', 'Ids1', 6, {'hk': 'FALSE'}),
                                                            ('keyword_sticks_to_later_inputs', 'Ids1', 5, {'alias': 'TRUE'}),
                                                            ('shutdown_before_close_of_reset_client', 'Ids1', 3, {'shutfirst': 'TRUE'}),
                                                            ('dropped_context_request_deletes', 'Ids1', 4, {'cutdel': 'TRUE'}))})

    # 1. TLC generates the histories (simulation: length 8, 3 ids, 3 workers; the record operators are
    #    evaluated on every simulated state); the tap records the bytes of a worker-in-context request
    jobs = Jobs()
    jobs.start('rec', lambda: record(logdir))
    nsim = 6000 if tier == 'quick' else 40000
    jobs.start('sim', lambda: tlc.run('ServerCtxMC', cfg_text=_ctx_cfg('Ids3', 8, 3, hist='TRUE', inv=('PathDump',) + C18_REC, spec=False),
                                      workers=1, simulate='num=%d' % nsim, depth=45, seed=seed(), name='ctxsim',
                                      must_complete=False, timeout=1500))
    # the scripted profile: one context, 7 workers, each given a blocking job, then the delete - the helper's clean-up
    # overruns the server's 5 s and the forced path (SIGTERM to the helper, its handler kills the rest) is taken
    jobs.start('many', lambda: tlc.run('ServerCtxMC', cfg_text=_ctx_cfg('Ids1', 17, 7, hist='TRUE', inv=('PathDump',) + C18_REF + C18_REC,
                                                                       patience=REAL_PATIENCE, profile='manybusy'),
                                       workers=1, name='ctxmany', timeout=900))
    res = jobs.wait()
    streams, pos, lens = res['rec']
    rmany = res['many']
    if rmany.error or not rmany.tags.get('PATH'):
        raise MachineryError('the many-busy-workers profile of ServerCtx.tla failed: %s\n%s' % (rmany.error, rmany.stdout[-1500:]))
    ev.add_tlc('profile manybusy: create, 7 x start, 7 x busy, delete (forced path, Patience=%d), then free' % REAL_PATIENCE, rmany)
    many = {}
    for h, r_, lv in rmany.tags['PATH']:
        many[h] = (json.loads(h), json.loads(r_), json.loads(lv))
    rs = res['sim']
    if rs.error or not rs.tags.get('PATH'):
        raise MachineryError('simulation of context histories failed: %s\n%s' % (rs.error, rs.stdout[-1500:]))
    ev.add_tlc('simulation: %d behaviours of length-8 histories over 3 ids / 3 workers, record operators checked on each' % nsim, rs)
    paths = {}
    for h, r_, lv in rs.tags['PATH']:
        paths[h] = (json.loads(h), json.loads(r_), json.loads(lv))
    k = 40 if tier == 'quick' else 600
    chosen, featcount = c18_select(paths.values(), k, rng)
    extra = sorted(many.values(), key=lambda t: json.dumps(t[0]))[:(1 if tier == 'quick' else 4)]
    chosen = extra + chosen          # first: they take longest
    for h_, r_, _ in extra:
        for x_ in c18_features(h_, r_):
            featcount[x_] = featcount.get(x_, 0) + 1
    routes = ('wait', 'close', 'terminate')      # every client-side way RemoteContext offers to delete a context, one per history
    tasks = [dict(id='h%d' % i, hist=h, idmap=c18_idmap(h, mr_, i, tier), droute=routes[i % 3], upayload=streams['uctxworker'][1],
                  upos=[p for p in pos['uctxworker'] if p[0] == 1], logdir=logdir)
             for i, (h, mr_, _) in enumerate(chosen)]
    recs = R.pool_map('scenario_c18', tasks, logdir, nproc=12, task_timeout=240, budget=240 if tier == 'quick' else 3000)
    for x, (h, mr, ml) in zip(recs, chosen):
        if x is not None:
            x['model_rep'], x['model_live'] = mr, ml
    recs, _ = _played(recs, ev)

    # 2. collect the design runs
    dres = design.wait()
    r = dres['mc']
    ev.add_tlc('exhaustive: every history of length <= %d over %s with <= %d workers; refinement of the dictionary model' % (big[1], big[0], big[2]), r)
    if r.error:
        raise MachineryError('ServerCtx.tla violates its refinement invariants: %s\n%s' % (r.error, '\n'.join(r.trace[:80])))
    if tier != 'thorough':
        r2 = dres['mc2ids']
        ev.add_tlc('exhaustive: every history of length <= 7 over Ids2 with <= 2 workers; refinement of the dictionary model', r2)
        if r2.error:
            raise MachineryError('ServerCtx.tla violates its refinement invariants: %s\n%s' % (r2.error, '\n'.join(r2.trace[:80])))
    r = dres['hist']
    ev.add_tlc('exhaustive with history: record operators C18_* on every history of length <= 5 over 2 ids', r)
    if r.error:
        raise MachineryError('ServerCtx.tla violates the C18 operators: %s\n%s' % (r.error, '\n'.join(r.trace[:80])))
    r = dres['hist6']
    ev.add_tlc('exhaustive with history: one context, <= 3 workers incl. blocking jobs, length <= 7: both delete paths, refinement + record operators', r)
    if r.error:
        raise MachineryError('ServerCtx.tla (forced delete path) violates the C18 operators: %s\n%s' % (r.error, '\n'.join(r.trace[:80])))
    for w in wit:
        if dres['wits'][w].error != 'invariant:' + w:
            raise MachineryError('witness %s not reachable (vacuous model): %s' % (w, dres['wits'][w].error))
    ev.cov['witnesses'] = {w: 'reached' for w in wit}
    ev.cov['mutant_models_rejected'] = {}
    for m, rm in dres['muts'].items():
        if not (rm.error or '').startswith('invariant:'):
            raise MachineryError('the mutant algorithm %s is not rejected by the model checker (%s)' % (m, rm.error))
        ev.cov['mutant_models_rejected'][m] = rm.error

    # 3. TLC judges every real history with the C18 operators
    jrecs = [{'id': x['id'], 'prop': 'C18', 'scn': x['scn'], 'obs': x['obs']} for x in recs]
    fails, rj = tlc.judge('ServerJudge', jrecs, name='judge18')
    ev.add_tlc('judge: C18 operators on %d real histories' % len(recs), rj, role='judge')
    byid = collections.defaultdict(list)
    for rid, clause in fails:
        byid[rid].append(clause)
    recmap = {x['id']: x for x in recs}
    for rid, clauses in byid.items():
        x = recmap[rid]
        sig = c18_signature(x, clauses)
        im = x['notes']['idmap']
        what = ('%s violated by history (contexts deleted through RemoteContext.%s()) %s: replies %s (dictionary model: %s), alive after deletes %s, server alive=%s, fresh=%s%s'
                % (','.join(sorted(clauses)), x['notes'].get('droute', 'wait'), ['%s(%s)' % (q['op'], ('ctx %r' % (im[str(q['id'])],)) if q['id'] else 'w%d' % q['w']) for q in x['scn']['hist']],
                   x['obs']['rep'], x['model_rep'], x['obs']['live'], x['obs']['srv_alive'], [y['got'] for y in x['obs']['fresh']],
                   ('; server log: ' + x['notes']['server_error']) if x['notes'].get('server_error') else ''))
        violations.append(Violation('C18', sig, what, {'kind': 'C18', 'hist': x['scn']['hist'], 'idmap': x['notes']['idmap'], 'droute': x['notes'].get('droute')}))

    violations = confirm(ev, 'C18', violations, lambda rp, i: dict(id=i, hist=rp['hist'], idmap=rp.get('idmap'), droute=rp.get('droute'), upayload=streams['uctxworker'][1],
                                                                  upos=[p_ for p_ in pos['uctxworker'] if p_[0] == 1], logdir=logdir),
                         'scenario_c18', c18_signature, logdir)

    # 4. conformance: replies, survivors and the number of helper processes as in the model's behaviour
    nconf = 0
    for x in recs:
        ok = x['obs']['rep'] == x['model_rep'] and x['obs']['live'] == x['model_live'] and x['obs']['srv_alive'] == 'T'
        regs = len(set(q['id'] for q, a in zip(x['scn']['hist'], x['model_rep']) if q['op'] == 'create' and a == 'ok')
                   - set())  # upper bound below uses the replay of the dictionary
        d = {}
        for q, a in zip(x['scn']['hist'], x['model_rep']):
            if q['op'] == 'create' and a == 'ok':
                d[q['id']] = 1
            elif q['op'] == 'delete':
                d.pop(q['id'], None)
        orphans = sum(1 for a in x['model_rep'] if a == 'ValueError')
        hl = x['notes']['helpers']
        if ok and hl >= 0 and not (len(d) <= hl <= len(d) + orphans):
            ok = False
        if ok:
            nconf += 1
        elif x['id'] not in byid and len(drift) < 4:
            drift.append('real server deviates from ServerCtx.tla on history %s: replies %s vs model %s; alive %s vs %s; helper processes %s (model %d..%d)'
                         % ([(q['op'], q['id'] or q['w']) for q in x['scn']['hist']], x['obs']['rep'], x['model_rep'], x['obs']['live'], x['model_live'],
                            hl, len(d), len(d) + orphans))
    # soft observation (not part of the property): a refused duplicate leaves its freshly built helper process behind
    def regs_end(x):
        d = set()
        for q, a in zip(x['scn']['hist'], x['obs']['rep']):
            if q['op'] == 'create' and a == 'ok':
                d.add(q['id'])
            elif q['op'] == 'delete':
                d.discard(q['id'])
        return len(d)
    ev.cov['histories_with_orphan_helper_process'] = sum(1 for x in recs if x['notes']['helpers'] > regs_end(x))
    ev.cov['traces_validated_against_impl'] = nconf
    ev.cov['evaluations'] = len(recs)
    ev.cov['distinct_nontrivial'] = len(set(json.dumps(x['scn']['hist']) for x in recs if len(c18_features(x['scn']['hist'], x['model_rep'])) >= 3))
    ev.cov['rule'] = ('each case = one request history of length 8 over ids 1..3 (create / duplicate / delete / delete unknown / start / start in unknown context / call / wait) '
                      'generated by TLC simulation of ServerCtx.tla (%d distinct histories), %d of them selected greedily for balanced coverage of the features %s and played on a real server; '
                      'non-trivial = the history exercises at least 3 different features' % (len(paths), len(recs), sorted(featcount)))
    ev.cov['feature_counts'] = featcount
    ev.cov['exhaustive'] = False
    ev.cov['histories_generated'] = len(paths)
    for x in recs[:3] + recs[-1:]:
        ev.sample({'hist': [[q['op'], q['id'], q['tok'], q['w'], q['x'], q['k']] for q in x['scn']['hist']], 'obs': x['obs'], 'helpers': x['notes']['helpers']})
    ev.assumptions += ['requests of one history are issued sequentially by one client (each API call returns before the next is made)',
                       'the worker handshake inside a context is one step of this model (its faults are C11\'s subject)',
                       'a worker request naming an unknown context is sent by a raw-socket client; its outcome is read at the end of the history (any byte received = a reply)',
                       'a delete of an id the client holds no live context object of (unknown, already deleted, refused duplicate) is sent raw - the API never sends one; selected histories always include one as the very first request and one right after a refused duplicate',
                       'a delete of a context the client holds a live object of goes through RemoteContext.wait(), .close() or .terminate() - one route per history, in turn; close() returns nothing, its outcome is the object\'s is_alive() afterwards; a raising delete is a reply like any other ("raised:<Type>")',
                       'the abstract ids 1..3 of the model are concretised per history with one falsy context id (0; also the empty string in the thorough tier) and two truthy ones',
                       'real histories are sampled from TLC\'s simulation (seeded), the model is exhaustive up to length 7 (8 in the thorough tier)']
    return finish(ev, violations, T.s(), drift)


# ----------------------------------------------------------------------------- C12

def _stop_cfg(maxkids, racers='Racers_all', ctxterm='TRUE', inv=(), prop=None, dupterm=None, pkill=None, clearfirst='FALSE', narrow='FALSE', states='States_all', noack='FALSE', cachedead='FALSE'):
    s = ('SPECIFICATION Spec\nCONSTANTS\n  MaxKids = %d\n  KidStates <- %s\n  Racers <- %s\n  CtxTerm = %s\n  DupTerm = %s\n  ParentKill = %s\n  ClearFirst = %s\n  NarrowExcept = %s\n  NoAckWait = %s\n  CacheDead = %s\n'
         % (maxkids, states, racers, ctxterm, dupterm or ctxterm, pkill or dupterm or ctxterm, clearfirst, narrow, noack, cachedead))
    for i in inv:
        s += 'INVARIANT %s\n' % i
    if prop:
        s += 'PROPERTY %s\n' % prop
    return s + 'CHECK_DEADLOCK FALSE\n'


C12_INV = ('TypeOK', 'Inv_Reaped', 'Inv_ParentsKnow', 'Inv_ErrorKind', 'Inv_NoBlock')
PERSISTENT_ONLY = ('idle', 'inctx', 'inctx-coop', 'inctx-swallow', 'swallow-gone', 'coop-gone')
NO_PARENT = ('starting', 'orphan', 'swallow-gone', 'coop-gone')


def _c12_obs_key(obs, scn_kids):
    """Comparable summary: server gone, survivors, and what each real parent saw."""
    ks = []
    for k, o in zip(scn_kids, obs['kids']):
        if k.get('parent', 'T') == 'T' and k['state'] not in NO_PARENT:
            ks.append((o['wait'], o['alive'], o['has_error'], o['error'], o['blocked']))
    return (obs['srv_dead'], obs['left'], tuple(ks))


def _c12_allowed(r):
    out = collections.defaultdict(set)
    for how, racer, kids, obs in r.tags.get('PATH', []):
        kl = json.loads(kids)
        out[(how, racer, tuple(kl))].add(_c12_obs_key(json.loads(obs), [{'state': x} for x in kl]))
    return out


def c12_select(confs, k, rng):
    """Greedy coverage-balanced choice of k configurations out of TLC's enumeration."""
    pool = sorted(confs)
    rng.shuffle(pool)

    def feats(c):
        how, racer, kids = c
        f = set([('how', how), ('racer', racer, how), ('n', len(kids))])
        for x in kids:
            f.add((x, how))
        if len(set(kids)) >= 3:
            f.add(('mixed', how))
        if sum(1 for x in kids if x in ('swallow', 'inctx-swallow')) >= 3:
            f.add('many-swallow')
        if kids.count('inctx-swallow') >= 2:
            f.add(('two-swallow-in-ctx', how))
        if 'inctx-swallow' in kids and racer != 'none':
            f.add(('ctx-swallow+racer', racer))
        if 'orphan' in kids:
            f.add(('orphan+racer', racer, how))
        if 'swallow-gone' in kids and len(kids) >= 2:
            f.add(('client-gone-mix', how))
        if how == 'tshort' and 'swallow' in kids and 'coop' in kids and 'idle' in kids:
            f.add('tshort-mix')
        if how == 'tshort' and kids and kids[0] == 'swallow' and len(kids) >= 2:
            f.add('tshort-swallow-first')
        return f
    count = collections.Counter()
    fs = [feats(c) for c in pool]
    chosen, used = [], set()
    for _ in range(min(k, len(pool))):
        best, bs = None, -1.0
        for i, f in enumerate(fs):
            if i in used:
                continue
            sc = sum(1.0 / (1 + count[x]) for x in f)
            if sc > bs:
                best, bs = i, sc
        used.add(best)
        chosen.append(pool[best])
        count.update(fs[best])
    # the fault classes the model singles out (a helper killed during its clean-up; an exit blocked by an
    # orphan helper after the one SIGTERM was used up) are always exercised
    for must, times in ((('inctx-swallow', 'terminate'), 1), (('orphan+racer', 'addr', 'terminate'), 1), (('two-swallow-in-ctx', 'terminate'), 1),
                        ('tshort-mix', 2), ('tshort-swallow-first', 2), (('swallow', 'tshort'), 3),
                        (('swallow-gone', 'terminate'), 2), (('client-gone-mix', 'terminate'), 1), (('coop-gone', 'terminate'), 1),
                        (('swallow-t', 'terminate'), 2), (('swallow-t', 'sigterm'), 2), (('swallow-t', 'tshort'), 1),
                        # a registered context + a refused duplicate registration before the stop, under every stop kind (the
                        # graceful-only terminate is the one nobody rescues from a hanging exit)
                        (('orphan', 'tgrace'), 3), (('orphan', 'terminate'), 2), (('orphan', 'sigterm'), 1), (('orphan+racer', 'addr', 'terminate'), 1)):
        for i, f in enumerate(fs):
            if count[must] >= times:
                break
            if must in f and i not in used:
                used.add(i)
                chosen.append(pool[i])
                count.update(f)
    return chosen


def c12_signature(rec, clauses):
    kids, obs = rec['scn']['kids'], rec['obs']['kids']
    bad = '-'
    for k, o in zip(kids, obs):
        if o['os_dead'] != 'T' or o['blocked'] == 'T' or (k['parent'] == 'T' and k['state'] != 'finished' and
                                                         (o['wait'] != 'T' or o['alive'] != 'F' or o['has_error'] != 'T' or o['error'] not in ('WTE', 'None'))):
            bad = k['state']
            break
    if bad == '-':
        for k, o in zip(kids, obs):
            if k['parent'] == 'T' and k['state'] in ('coop', 'idle', 'inctx', 'inctx-coop') and o['error'] != 'WTE' and 'C12_ErrorKind' in clauses:
                bad = k['state'] + ':error=' + o['error']
                break
    if bad == '-' and rec['obs']['srv_dead'] != 'T':
        bad = 'server-not-gone' + ('+orphan-helper' if any(k['state'] == 'orphan' for k in kids) else '')
    return 'C12|%s|how=%s|racer=%s|kid=%s|left=%s' % ('+'.join(sorted(clauses)), rec['scn']['how'], rec['scn']['racer'], bad,
                                                   '0' if rec['obs']['left'] == 0 else '>0')


def run_c12(tier, replay):
    T = Timer()
    ev = Evidence('C12', tier)
    rng = random.Random(seed())
    logdir = sub_scratch('c12-logs')
    violations, drift = [], []

    if replay is not None:
        streams, pos, lens = record(logdir)
        rp = replay['replay']
        rec = R.scenario_c12(dict(id='replay', how=rp['how'], kids=rp['kids'], racer=rp.get('racer', 'none'), streams=streams, pos=pos, logdir=logdir))
        fails, _ = tlc.judge('ServerJudge', [{k: rec[k] for k in ('id', 'prop', 'scn', 'obs')}], name='replay')
        print('replayed:', json.dumps({'scn': rec['scn'], 'obs': rec['obs'], 'notes': rec['notes']}))
        for _, clause in fails:
            print('VIOLATION property=C12 replay=(given) clause=%s signature=%s' % (clause, c12_signature(rec, [clause])))
        return 1 if fails else 0

    # 0. the design (concurrently): exhaustive invariants for 0..4 children, liveness for 0..3, witnesses,
    #    rejection of the algorithm as written
    wit = ['W_NoGracefulExit', 'W_NoKillHelper', 'W_NoJoinTimeout', 'W_NoHalfStarted', 'W_NoGracefulCtx', 'W_NoForced', 'W_NoExitHang', 'W_NoSignalUsedUp', 'W_NoHandlerInLoop']
    design = Jobs()
    if tier == 'thorough':
        design.start('mc', lambda: tlc.run('ServerStopMC', 'ServerStop_mc.cfg', workers=8, name='stopmc', timeout=3000))
    else:      # quick: 0..3 children with every start-up phase, 0..4 children without a racing start-up
        design.start('mc', lambda: tlc.run('ServerStopMC', cfg_text=_stop_cfg(3, 'Racers_all', inv=C12_INV), workers=6, name='stopmc', timeout=3000))
        design.start('mc4', lambda: tlc.run('ServerStopMC', cfg_text=_stop_cfg(4, 'Racers_none', inv=C12_INV), workers=6, name='stopmc4', timeout=3000))
    design.start('live', lambda: tlc.run('ServerStopMC', 'ServerStop_live.cfg', workers=4, name='stoplive', timeout=3000))
    design.start('wits', lambda: {w: tlc.run('ServerStopMC', cfg_text=_stop_cfg(2, inv=(w,)), workers=1, name=w,
                                             must_complete=False, timeout=600) for w in wit})
    design.start('prefix', lambda: {v: tlc.run('ServerStopMC', cfg_text=_stop_cfg(2, 'Racers_all', v[0], inv=C12_INV, prop='Live_Reaped', dupterm=v[1], pkill=v[2]),
                                               workers=1, name='stopprefix%s%s%s' % v, must_complete=False, timeout=600)
                                    for v in (('FALSE', 'FALSE', 'FALSE'), ('FALSE', 'TRUE', 'TRUE'), ('TRUE', 'FALSE', 'FALSE'), ('TRUE', 'FALSE', 'TRUE'))})
    design.start('cachedead', lambda: tlc.run('ServerStopMC', cfg_text=_stop_cfg(1, 'Racers_none', 'TRUE', inv=C12_INV, prop='Live_Reaped', cachedead='TRUE'),
                                              workers=1, name='stopcachedead', must_complete=False, timeout=600))
    design.start('noack', lambda: tlc.run('ServerStopMC', cfg_text=_stop_cfg(1, 'Racers_all', 'TRUE', inv=C12_INV, prop='Live_Reaped', noack='TRUE'),
                                          workers=1, name='stopnoack', must_complete=False, timeout=600))
    design.start('narrow', lambda: tlc.run('ServerStopMC', cfg_text=_stop_cfg(2, 'Racers_all', 'TRUE', inv=C12_INV, prop='Live_Reaped', narrow='TRUE'),
                                           workers=1, name='stopnarrow', must_complete=False, timeout=600))
    design.start('clearfirst', lambda: tlc.run('ServerStopMC', cfg_text=_stop_cfg(2, 'Racers_all', 'TRUE', inv=C12_INV, prop='Live_Reaped', clearfirst='TRUE'),
                                               workers=1, name='stopclearfirst', must_complete=False, timeout=600))

    # 1. TLC enumerates configurations and their outcomes (proposed algorithm and algorithm as written)
    jobs = Jobs()
    jobs.start('rec', lambda: record(logdir))
    dumps = [(4, 'Racers_all', 'States_all')] if tier == 'thorough' else [(4, 'Racers_none', 'States_core'), (3, 'Racers_none', 'States_all'), (2, 'Racers_all', 'States_all')]
    # (CtxTerm, DupTerm, ParentKill): proposed; as written; the tree after the committed fixes; one fix at a time
    variants = (('TRUE', 'TRUE', 'TRUE'), ('FALSE', 'FALSE', 'FALSE'), ('TRUE', 'FALSE', 'TRUE'), ('TRUE', 'FALSE', 'FALSE'), ('FALSE', 'TRUE', 'TRUE'))
    if tier == 'quick':
        variants = variants[:2]
    for mk, rc, st in dumps:
        for ct, dt, pk in variants:
            jobs.start('p%d%s%s%s%s' % (mk, rc, ct, dt, pk), lambda mk=mk, rc=rc, st=st, ct=ct, dt=dt, pk=pk: tlc.run(
                'ServerStopMC', cfg_text=_stop_cfg(mk, rc, ct, inv=('PathDump',), dupterm=dt, pkill=pk, states=st), workers=3,
                name='stoppaths%d%s%s%s%s' % (mk, rc, ct, dt, pk), timeout=3000))
    res = jobs.wait()
    streams, pos, lens = res['rec']
    allowed = {'TRUE': collections.defaultdict(set), 'FALSE': collections.defaultdict(set)}
    for mk, rc, st in dumps:
        for ct, dt, pk in variants:
            r = res['p%d%s%s%s%s' % (mk, rc, ct, dt, pk)]
            if r.error or not r.tags.get('PATH'):
                raise MachineryError('path dump of ServerStop failed: %s\n%s' % (r.error, r.stdout[-1500:]))
            ev.add_tlc('path dump MaxKids=%d %s %s CtxTerm=%s DupTerm=%s ParentKill=%s: configuration -> outcomes' % (mk, rc, st, ct, dt, pk), r)
            for kk, vv in _c12_allowed(r).items():
                allowed['TRUE' if (ct, dt, pk) == ('TRUE', 'TRUE', 'TRUE') else 'FALSE'][kk] |= vv
    confs = sorted(allowed['TRUE'])
    k = 26 if tier == 'quick' else 300
    chosen = c12_select(confs, k, rng)
    tasks = []
    for i, (how, racer, kids) in enumerate(chosen):
        kl = [dict(state=x, persistent=(x in PERSISTENT_ONLY) or (x != 'orphan' and rng.random() < 0.5)) for x in kids]
        if racer != 'none':
            kl = kl + [dict(state='starting', persistent=False)]
        tasks.append(dict(id='c%d' % i, how=how, kids=kl, racer=racer, streams=streams, pos=pos, logdir=logdir))
    recs, _ = _played(R.pool_map('scenario_c12', tasks, logdir, nproc=12, task_timeout=240, budget=270 if tier == 'quick' else 3000), ev)

    # 2. collect the design runs
    dres = design.wait()
    r = dres['mc']
    ev.add_tlc('exhaustive: 0..%d children x 11 states x {terminate, sigterm, tshort, tgrace} x 4 start-up phases (proposed algorithm)' % (4 if tier == 'thorough' else 3), r)
    if tier != 'thorough':
        r4 = dres['mc4']
        ev.add_tlc('exhaustive: 0..4 children x 11 states x {terminate, sigterm, tshort, tgrace}, no racing start-up (proposed algorithm)', r4)
        if r4.error:
            raise MachineryError('ServerStop.tla violates its own properties: %s\n%s' % (r4.error, '\n'.join(r4.trace[:80])))
    if r.error:
        raise MachineryError('ServerStop.tla violates its own properties: %s\n%s' % (r.error, '\n'.join(r.trace[:80])))
    r = dres['live']
    ev.add_tlc('0..3 children with PROPERTY Live_Reaped under weak fairness (proposed algorithm)', r)
    if r.error:
        raise MachineryError('ServerStop.tla violates liveness: %s' % r.error)
    for w in wit:
        if dres['wits'][w].error != 'invariant:' + w:
            raise MachineryError('witness %s not reachable (vacuous model): %s' % (w, dres['wits'][w].error))
    ev.cov['witnesses'] = {w: 'reached' for w in wit}
    ev.cov['prefix_models_rejected'] = {}
    for v, rp_ in dres['prefix'].items():
        if not (rp_.error or '').startswith(('invariant:', 'temporal')):
            raise MachineryError('the algorithm with CtxTerm=%s DupTerm=%s ParentKill=%s is not rejected by the model checker (%s)' % (v[0], v[1], v[2], rp_.error))
        ev.cov['prefix_models_rejected']['CtxTerm=%s,DupTerm=%s,ParentKill=%s' % v] = rp_.error
    if not (dres['clearfirst'].error or '').startswith(('invariant:', 'temporal')):
        raise MachineryError('the mutant algorithm ClearFirst (finally clears `children` before reaping) is not rejected by the model checker')
    ev.cov['prefix_models_rejected']['ClearFirst=TRUE (mutant)'] = dres['clearfirst'].error
    if not (dres['cachedead'].error or '').startswith(('invariant:', 'temporal')):
        raise MachineryError('the mutant algorithm CacheDead (server-side worker marks itself dead after a failed terminate) is not rejected by the model checker')
    ev.cov['prefix_models_rejected']['CacheDead=TRUE (mutant)'] = dres['cachedead'].error
    if not (dres['noack'].error or '').startswith(('invariant:', 'temporal')):
        raise MachineryError('the mutant algorithm NoAckWait (half-started backend does not wait for the acknowledgement) is not rejected by the model checker')
    ev.cov['prefix_models_rejected']['NoAckWait=TRUE (mutant)'] = dres['noack'].error
    if not (dres['narrow'].error or '').startswith(('invariant:', 'temporal')):
        raise MachineryError('the mutant algorithm NarrowExcept (shutdown(SHUT_RD) failure not caught) is not rejected by the model checker')
    ev.cov['prefix_models_rejected']['NarrowExcept=TRUE (mutant)'] = dres['narrow'].error
    rp = dres['prefix'][('FALSE', 'FALSE', 'FALSE')]

    # 3. TLC judges every real execution with the C12 operators
    jrecs = [{'id': x['id'], 'prop': 'C12', 'scn': x['scn'], 'obs': x['obs']} for x in recs]
    fails, rj = tlc.judge('ServerJudge', jrecs, name='judge12')
    ev.add_tlc('judge: C12 operators on %d real executions' % len(recs), rj, role='judge')
    byid = collections.defaultdict(list)
    for rid, clause in fails:
        byid[rid].append(clause)
    recmap = {x['id']: x for x in recs}
    for rid, clauses in byid.items():
        x = recmap[rid]
        sig = c12_signature(x, clauses)
        what = ('%s violated: server with children %s%s stopped by %s: server gone=%s (stop call: %s, %.1f s), %d former descendant(s) alive 3 s later %s; parents saw %s'
                % (','.join(sorted(clauses)), [kk['state'] + ('/persistent' if kk['persistent'] == 'T' else '') for kk in x['scn']['kids']],
                   (' and a start-up in phase ' + x['scn']['racer']) if x['scn']['racer'] != 'none' else '', x['scn']['how'],
                   x['obs']['srv_dead'], x['notes']['stop'], x['notes'].get('stop_s', -1), x['obs']['left'], x['notes']['left_pids'],
                   [(o['wait'], o['alive'], o['has_error'], o['error'], 'blocked' if o['blocked'] == 'T' else '') for o in x['obs']['kids']]))
        violations.append(Violation('C12', sig, what, {'kind': 'C12', 'how': x['scn']['how'], 'racer': x['scn']['racer'],
                                                      'kids': [dict(state=kk['state'], persistent=kk['persistent'] == 'T') for kk in x['scn']['kids']]}))

    violations = confirm(ev, 'C12', violations, lambda rp, i: dict(id=i, how=rp['how'], kids=rp['kids'], racer=rp.get('racer', 'none'),
                                                                  streams=streams, pos=pos, logdir=logdir),
                         'scenario_c12', c12_signature, logdir)
    unconf12 = set(u['signature'] for u in ev.cov.get('unconfirmed_rejections', []))

    # 4. conformance
    conf = collections.Counter()
    for x in recs:
        key = (x['scn']['how'], x['scn']['racer'], tuple(kk['state'] for kk in x['scn']['kids'] if kk['state'] != 'starting'))
        s_ = _c12_obs_key(x['obs'], x['scn']['kids'])
        if s_ in allowed['TRUE'].get(key, ()):
            conf['as-proposed'] += 1
        elif s_ in allowed['FALSE'].get(key, ()):
            conf['as-written'] += 1
        elif x['id'] in byid and c12_signature(x, byid[x['id']]) in unconf12:
            conf['unconfirmed-timing'] += 1
        else:
            conf['drift'] += 1
            if len(drift) < 4:
                drift.append('real server deviates from ServerStop.tla: config %s real outcome %s; model allows %s (proposed) / %s (as written or partly fixed)'
                             % (key, s_, sorted(allowed['TRUE'].get(key, ()))[:3], sorted(allowed['FALSE'].get(key, ()))[:3]))
    ev.cov['traces_validated_against_impl'] = conf['as-proposed'] + conf['as-written']
    ev.cov['evaluations'] = len(recs)
    ev.cov['distinct_nontrivial'] = len(set((x['scn']['how'], x['scn']['racer'], tuple((kk['state'], kk['persistent']) for kk in x['scn']['kids']))
                                            for x in recs if any(kk['state'] not in ('finished', 'starting') for kk in x['scn']['kids']) and x['notes'].get('before', 0) > 0))
    ev.cov['rule'] = ('each case = (children in their states, one-shot/persistent, terminate()/SIGTERM, phase of a racing start-up) built on its own real server; '
                      'configurations enumerated by TLC (%d), %d selected greedily for balanced coverage of (state, stop kind), racer phase, number of children, mixtures; '
                      'non-trivial = at least one child was alive at the stop and the server had live descendants' % (len(confs), len(recs)))
    ev.cov['exhaustive'] = False
    ev.cov['conformance_counts'] = dict(conf)
    ev.cov['configurations_enumerated'] = len(confs)
    for x in recs[:3] + recs[-2:]:
        ev.sample({'scn': x['scn'], 'obs': x['obs'], 'stop_s': x['notes'].get('stop_s')})
    ev.sample({'tlc_counterexample_of_the_algorithm_as_written': [l for l in rp.trace if l.startswith(('State', '/\\ spc', '/\\ kid', '/\\ hst', '/\\ ost', '/\\ how'))][:50]})
    ev.assumptions += ['time abstraction: a process that reacts to the termination request exits before a 1 s time-out fires; every swallowing process costs its waiter one unit; the parent\'s join(5) expires after 4 units or when the server is blocked',
                       'former descendants are found by an environment tag (VF_SCN) inherited through spawn; multiprocessing resource trackers are not counted as workers',
                       'the worker whose start-up races with the stop is a scripted client (no parent-side object; its parent side is C20\'s subject)',
                       '"shortly afterwards" = 3 s after the server process is gone; parent-side calls are bounded by 5-8 s']
    return finish(ev, violations, T.s(), drift)


def _watchdog(prop, tier):
    """Whatever the tree under test does, a check ends: after the budget every thread's stack is printed (so that
    the place is known), the processes this check started are killed and the check exits 2."""
    import faulthandler
    import sys
    import time
    limit = float(os.environ.get('VERIF_WATCHDOG_S', 840 if tier == 'quick' else 7200))

    def bark():
        time.sleep(limit)
        print('MACHINERY-FAILURE: check %s (%s) did not finish within %d s; thread stacks follow' % (prop, tier, limit), flush=True)
        try:
            faulthandler.dump_traceback(file=sys.stdout, all_threads=True)
        except Exception:  # noqa
            pass
        sys.stdout.flush()
        mine = L.descendants(os.getpid())
        L.kill_pids(mine)
        os._exit(2)
    threading.Thread(target=bark, daemon=True).start()


def run(prop, tier, replay=None):
    _watchdog(prop, tier)
    if prop == 'C11':
        return run_c11(tier, replay)
    if prop == 'C12':
        return run_c12(tier, replay)
    if prop == 'C18':
        return run_c18(tier, replay)
    raise MachineryError('unknown property for this driver: ' + prop)
