SPECIFICATION Spec
CONSTANTS
  NF = 1
  Fixes <- Fix_none
  PlanSet <- Plans_all
  LateAfter = FALSE
  StepSend = FALSE
  LeakPop = FALSE
  CloseOnNone = FALSE
  CutIsNone = FALSE
INVARIANT TypeOK
INVARIANT Inv_ServerAlive
INVARIANT Inv_Others
INVARIANT Inv_Serves
PROPERTY Live_Serves
CHECK_DEADLOCK FALSE
