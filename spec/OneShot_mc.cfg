SPECIFICATION Spec
CONSTANTS
  Kind = "process"
  Persistent = FALSE
  Ending = "ret"
  Items = 0
  MaxTerm = 1
  MaxKill = 0
  Fixed = TRUE
INVARIANT Inv_C01_Definite
INVARIANT Inv_C01_Shape
INVARIANT Inv_C01_Undisturbed
INVARIANT Inv_C03_Reported
INVARIANT Inv_C03_NothingElse_KF
INVARIANT Inv_C06_Prefix
INVARIANT Inv_C06_Ends
INVARIANT Inv_C06_All
INVARIANT Inv_C16_Synced
INVARIANT Inv_C16_Initial
PROPERTY Live_Dies
CHECK_DEADLOCK FALSE
