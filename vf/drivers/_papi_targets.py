"""Targets run inside the children of the persistent-worker replays (C05, C17, C19).
Importable module (spawned children and remote backends unpickle the target by name)."""
import copy
import os
import time

BIG = 150001           # more than one read of a TCP socket, less than a socketpair buffer (a bigger unread result blocks the child: C02 territory)
_UNIT = bytes((i * 31 + 7) % 251 for i in range(251))
SPECIALS = ('@none', '@zero', '@empty', '@big')


def big_value():
    return (_UNIT * (BIG // 251 + 1))[:BIG]       # period 251: chunk boundaries practically never fall on a multiple of it


def _special(a):
    if a == '@none':
        return None
    if a == '@zero':
        return 0
    if a == '@empty':
        return ''
    return big_value()


def _stuck(flag):
    """Uncooperative target: ignores WorkerTerminatedError until the driver creates `flag`."""
    open(flag + '.started', 'w').close()
    while True:
        try:
            if os.path.exists(flag):
                return 'released'
            time.sleep(0.005)
        except BaseException:  # noqa - swallowing the termination request is the point
            pass


BUSY_S = 0.5        # the blocking step of a busy target
REBUILD_S = 0.8     # what the parent side needs to rebuild a slow result


def _busy(flag):
    """One blocking step that ends by itself; a termination request surfaces when it ends (not swallowed)."""
    open(flag + '.started', 'w').close()
    time.sleep(BUSY_S)
    return 'busydone'


def _rebuild(flag, pid, secs):
    if os.getpid() != pid:          # being rebuilt in another process (the frontend thread of the parent)
        open(flag + '.rebuilding', 'w').close()
        time.sleep(secs)
    return 'slowval'


class SlowRebuild:
    """A result that is cheap to produce and to send, but takes the receiving side a while to rebuild."""

    def __init__(self, flag):
        self.flag, self.pid = flag, os.getpid()

    def __reduce__(self):
        return (_rebuild, (self.flag, self.pid, REBUILD_S))


class TaskFailed(Exception):
    """The classic exception class that pickle cannot rebuild (it calls TaskFailed(msg))."""

    def __init__(self, task, reason):
        super().__init__('task %s failed: %s' % (task, reason))
        self.task, self.reason = task, reason


def _linger(flag):
    """Leaves a non-daemon thread behind: the process does not exit when the worker's loop has ended
    (bounded: the thread ends when `flag` appears, or after 20 s)."""
    import threading

    def stay():
        t0 = time.time()
        while not os.path.exists(flag) and time.time() - t0 < 20:
            time.sleep(0.01)
    threading.Thread(target=stay, name='left-behind', daemon=False).start()
    return 'lingering'


def echo(*args, **kwargs):
    """Returns what it was called with, so the merge of defaults and enqueued arguments is observed directly."""
    if args and isinstance(args[0], str):
        if args[0] == '@bad':
            raise TaskFailed('t1', 'bad input')
        if args[0] == '@linger':
            return _linger(args[1])
        if args[0] == '@busy':
            return _busy(args[1])
        if args[0] == '@slowres':
            return SlowRebuild(args[1])
        if args[0] in SPECIALS:
            return _special(args[0])
        if args[0] == '@raise':
            raise ValueError('poison item')
        if args[0] == '@stuck':
            return _stuck(args[1])
    return (list(args), dict(kwargs))


def echo_mut(*args, **kwargs):
    """Like echo, but afterwards damages every mutable argument it was given (a later call must not see that)."""
    if args and isinstance(args[0], str) and args[0] in SPECIALS:
        return _special(args[0])
    snap = (copy.deepcopy(list(args)), copy.deepcopy(dict(kwargs)))
    for x in args:
        if isinstance(x, list):
            x.append('m')
    for k in list(kwargs):
        if isinstance(kwargs[k], list):
            kwargs[k].append('m')
    kwargs['zz'] = ['m']
    return snap


def echo_slow(*args, **kwargs):
    """echo that takes a while: the caller can act while results are still owed."""
    time.sleep(0.25)
    return echo(*args, **kwargs)


def _explode(pid):
    if os.getpid() != pid:
        raise RuntimeError('this result cannot be rebuilt outside the process that made it')
    return 'exploding'


class BadRebuild:
    """A result the receiving side cannot unpickle."""

    def __init__(self):
        self.pid = os.getpid()

    def __reduce__(self):
        return (_explode, (self.pid,))


def bad_result(*args, **kwargs):
    """Target whose result cannot be rebuilt by the parent when asked for it ('@badresult'), else an echo."""
    if args and args[0] == '@badresult':
        return BadRebuild()
    return (list(args), dict(kwargs))


def ident(x=None):
    return x


def sleeper(flag):
    """One-shot target for registry histories: lives until the driver creates `flag`."""
    while not os.path.exists(flag):
        time.sleep(0.005)
    return 'done'


# Workers that implement their work by overriding run() (target=None, run=True), as Worker's documentation suggests.
# (pyworkers is importable wherever this module is imported: the drivers put the repository on the path first.)
try:
    from pyworkers.persistent_process import PersistentProcessWorker as _PP
    from pyworkers.persistent_remote import PersistentRemoteWorker as _PR
    from pyworkers.persistent_thread import PersistentThreadWorker as _PT

    class OwnRunThread(_PT):
        def run(self, *args, **kwargs):
            return echo(*args, **kwargs)

    class OwnRunProcess(_PP):
        def run(self, *args, **kwargs):
            return echo(*args, **kwargs)

    class OwnRunRemote(_PR):
        def run(self, *args, **kwargs):
            return echo(*args, **kwargs)
    OWNRUN = {'thread': OwnRunThread, 'process': OwnRunProcess, 'remote': OwnRunRemote}
except ImportError:      # imported somewhere without the repository on the path: only the plain targets are usable
    OWNRUN = {}
