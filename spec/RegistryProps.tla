---------------------------- MODULE RegistryProps ----------------------------
(* C19 as operators over an observable record r = [scn |-> ..., obs |-> ...].               *)
(* Workers are numbered in order of creation.                                               *)
(* obs.calls  one record per completed Worker.active_children() call:                       *)
(*   y        the workers it yielded, in order                                              *)
(*   lb, la   the workers alive when the call started / when it had returned (for a call    *)
(*            that runs concurrently with creations and deaths: lb = every worker that may  *)
(*            have been alive at some moment of the call, la = those alive throughout)      *)
(*   retained number of dead workers (not referenced by the program any more) that are      *)
(*            still held alive in memory right after the call                               *)
(*   died     number of workers that died while the call was in progress                    *)
(* obs.autos  one record per autoclose_active_children() block: after = the workers still   *)
(*            alive when the block has been left                                            *)
EXTENDS Naturals, Sequences, FiniteSets

Range(s) == {s[k] : k \in 1..Len(s)}

\* yields the workers that are alive, each once, and nothing else
C19_Exact(r) == \A k \in 1..Len(r.obs.calls) : LET c == r.obs.calls[k] IN
   /\ (Range(c.lb) \cap Range(c.la)) \subseteq Range(c.y)
   /\ Range(c.y) \subseteq (Range(c.lb) \cup Range(c.la))
   /\ Len(c.y) = Cardinality(Range(c.y))

\* dead workers are dropped: after a call nothing dead is retained except what died during it
C19_Bounded(r) == \A k \in 1..Len(r.obs.calls) : r.obs.calls[k].retained <= r.obs.calls[k].died

C19_Autoclose(r) == \A k \in 1..Len(r.obs.autos) : Len(r.obs.autos[k].after) = 0
=============================================================================
