----------------------------- MODULE FramingMC -----------------------------
EXTENDS Framing, Json, IOUtils
\* exhaustive: every message sequence of 1..2 messages with body lengths 0..3, plus one of 3 messages
Lens_small == {<<a>> : a \in 0..3} \cup {<<a, b>> : a \in 0..3, b \in 0..2} \cup {<<1, 0, 2>>, <<2, 2, 1>>}
\* replay: body lengths of real pickle frames (None = 4 bytes, 0 = 5, 'a' = 6 ...)
Lens_replay == {<<4>>, <<5, 4>>}
Lens_replay_thorough == {<<4>>, <<5, 4>>, <<4, 5>>, <<5, 5>>}
Lens_env == LET s == JsonDeserialize(IOEnv.LENS_FILE) IN {s[k] : k \in 1..Len(s)}
Lens_big == {<<70000>>, <<300, 66000, 5>>, <<520000, 4>>}
=============================================================================
