----------------------------- MODULE ServerStop -----------------------------
(* Stopping the remote server: RemoteServerProcess.terminate(timeout=5, force=True) on the  *)
(* parent side, the SIGTERM handler installed by install_handlers(), and the `finally` block *)
(* of RemoteServer.run, against 0..4 children in mixed states plus (optionally) one worker    *)
(* in the middle of its start-up.  One action per critical section:                           *)
(*   Request      parent: 'terminate' on the control pipe -> the server's control thread sets *)
(*                WorkerTerminatedError (WTE) as an asynchronous exception of the accept       *)
(*                thread and makes a dummy connect                                             *)
(*   Deliver      the accept thread sees the WTE (only when it is not blocked in a system call *)
(*                other than the accept of the listening socket) -> `finally`                  *)
(*   FinChild     `finally`, one child of `children`: terminate(timeout=1, force=True,         *)
(*                _release_remote_ctrl=True): WTE into the backend; a cooperative backend      *)
(*                reports (False, WTE) and exits; one that swallows is SIGTERMed after 1 s and *)
(*                the server fabricates (False, None) on the data socket                       *)
(*   FinHelper    `finally`, one context: terminate(timeout=1, force=True) of the helper       *)
(*                process: WTE into the helper, whose own clean-up (HClean, one action per     *)
(*                worker of the context, same 1 s rule) races with the server's 1 s join:      *)
(*                KillHelper = the helper is SIGTERMed in the middle of its clean-up           *)
(*   JoinTimeout  parent: join(5) expired -> SIGTERM to the server process                      *)
(*   Handler      SIGTERM handler: SIGTERM to every live child in `children` (NOT the           *)
(*                contexts), then the default action: the server process dies at once           *)
(*   ExitJoin     run() has returned: multiprocessing's exit function joins every non-daemonic   *)
(*                child process - an orphan helper (built for a refused duplicate registration,   *)
(*                in no table, never terminated) or a half-started backend (waiting for its       *)
(*                acknowledgement) never ends, so the server hangs there until a SIGTERM arrives   *)
(*   Exit         the server process is gone: pipes to helpers / half-started backends close:   *)
(*                a half-started backend dies, an idle helper runs its clean-up undisturbed     *)
(* A SIGTERM that finds the accept thread blocked in a system call with the WTE pending is USED   *)
(* UP delivering the WTE (the Python-level handler is aborted by the asynchronous exception at    *)
(* its first instruction); the parent sends only one.                                             *)
(* Time: a cooperative process that received WTE finishes before any 1 s time-out fires; each   *)
(* swallowing process costs the one who waits for it one unit (`elapsed`); the parent's 5 s      *)
(* join expires once the server has used 4 units, or when the server is blocked.                *)
(* Stop kind "tgrace" = terminate(timeout=5, force=False): the graceful request only - no SIGTERM, no SIGKILL  *)
(* ever follows, so a server that hangs in its exit join (orphan helper of a refused duplicate) stays for ever. *)
(* Stop kinds: "terminate" = terminate(timeout=5, force=True); "sigterm"; "tshort" = terminate with  *)
(* a short time-out (0.3 s): the parent's join expires while the server is still inside its `finally` *)
(* loop, so the SIGTERM handler runs in the middle of it.  Handler and loop share `self.children`:     *)
(* as written the loop clears the list only after it has reaped everything.  Mutant switch ClearFirst  *)
(* (TLC must reject it): the loop takes the lists over and clears them BEFORE reaping - a handler that  *)
(* runs during the loop then finds nothing to kill and the children not yet reaped outlive the server.  *)
(* Child states "swallow-gone" / "coop-gone": a persistent worker busy in a swallowing / cooperative     *)
(* target whose CLIENT process has been killed: the client's data socket has linger 0, so the           *)
(* server-side socket is reset and shutdown(SHUT_RD) in _release_child fails with ENOTCONN (a plain      *)
(* OSError, caught as written).  Mutant switch NarrowExcept (TLC must reject it): only ConnectionError   *)
(* is caught there, so terminate() of that child raises right after sending the request - before the      *)
(* join and the forced kill - and the bare `except:` of the finally loop also skips the                   *)
(* `if child.is_alive(): os.kill()` backstop: a swallowing backend is never killed, the server hangs in   *)
(* its exit join until the parent's SIGTERM (whose handler finds `children` already cleared).             *)
(* Mutant switch NoAckWait (TLC must reject it): the backend does not wait for the server's acknowledgement   *)
(* after reporting its runtime info, so a half-started backend (spawned, not yet in `children`) does not end   *)
(* when the server's end of the pipe closes: it runs its target and outlives the server.                        *)
(* Child state "swallow-t": a swallowing worker that has already survived a graceful terminate(timeout,       *)
(* force=False) of its parent (which correctly returned False) before the stop.  Mutant switch CacheDead        *)
(* (TLC must reject it): the server-side object marks itself dead after ANY terminate, so both shutdown paths    *)
(* (is_alive() in the finally loop and in the SIGTERM handler) skip the live child.                              *)
(* Fix switches: CtxTerm (proposed_fixes/C12_context_helper_*.diff): a helper that is SIGTERMed   *)
(* kills the backends it started (as the server's own handler does) before it dies; DupTerm        *)
(* (proposed_fixes/C12_rejected_duplicate_*.diff): the context built for a refused duplicate        *)
(* registration is terminated at once, so no orphan helper exists; ParentKill (committed for C04:    *)
(* ProcessWorker.terminate escalates to SIGKILL when the child survives SIGTERM + join).             *)
EXTENDS Naturals, Sequences, FiniteSets, TLC, ServerProps

CONSTANTS MaxKids, KidStates, Racers, CtxTerm, DupTerm, ParentKill, ClearFirst, NarrowExcept, NoAckWait, CacheDead

CtxKinds == <<"inctx", "inctx-coop", "inctx-swallow">>      \* one context (helper) per kind, in `contexts` order
IsCtx(s) == s \in {"inctx", "inctx-coop", "inctx-swallow"}
Swallows(s) == s \in {"swallow", "inctx-swallow", "swallow-gone", "swallow-t"}
OwnerGone(s) == s \in {"swallow-gone", "coop-gone"}
ThinksDead(s) == CacheDead /\ s = "swallow-t"          \* the server-side object's is_alive() says False although the backend runs

VARIABLES how, kid, racer,      \* the configuration
          ost,                  \* kid -> "run" | "dead"                      (OS truth about its backend)
          rep,                  \* kid -> "none" | "WTE" | "own"              (what reached the parent on the data socket)
          spc,                  \* server: "serving" | "blocked" | "fin" | "exiting" | "dead"
          fi,                   \* position of `finally` in  children ++ contexts
          hst,                  \* helper (1..3) -> "none" | "idle" | "clean" | "dead"
          hj,                   \* helper -> next of its workers to clean up
          req, sig, sigused,    \* terminate requested / SIGTERM pending for the server / the parent has sent its one SIGTERM
          waiting,              \* `finally` is inside the 1 s join of a swallowing child (WTE sent, not yet killed)
          elapsed,              \* seconds the server spent waiting for swallowing processes
          rk                    \* racer's backend: "none" | "spawned" (not yet in `children`) | "appended" | "dead"
vars == <<how, kid, racer, ost, rep, spc, fi, hst, hj, req, sig, sigused, waiting, elapsed, rk>>

N == Len(kid)
Direct == {k \in 1..N : ~IsCtx(kid[k]) /\ kid[k] # "orphan"}     \* "orphan": helper built for a refused duplicate registration
KidsOf(h) == {k \in 1..N : kid[k] = CtxKinds[h]}
\* `finally` walks children (index order) and then the contexts
FinSeq == [i \in 1..(N + 3) |-> IF i <= N THEN [t |-> "kid", x |-> i] ELSE [t |-> "helper", x |-> i - N]]

Init == /\ how \in {"terminate", "sigterm", "tshort", "tgrace"}
        /\ kid \in UNION {[1..m -> KidStates] : m \in 0..MaxKids}
        /\ racer \in Racers
        /\ how \in {"tshort", "tgrace"} => racer = "none"
        /\ ost = [k \in 1..Len(kid) |-> IF kid[k] = "finished" \/ (kid[k] = "orphan" /\ DupTerm) THEN "dead" ELSE "run"]
        /\ rep = [k \in 1..Len(kid) |-> IF kid[k] = "finished" THEN "own" ELSE "none"]
        /\ spc = (IF racer = "addr" THEN "blocked" ELSE "serving")       \* "addr": accept() of a control socket nobody connects to
        /\ fi = 1
        /\ hst = [h \in 1..3 |-> IF \E k \in 1..Len(kid) : kid[k] = CtxKinds[h] THEN "idle" ELSE "none"]
        /\ hj = [h \in 1..3 |-> 1]
        /\ req = FALSE /\ sig = (how = "sigterm") /\ sigused = FALSE /\ waiting = FALSE /\ elapsed = 0
        /\ rk = (IF racer = "spawned" THEN "spawned" ELSE IF racer = "appended" THEN "appended" ELSE "none")

-----------------------------------------------------------------------------
Request == /\ how \in {"terminate", "tshort", "tgrace"} /\ ~req /\ spc # "dead"
           /\ req' = TRUE
           /\ UNCHANGED <<how, kid, racer, ost, rep, spc, fi, hst, hj, sig, sigused, waiting, elapsed, rk>>
\* the racer's handshake moves on while the server is not yet stopping (S3d..S3g)
Handshake == /\ spc = "serving" /\ rk = "spawned"
             /\ rk' = "appended"
             /\ UNCHANGED <<how, kid, racer, ost, rep, spc, fi, hst, hj, req, sig, sigused, waiting, elapsed>>
\* the asynchronous WTE reaches the accept thread (a blocked one only once a signal interrupts its system call)
ExitBlocked == (\E k \in 1..N : (kid[k] = "orphan" \/ k \in Direct) /\ ost[k] = "run") \/ rk = "spawned"
Deliver == /\ req /\ (spc = "serving" \/ (spc = "blocked" /\ sig))
           /\ spc' = "fin" /\ fi' = 1
           /\ sig' = (IF spc = "blocked" THEN FALSE ELSE sig)        \* the signal is used up aborting its own handler
           /\ UNCHANGED <<how, kid, racer, ost, rep, hst, hj, req, sigused, waiting, elapsed, rk>>
JoinTimeout == /\ req /\ ~sigused /\ spc # "dead" /\ how # "tgrace"
               /\ spc = "blocked" \/ elapsed >= 4 \/ (spc = "exiting" /\ ExitBlocked) \/ how = "tshort"
               /\ sig' = TRUE /\ sigused' = TRUE
               /\ UNCHANGED <<how, kid, racer, ost, rep, spc, fi, hst, hj, req, waiting, elapsed, rk>>
\* parent, after SIGTERM + a second join(5) that expired: SIGKILL (only reached with the server stuck in its exit)
ParentKillStep == /\ ParentKill /\ req /\ sigused /\ ~sig /\ spc = "exiting" /\ ExitBlocked
                  /\ spc' = "dead"
                  /\ UNCHANGED <<how, kid, racer, ost, rep, fi, hst, hj, req, sig, sigused, waiting, elapsed, rk>>
\* SIGTERM handler: kills `children` (the racer's backend only if already appended), not the contexts; then dies
\* is there anything in self.children for the handler to walk?  (as written the loop clears the list when it is through)
Listed == spc # "exiting" /\ ~(ClearFirst /\ spc = "fin")
Handler == /\ sig /\ spc # "dead" /\ ~(spc = "blocked" /\ req)
           /\ ost' = [k \in 1..N |-> IF k \in Direct /\ Listed /\ ~ThinksDead(kid[k]) THEN "dead" ELSE ost[k]]
           /\ rk' = (IF rk = "appended" /\ Listed THEN "dead" ELSE rk)
           /\ spc' = "dead" /\ waiting' = FALSE
           /\ UNCHANGED <<how, kid, racer, rep, fi, hst, hj, req, sig, sigused, elapsed>>

\* one process asked to stop with WTE and given 1 s: (new OS state, what it reported, seconds used)
FinChild ==
   /\ spc = "fin" /\ fi <= N + 3 /\ FinSeq[fi].t = "kid"
   /\ LET k == fi IN
      IF k \notin Direct \/ ost[k] = "dead" \/ ThinksDead(kid[k])
      THEN UNCHANGED <<ost, rep, elapsed, waiting>> /\ fi' = fi + 1      \* not in `children` / is_alive() is False
      ELSE IF NarrowExcept /\ OwnerGone(kid[k])
      THEN /\ ost' = [ost EXCEPT ![k] = IF Swallows(kid[k]) THEN "run" ELSE "dead"]   \* request sent, then OSError: no join, no kill, no backstop
           /\ rep' = [rep EXCEPT ![k] = IF Swallows(kid[k]) THEN "none" ELSE "WTE"]
           /\ fi' = fi + 1 /\ UNCHANGED <<elapsed, waiting>>
      ELSE IF ~Swallows(kid[k])
      THEN /\ ost' = [ost EXCEPT ![k] = "dead"] /\ rep' = [rep EXCEPT ![k] = "WTE"]
           /\ fi' = fi + 1 /\ UNCHANGED <<elapsed, waiting>>
      ELSE IF ~waiting
      THEN waiting' = TRUE /\ elapsed' = elapsed + 1 /\ UNCHANGED <<ost, rep, fi>>   \* WTE sent; join(1) running
      ELSE /\ ost' = [ost EXCEPT ![k] = "dead"] /\ waiting' = FALSE                  \* SIGTERM; (False, None) fabricated
           /\ fi' = fi + 1 /\ UNCHANGED <<rep, elapsed>>
   /\ UNCHANGED <<how, kid, racer, spc, hst, hj, req, sig, sigused, rk>>
\* the racer's worker, if it made it into `children`, is terminated like any other (its target has long returned)
FinHelperStart ==
   /\ spc = "fin" /\ fi <= N + 3 /\ FinSeq[fi].t = "helper"
   /\ LET h == FinSeq[fi].x IN
      IF hst[h] = "idle" THEN hst' = [hst EXCEPT ![h] = "clean"] /\ UNCHANGED fi     \* WTE into the helper: its clean-up starts
      ELSE IF hst[h] = "clean" THEN FALSE                                            \* joined below
      ELSE fi' = fi + 1 /\ UNCHANGED hst
   /\ UNCHANGED <<how, kid, racer, ost, rep, spc, hj, req, sig, sigused, waiting, elapsed, rk>>
\* helper clean-up: its workers in order
NextOf(h) == IF \E k \in KidsOf(h) : k >= hj[h] THEN CHOOSE k \in KidsOf(h) : k >= hj[h] /\ \A m \in KidsOf(h) : m >= hj[h] => k <= m ELSE 0
HClean(h) ==
   /\ hst[h] = "clean"
   /\ LET k == NextOf(h) IN
      IF k = 0
      THEN /\ hst' = [hst EXCEPT ![h] = "dead"]                     \* clean-up complete: the helper exits; join returns
           /\ fi' = IF spc = "fin" /\ fi <= N + 3 /\ FinSeq[fi] = [t |-> "helper", x |-> h] THEN fi + 1 ELSE fi
           /\ UNCHANGED <<ost, rep, hj>>
      ELSE /\ ost' = [ost EXCEPT ![k] = "dead"]
           /\ rep' = [rep EXCEPT ![k] = IF ost[k] = "dead" THEN rep[k] ELSE IF Swallows(kid[k]) THEN "none" ELSE "WTE"]
           /\ hj' = [hj EXCEPT ![h] = k + 1]
           /\ UNCHANGED <<hst, fi>>
   /\ UNCHANGED <<how, kid, racer, spc, req, sig, sigused, waiting, elapsed, rk>>
\* the server's 1 s join on the helper expires while the helper waits for a swallowing worker: SIGTERM to the helper
KillHelper(h) ==
   /\ spc = "fin" /\ fi <= N + 3 /\ FinSeq[fi] = [t |-> "helper", x |-> h]
   /\ hst[h] = "clean" /\ NextOf(h) # 0 /\ Swallows(kid[NextOf(h)])
   /\ hst' = [hst EXCEPT ![h] = "dead"]
   /\ ost' = IF CtxTerm THEN [k \in 1..N |-> IF k \in KidsOf(h) THEN "dead" ELSE ost[k]] ELSE ost
   /\ elapsed' = elapsed + 1
   /\ fi' = fi + 1
   /\ UNCHANGED <<how, kid, racer, rep, spc, hj, req, sig, sigused, waiting, rk>>
FinEnd == /\ spc = "fin" /\ fi = N + 4
          /\ spc' = "exiting"
          /\ rk' = (IF rk = "appended" THEN "dead" ELSE rk)
          /\ UNCHANGED <<how, kid, racer, ost, rep, fi, hst, hj, req, sig, sigused, waiting, elapsed>>
\* run() has returned; the interpreter's exit joins the non-daemonic children
ExitJoin == /\ spc = "exiting" /\ ~ExitBlocked
            /\ spc' = "dead"
            /\ UNCHANGED <<how, kid, racer, ost, rep, fi, hst, hj, req, sig, sigused, waiting, elapsed, rk>>
\* consequences of the server process being gone
ExitEffects ==
   /\ spc = "dead"
   /\ \/ /\ rk = "spawned" /\ ~NoAckWait /\ rk' = "dead" /\ UNCHANGED <<hst, ost>>     \* half-started backend: EOF on its pipe while it waits for the ack
      \/ /\ \E h \in 1..3 : hst[h] = "idle" /\ hst' = [hst EXCEPT ![h] = "clean"]   \* helper: EOF on its args pipe
         /\ UNCHANGED <<rk, ost>>
      \/ /\ \E k \in 1..N : kid[k] = "orphan" /\ ost[k] = "run" /\ ost' = [ost EXCEPT ![k] = "dead"]   \* orphan helper: same
         /\ UNCHANGED <<rk, hst>>
   /\ UNCHANGED <<how, kid, racer, rep, spc, fi, hj, req, sig, sigused, waiting, elapsed>>

Next == Request \/ Handshake \/ Deliver \/ JoinTimeout \/ ParentKillStep \/ Handler \/ FinChild \/ FinHelperStart
        \/ (\E h \in 1..3 : HClean(h) \/ KillHelper(h)) \/ FinEnd \/ ExitJoin \/ ExitEffects
Spec == Init /\ [][Next]_vars /\ WF_vars(Next)

-----------------------------------------------------------------------------
Terminal == ~ENABLED Next
KidObs(k) == IF ost[k] = "dead"
             THEN [os_dead |-> "T", wait |-> "T", alive |-> "F", has_error |-> IF rep[k] = "own" THEN "F" ELSE "T",
                   error |-> IF rep[k] = "WTE" THEN "WTE" ELSE "None", blocked |-> "F"]
             \* a backend that outlives the server keeps a duplicate of the control socket open: the parent's wait() never returns
             ELSE [os_dead |-> "F", wait |-> "hang", alive |-> "T", has_error |-> "None", error |-> "None", blocked |-> "T"]
Left == Cardinality({k \in 1..N : ost[k] # "dead"}) + (IF rk \in {"spawned", "appended"} THEN 1 ELSE 0)
Rec == [scn |-> [how |-> how, racer |-> racer,
                 kids |-> [k \in 1..N |-> [state |-> kid[k], parent |-> IF kid[k] = "orphan" \/ OwnerGone(kid[k]) THEN "F" ELSE "T"]]],
        obs |-> [srv_dead |-> IF spc = "dead" THEN "T" ELSE "F", left |-> Left,
                 kids |-> [k \in 1..N |-> KidObs(k)]]]

TypeOK == /\ spc \in {"serving", "blocked", "fin", "exiting", "dead"} /\ fi \in 1..(N + 4) /\ elapsed \in 0..8
          /\ \A k \in 1..N : ost[k] \in {"run", "dead"} /\ rep[k] \in {"none", "WTE", "own"}
Inv_Reaped      == Terminal => C12_Reaped(Rec)
Inv_ParentsKnow == Terminal => C12_ParentsKnow(Rec)
Inv_ErrorKind   == Terminal => C12_ErrorKind(Rec)
Inv_NoBlock     == Terminal => C12_NoParentBlock(Rec)
Live_Reaped     == <>(spc = "dead" /\ Left = 0)

\* ---- witnesses (expected to be violated) ----
W_NoKillHelper   == ~(\E h \in 1..3 : ENABLED KillHelper(h))
W_NoJoinTimeout  == ~(sig /\ how = "terminate")
W_NoHalfStarted  == ~(spc = "dead" /\ rk = "spawned")
W_NoGracefulCtx  == ~(Terminal /\ \E k \in 1..N : IsCtx(kid[k]) /\ rep[k] = "WTE" /\ how = "sigterm")
W_NoExitHang     == ~(spc = "exiting" /\ ExitBlocked)
W_NoSignalUsedUp == ~(spc = "fin" /\ sigused /\ ~sig /\ racer = "addr")
W_NoGracefulExit == ~(how = "tgrace" /\ spc = "dead")
W_NoHandlerInLoop == ~(sig /\ spc = "fin" /\ how = "tshort" /\ waiting)
W_NoForced       == ~(Terminal /\ \E k \in 1..N : kid[k] = "swallow" /\ ost[k] = "dead")
=============================================================================
