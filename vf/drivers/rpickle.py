"""C13, C14, C15 - pyworkers.remote_pickle.

spec/RemotePickle.tla models (i) the opt-in classification (MRO scan of the metaclass),
(ii) the pickler's dispatch per type kind, (iii) the dump walk with memo and (iv) the
thread-local patch-frame machine of loads().  For one property and tier:

 1. TLC explores the model of the code as written over the complete scenario set
    (RemotePickleMC.tla) with the property operators of RemotePickleProps.tla as invariants
    - strict where the code satisfies them on every shape, weakened by exactly the shapes
    of known_findings.d/rpickle.json where it does not - and prints every terminal state
    as a CASE (scenario + the outcome the model predicts);
 2. TLC checks the corrected design (Algo = "fixed", SeedCopyreg = TRUE) with all
    operators as strict invariants, must reject the strict invariants on the code as
    written (vacuity), and must reach every witness;
 3. every CASE becomes REAL generated classes / object graphs (_rpickle_gen.py) and runs
    through the real remote_pickle.dumps/loads (protocols, container types, thread
    nesting points are expanded here);
 4. TLC judges the projected (scn, obs) records with the SAME operators
    (RemotePickleJudge.tla): a rejected record is a VIOLATION unless its signature is listed;
 5. conformance: the real outcome must equal the model's outcome for the same scenario
    (mismatch = DRIFT, exit code unaffected)."""
import json
import multiprocessing
import os
import re
import threading

from .. import tlc
from ..common import REPO, VERIF, MachineryError, Timer, ensure_repo_on_path, seed
from ..report import Evidence, Violation, finish
from . import _rpickle_gen as G

_T = ('TLA+ spec RemotePickle.tla (classification scan, pickler dispatch, dump walk with memo, thread-local patch-frame '
      'machine of loads) model-checked with TLC over complete sets of class hierarchies / type kinds / object graphs / '
      'patch dictionaries / load sequences; every TLC terminal state is turned into real generated classes and object '
      'graphs and run through the real remote_pickle; TLC judges every real execution with the same property operators '
      '(RemotePickleJudge) and the real outcome is compared with the model outcome (conformance)')
CHECKS = {
    'C13': dict(
        engine='RemotePickle',
        technique=_T,
        text='Exhaustive TLC model checking of opt-in classification (every hierarchy of <= 3 (thorough: 4) classes over {no getstate, getstate, getstate(remote), getstate(**kw), __reduce__}, marker-derived or duck-typed) and of the pickler dispatch per type kind, bound to the code by replaying every TLC state as generated classes / graphs / standard-library values (datetime, Decimal, Enum, dataclass, namedtuple, exceptions, by-reference objects, copyreg types) x protocols 2-5 x remote True/False; the oracle is pickle itself (equal_to_pickle), read by the TLA+ operators.',
        note='Trusted: TLC, pickle as oracle, the structural comparison of round-tripped values. The spec decides which path each object takes; byte-level fidelity of each path is pickle\'s. Bounds: hierarchies <= 4 classes, graphs <= 4 nodes, the listed menu.',
        design_ref='6/C13'),
    'C14': dict(
        engine='RemotePickle',
        technique=_T,
        text='Exhaustive TLC model checking of dump (memo, getstate(remote) call log, children_names) and of the load-time frame stack machine over every graph shape within the bounds (<= 4 nodes (thorough: 5), opt-in / plain / container nodes, shared, cyclic and self references, classes with and without __setstate__, dict and non-dict states, marker-derived and duck-typed), every shape replayed as a real object graph through the real dumps/loads and judged by TLC.',
        note='Trusted: TLC, the projection of the loaded graph (object identity by tag attributes). Bounds: <= 4 (5) nodes, <= 1 (2) extra references per graph; containers list/tuple/dict.',
        design_ref='6/C14'),
    'C15': dict(
        engine='RemotePickle',
        technique=_T,
        text='Exhaustive TLC model checking of the patch-frame machine (context init/enter/exit, break_patches, patched_setstate, child_restored, close_current_ctx) over graph shapes x patch dictionaries (top-level keys, dict under k for a direct child / a non-opt-in entry / a missing key, values replacing children, nested levels) x sequences of loads on one thread including failing ones (raising __setstate__, truncated stream at every event) x two threads; every state replayed on the real loads, each load repeated on a fresh thread; the corrected frame discipline is verified by TLC on the same space.',
        note='Trusted: TLC, the projection of the loaded graph, thread nesting (load 2 runs inside an event of load 1) as the realisable interleavings. For an object stored in several places the patch address is the first holder pickle meets. Bounds as C14; sequences <= 2 (3) loads.',
        design_ref='6/C15'),
}

_FAMILY_RULE = ('each case = one TLC terminal state (scenario) x protocol x container type x thread nesting point, executed on the real '
                'code; non-trivial = a class hierarchy with at least one __getstate__/__reduce__ feature, a non-atomic menu value, '
                'or a graph with an opt-in object or >= 2 nodes; distinct = distinct (scenario, protocol, container type, nesting point)')


def _cfg(name):
    with open(os.path.join(tlc.SPEC, name)) as f:
        return f.read()


_RE_INIT = re.compile(r'Finished computing initial states: (\d+) distinct state')


def _model_asis(rpset, workers, out, timeout):
    r = tlc.run('RemotePickleMC', 'RemotePickle_asis.cfg', env={'RP_SET': rpset}, workers=workers, timeout=timeout,
                name='asis', must_complete=False)
    out['asis'] = r


def _model_fixed(rpset, workers, out, timeout):
    out['fixed'] = tlc.run('RemotePickleMC', 'RemotePickle_fixed.cfg', env={'RP_SET': rpset}, workers=workers,
                           timeout=timeout, name='fixed', must_complete=False)


def _model_reject(prop, out):
    """The strict invariants of this property on the model of the code as written: TLC must reject."""
    text = _cfg('RemotePickle_fixed.cfg').replace('Algo = "fixed"', 'Algo = "asis"').replace('SeedCopyreg = "live"', 'SeedCopyreg = "none"').replace('KwOnlyOK = TRUE', 'KwOnlyOK = FALSE')
    text = '\n'.join(l for l in text.splitlines() if not l.startswith('INVARIANT Inv_C') or l.startswith('INVARIANT Inv_' + prop)) + '\n'
    out['reject'] = tlc.run('RemotePickleMC', cfg_text=text, env={'RP_SET': 'wit'}, workers=1, timeout=900,
                            name='reject', must_complete=False)


def _model_reject_guard(out):
    """The corrected design with a context.__init__ that refuses to start on the left-over of a failed load
    (InitGuard = TRUE): TLC must reject `FailedLoad ; Load`."""
    text = _cfg('RemotePickle_fixed.cfg').replace('InitGuard = FALSE', 'InitGuard = TRUE')
    out['reject_guard'] = tlc.run('RemotePickleMC', cfg_text=text, env={'RP_SET': 'wit'}, workers=1, timeout=900,
                                  name='rejectguard', must_complete=False)


def _model_reject_shared(prop, out):
    """The code as written with ONE load context for the whole process instead of a threading.local (SharedCtx = TRUE):
    TLC must reject the interleavings of two loading threads, on shapes outside the known findings."""
    text = _cfg('RemotePickle_asis.cfg').replace('SharedCtx = FALSE', 'SharedCtx = TRUE')
    keep = ('INVARIANT Inv_' + prop, 'INVARIANT AsIs_' + prop)
    text = '\n'.join(l for l in text.splitlines() if not l.startswith('INVARIANT') or l.startswith(keep)) + '\n'
    out['reject_shared'] = tlc.run('RemotePickleMC', cfg_text=text, env={'RP_SET': 'par'}, workers=1, timeout=900,
                                   name='rejectshared', must_complete=False)


def _model_reject_kwonly(prop, out):
    """remote_reduce before repo commit 35e075b (KwOnlyOK = FALSE: keyword-only __getnewargs_ex__ -> RuntimeError) on the
    otherwise corrected design: TLC must reject it."""
    text = _cfg('RemotePickle_fixed.cfg').replace('KwOnlyOK = TRUE', 'KwOnlyOK = FALSE')
    out['reject_kwonly'] = tlc.run('RemotePickleMC', cfg_text=text, env={'RP_SET': 'wit'}, workers=1, timeout=900,
                                   name='rejectkwonly', must_complete=False)


def _model_reject_cachebyid(prop, out):
    """The opt-in check cache keyed by the address of the class (CacheById = TRUE): after short-lived classes were
    pickled and dropped, a new opt-in class can be answered with their stale entry - TLC must reject it."""
    text = _cfg('RemotePickle_fixed.cfg').replace('CacheById = FALSE', 'CacheById = TRUE')
    out['reject_cachebyid'] = tlc.run('RemotePickleMC', cfg_text=text, env={'RP_SET': 'wit'}, workers=1, timeout=900,
                                      name='rejectcachebyid', must_complete=False)


def _model_wit(out):
    out['wit'] = tlc.run('RemotePickleMC', 'RemotePickle_wit.cfg', env={'RP_SET': 'wit'}, workers=1, timeout=900,
                         name='wit', must_complete=False)


def _model_live(out):
    out['live'] = tlc.run('RemotePickleMC', 'RemotePickle_live.cfg', env={'RP_SET': 'wit'}, workers=4, timeout=900,
                          name='live', must_complete=False)


def _cases(r, what):
    if r.error:
        raise MachineryError('%s: TLC reports %s\n%s' % (what, r.error, '\n'.join(r.trace[:60]) or r.stdout[-2500:]))
    if not r.completed:
        raise MachineryError('%s: TLC did not complete\n%s' % (what, r.stdout[-2000:]))
    cases = [json.loads(c[0]) for c in r.tags.get('CASE', [])]
    m = _RE_INIT.search(r.stdout)
    if not m or int(m.group(1)) != len(cases):
        raise MachineryError('%s: %s scenarios but %d CASE lines' % (what, m.group(1) if m else '?', len(cases)))
    cases.sort(key=lambda c: json.dumps(c['scn'], sort_keys=True))
    return cases


def _exec(job):
    scn, nest = job
    try:
        obs = G.run_scn(scn, nest)
        obs.pop('_stream', None)
        return obs
    except MachineryError as e:
        return {'_machinery': str(e)}
    except BaseException as e:  # noqa
        import traceback
        return {'_machinery': 'harness exception: %r\n%s' % (e, traceback.format_exc()[-1500:])}


def _events(job):
    try:
        return G.count_load_events(job)
    except BaseException as e:  # noqa
        return 0


def _expand(prop, tier, cases, pool):
    """(case index, scn with proto/ctype, nest_at) for every real execution."""
    jobs = []
    protos_all = (2, 3, 4, 5)
    # C13: every protocol argument pickle accepts ("None" = the default; -1 = the highest)
    protos13 = (0, 1, 2, 3, 4, 5, 'None', -1)
    ctypes = ('list', 'tuple', 'dict')
    par_idx = [n for n, c in enumerate(cases) if c['scn']['t'] == 'graph' and c['scn']['par']]
    nev = dict(zip(par_idx, pool.map(_events, [dict(cases[n]['scn'], proto=4, ctype='list') for n in par_idx], chunksize=16))) if par_idx else {}
    for n, c in enumerate(cases):
        scn = c['scn']
        t = scn['t']
        if t == 'leaf':
            ps = (0, 1) if scn['pclass'] == 'low' else (2, 3, 4, 5, 'None', -1)
            if tier == 'quick' and scn['pclass'] == 'high':
                ps = (2 + n % 4, ('None', -1)[n % 2])
        elif t == 'cls':
            ps = protos13 if tier == 'thorough' else (protos13[n % 8],)
        elif prop == 'C13':
            ps = protos13 if tier == 'thorough' else (protos13[n % 8], protos13[(n + 3) % 8])
        else:
            ps = (2 + n % 4,) if tier == 'quick' else (2 + n % 4, 2 + (n + 1) % 4)
        if t == 'graph' and any(nd.get('fs', 'no') != 'no' for nd in scn['g']):
            # falsy states / __getnewargs__ classes only at protocols >= 2: at 0 and 1 pickle's own copyreg._reduce_ex ignores
            # __getnewargs__ and drops a falsy state, while remote_reduce always reduces the protocol-2 way
            ps = tuple(q if q not in (0, 1) else 2 + q for q in ps)
        for j, p in enumerate(ps):
            if t != 'graph':
                jobs.append((n, dict(scn, proto=p, **({'api': 'file'} if (n + 2 * j) % 3 == 0 else {})), None))
                continue
            cts = (ctypes[(n + j) % 3],) if (tier == 'quick' or prop == 'C13') else ctypes
            for ct in cts:
                s2 = dict(scn, proto=p, ctype=ct)
                if (n + 2 * j) % 3 == 0:                 # a share of the executions through the FILE api: dump(obj, file) / load(file, patches)
                    s2['api'] = 'file'
                if not scn['marker'] and ((n >> 1) + j) % 2:   # duck-typed: a subclass that inherits the remote-aware __getstate__
                    s2['ovar'] = 'sub'
                if scn['marker'] and ((n >> 1) + j) % 2:       # marker-derived: a class that declares __slots__ and keeps its attributes there
                    s2['ovar'] = 'slots'
                s2['gvar'] = ('plain', 'kwonly', 'wrapped')[((n >> 2) + j) % 3]   # spelling of __getstate__(self, remote=False)
                if prop == 'C13':            # plain nodes: classes with/without __getstate__/__setstate__/__reduce__/__getnewargs__/__slots__/**kw
                    s2['pvar'] = _PVARS[(n + j) % len(_PVARS)]
                    if s2['pvar'] == 'slots' and p in (0, 1):      # pickle itself refuses __slots__ without __getstate__ there
                        s2['pvar'] = 'newargs'                     # (the menu item slots_class covers that)
                if scn['par'] and not any(nd['kind'] == 'opt' for nd in scn['g']):
                    s2['pvar'] = 'gs'            # plain objects whose __setstate__ is the point where thread 2 is nested
                if scn['par']:
                    k = max(1, nev.get(n, 1))
                    nests = sorted({1, k}) if tier == 'quick' else range(1, k + 1)
                    for m in nests:
                        jobs.append((n, s2, m))
                else:
                    jobs.append((n, s2, None))
    return jobs


_PVARS = ('plain', 'gs', 'kw', 'reduce', 'reduce_ex', 'newargs', 'slots')


def _nontrivial(scn):
    if scn['t'] == 'cls':
        return any(f != 'none' for f in scn['chain'])
    if scn['t'] == 'leaf':
        return scn['kind'] != 'atomic'
    return len(scn['g']) >= 2 or any(nd['kind'] == 'opt' for nd in scn['g'])


def _outs(scn, obs):
    if scn['t'] == 'graph':
        o = sorted({l['outcome'] for l in obs['loads']})
        if obs['dump'] != 'ok':
            o = ['dump:' + obs['dump']] + o
        return ','.join(o)
    if scn['t'] == 'cls':
        return (obs['created'] if obs['created'] != 'ok' else obs['outcome'])
    return obs['outcome']


def _same(model_obs, obs):
    return all(obs.get(k) == v for k, v in model_obs.items())


def _judge(prop, records, name):
    """Judge distinct records only (the operators do not read protocol / container type)."""
    uniq, index = {}, []
    for r in records:
        scn = {k: v for k, v in r['scn'].items() if k not in ('proto', 'ctype', 'pvar', 'ovar', 'api', 'gvar')}
        key = json.dumps([scn, r['obs']], sort_keys=True)
        if key not in uniq:
            uniq[key] = {'id': 'u%d' % len(uniq), 'scn': r['scn'], 'obs': r['obs']}
        index.append(uniq[key]['id'])
    # in parts small enough for ONE TLC run each: the signature is read from the FAIL lines of that run's output
    # (tlc.judge splits larger sets into several runs and returns only the last run's output)
    ulist, byu, rj, distinct, generated, nfail = list(uniq.values()), {}, None, 0, 0, 0
    for k in range(0, max(1, len(ulist)), 2000):
        fails, r1 = tlc.judge('RemotePickleJudge', ulist[k:k + 2000], name=name, env={'RP_PROP': prop}, timeout=3000)
        tags = r1.tags.get('FAIL', [])
        if len(tags) != len(fails):
            raise MachineryError('judge: %d FAIL lines parsed but %d failures reported' % (len(tags), len(fails)))
        for x in tags:
            byu.setdefault(x[0], []).append((x[1], x[2]))
        distinct, generated, rj = distinct + r1.distinct, generated + r1.generated, r1
    rj.distinct, rj.generated = distinct, generated
    return [byu.get(u, []) for u in index], rj, len(uniq)


def _replay(prop, replay):
    rp = replay['replay']
    scn = rp['scn']
    scn = G.normalise(scn)
    obs = _exec((scn, rp.get('nest_at')))
    if '_machinery' in obs:
        raise MachineryError(obs['_machinery'])
    per, _, _ = _judge(prop, [{'scn': scn, 'obs': obs}], 'replay')
    print('replayed scenario:', json.dumps(scn))
    print('observed:', json.dumps(obs)[:3000])
    for clause, sig in per[0]:
        print('VIOLATION property=%s replay=(given) clause=%s' % (prop, clause))
        print('  signature: %s|%s|%s|out=%s|api=%s|churn=%s' % (prop, clause, sig, _outs(scn, obs), scn.get('api', 'loads'), 'T' if scn.get('churn') else 'F'))
    return 1 if per[0] else 0


def run(prop, tier, replay=None):
    assert prop in CHECKS
    T = Timer()
    ensure_repo_on_path()
    os.environ['PYTHONPATH'] = os.pathsep.join([REPO, VERIF] + [p for p in os.environ.get('PYTHONPATH', '').split(os.pathsep) if p])
    if replay is not None:
        return _replay(prop, replay)
    ev = Evidence(prop, tier)
    violations, drift = [], []
    phases = {}
    rpset = '%s_%s' % (prop, tier)
    nproc = max(2, min(12, (os.cpu_count() or 4) - 2))
    pool = multiprocessing.get_context('fork').Pool(nproc)          # before any thread is started
    try:
        # ---- 1./2. the model: code as written (cases), corrected design, rejection, witnesses ----
        out = {}
        big = 3000 if tier == 'quick' else 20000
        ths = [threading.Thread(target=_model_asis, args=(rpset, 9, out, big)),
               threading.Thread(target=_model_fixed, args=(rpset, 5, out, big)),
               threading.Thread(target=_model_reject, args=(prop, out)),
               threading.Thread(target=_model_wit, args=(out,)),
               threading.Thread(target=_model_reject_guard, args=(out,)),
               threading.Thread(target=_model_reject_shared, args=(prop, out)),
               threading.Thread(target=_model_reject_kwonly, args=(prop, out)),
               threading.Thread(target=_model_reject_cachebyid, args=(prop, out))]
        if tier == 'thorough':
            ths.append(threading.Thread(target=_model_live, args=(out,)))
        errs = []

        def guarded(t):
            def f():
                try:
                    t._target(*t._args)
                except BaseException as e:  # noqa
                    errs.append(e)
            return threading.Thread(target=f)
        ths = [guarded(t) for t in ths]
        for t in ths:
            t.start()
        ths[0].join()
        if errs:
            raise MachineryError('TLC run failed: %r' % (errs[0],))
        ra = out['asis']
        ev.add_tlc('code as written, scenario set %s: strict + known-shape-weakened invariants, CASE dump' % rpset, ra)
        cases = _cases(ra, 'model of the code as written (%s)' % rpset)
        phases['tlc_asis_done'] = T.s()

        # ---- 3. every TLC terminal state on the real code ----
        jobs = _expand(prop, tier, cases, pool)
        obss = pool.map(_exec, [(s, m) for _, s, m in jobs], chunksize=24)
        for (n, s, m), o in zip(jobs, obss):
            if '_machinery' in o:
                raise MachineryError('replay of %s failed: %s' % (json.dumps(s), o['_machinery']))

        phases['replay_done'] = T.s()
        # ---- 4. TLC judges the real executions ----
        records = [{'scn': s, 'obs': o} for (_, s, _), o in zip(jobs, obss)]
        per, rj, nuniq = _judge(prop, records, 'judge')
        ev.add_tlc('judge: %s operators on %d real executions (%d distinct records)' % (prop, len(records), nuniq), rj, role='judge')
        for (n, s, m), o, fl in zip(jobs, obss, per):
            for clause, sig in fl:
                full = '%s|%s|%s|out=%s|api=%s|churn=%s' % (prop, clause, sig, _outs(s, o), s.get('api', 'loads'), 'T' if s.get('churn') else 'F')
                what = '%s fails: %s -> %s' % (clause, _describe(s, m), _outs(s, o))
                violations.append(Violation(prop, full, what, {'scn': s, 'nest_at': m}))

        phases['judge_done'] = T.s()
        # ---- 5. conformance: real outcome = model outcome for the same scenario ----
        mism = [k for k, ((n, s, m), o) in enumerate(zip(jobs, obss)) if not _same(cases[n]['obs'], o)]
        follows_fixed = 0
        if mism:
            # the other designs the spec knows: proposed fixes applied one by one or together
            base = '\n'.join(l for l in _cfg('RemotePickle_asis.cfg').splitlines() if not l.startswith('INVARIANT') or l.endswith('CaseDump')) + '\n'
            variants = [base.replace('Algo = "asis"', 'Algo = "fixed"')]
            neither = list(mism)
            for vi, text in enumerate(variants):
                if not neither:
                    break
                rf = tlc.run('RemotePickleMC', cfg_text=text, env={'RP_SET': rpset}, workers=12, timeout=big, name='altcases%d' % vi, must_complete=False)
                alt = {json.dumps(c['scn'], sort_keys=True): c['obs'] for c in _cases(rf, 'model of a corrected design (%s)' % rpset)}
                still = []
                for k in neither:
                    n, s, m = jobs[k]
                    if _same(alt[json.dumps(cases[n]['scn'], sort_keys=True)], obss[k]):
                        follows_fixed += 1
                    else:
                        still.append(k)
                neither = still
            if follows_fixed:
                print('NOTE: property=%s %d of %d executions follow the corrected design of the spec (Algo="fixed") '
                      'instead of the model of the code as written' % (prop, follows_fixed, len(jobs)))
            for k in neither[:3]:
                n, s, m = jobs[k]
                bad = [f for f, v in cases[n]['obs'].items() if obss[k].get(f) != v]
                drift.append('real outcome differs from RemotePickle.tla for %s: field %s model=%s real=%s (%d such executions)'
                             % (_describe(s, m), bad[0], json.dumps(cases[n]['obs'][bad[0]])[:300], json.dumps(obss[k].get(bad[0]))[:300], len(neither)))
            mism = neither
        for t in ths[1:]:
            t.join()
        if errs:
            raise MachineryError('TLC run failed: %r' % (errs[0],))
        phases['all_tlc_done'] = T.s()
    finally:
        pool.terminate()
    ev.cov['phase_seconds'] = phases

    # ---- 2. (results) corrected design verified, code as written rejected, witnesses reached ----
    rfx, rrj, rw = out['fixed'], out['reject'], out['wit']
    ev.add_tlc('corrected design (Algo=fixed), scenario set %s: every operator a strict invariant' % rpset, rfx)
    if rfx.error or not rfx.completed:
        raise MachineryError('the corrected design violates a property in the model: %s\n%s' % (rfx.error, '\n'.join(rfx.trace[:80]) or rfx.stdout[-2000:]))
    ev.add_tlc('vacuity: strict %s invariants on the model of the code as written (must be rejected)' % prop, rrj, role='vacuity')
    if not (rrj.error or '').startswith('invariant:Inv_' + prop):
        raise MachineryError('TLC does not reject the strict %s invariants on the model of the code as written: %s' % (prop, rrj.error))
    rg = out['reject_guard']
    ev.add_tlc('vacuity: corrected design + guard on the left-over of a failed load in context.__init__ (must be rejected)', rg, role='vacuity')
    if not (rg.error or '').startswith('invariant:Inv_C1'):
        raise MachineryError('TLC does not reject a context.__init__ that refuses to start after a failed load: %s' % rg.error)
    rk = out['reject_kwonly']
    ev.add_tlc('vacuity: corrected design + remote_reduce before 35e075b (keyword-only __getnewargs_ex__ raises) (must be rejected)', rk, role='vacuity')
    if not (rk.error or '').startswith('invariant:Inv_C1'):
        raise MachineryError('TLC does not reject a remote_reduce that refuses keyword-only __getnewargs_ex__: %s' % rk.error)
    rc_ = out['reject_cachebyid']
    ev.add_tlc('vacuity: corrected design + opt-in check cache keyed by class address, after churn of short-lived classes (must be rejected)', rc_, role='vacuity')
    if not (rc_.error or '').startswith('invariant:Inv_C1'):
        raise MachineryError('TLC does not reject an opt-in check cache keyed by class address: %s' % rc_.error)
    rs = out['reject_shared']
    ev.add_tlc('vacuity: code as written + process-wide load context, two loading threads (must be rejected)', rs, role='vacuity')
    if not (rs.error or '').startswith(('invariant:Inv_' + prop, 'invariant:AsIs_' + prop)):
        raise MachineryError('TLC does not reject a load context shared between threads for %s: %s' % (prop, rs.error))
    ev.add_tlc('witnesses (every antecedent / fault reached)', rw, role='vacuity')
    reached = sorted({x[0] for x in rw.tags.get('WIT', [])})
    need = ['Concurrency', 'Copyreg', 'DumpWarning', 'Failure', 'MemoGet', 'OptInFalse', 'PatchDelivered', 'Residue', 'Siblings',
            'StdOp', 'StdPath', 'Warning', 'AfterFail', 'Falsy', 'LateCopyreg', 'LowProto', 'FailedThenLoad', 'ParPlain', 'NestedResidue', 'NewArgsEx', 'KwOnly', 'Churn']
    if rw.error or [w for w in need if w not in reached]:
        raise MachineryError('witnesses not reached: %s (%s)' % ([w for w in need if w not in reached], rw.error))
    ev.cov['witnesses'] = {'reached': reached, 'asis_model_rejected_by': rrj.error, 'init_guard_rejected_by': rg.error, 'shared_context_rejected_by': rs.error, 'kwonly_prefix_rejected_by': rk.error, 'cache_by_address_rejected_by': rc_.error}
    if 'live' in out:
        ev.add_tlc('liveness: every scenario terminates', out['live'], role='vacuity')
        if out['live'].error or not out['live'].completed:
            raise MachineryError('liveness check failed: %s' % out['live'].error)

    n_ok = len(jobs) - len(mism)
    ev.cov['traces_validated_against_impl'] = n_ok
    ev.cov['evaluations'] = len(jobs)
    ev.cov['distinct_nontrivial'] = len({json.dumps([s, m], sort_keys=True) for _, s, m in jobs if _nontrivial(s)})
    ev.cov['rule'] = _FAMILY_RULE
    ev.cov['exhaustive'] = True
    ev.cov['tlc_scenarios'] = len(cases)
    ev.cov['scenario_families'] = {f: sum(1 for c in cases if c['scn']['t'] == f) for f in ('cls', 'leaf', 'graph')}
    ev.cov['conformance_mismatches'] = len(mism)
    ev.cov['executions_following_corrected_design'] = follows_fixed
    ev.cov['judge_rejected_executions'] = sum(1 for fl in per if fl)
    seen = set()
    for (n, s, m), o in zip(jobs, obss):
        key = s['t'] if s['t'] != 'graph' else 'graph%d%s' % (min(len(s['g']), 3), 'p' if any(L['patch'] for L in s['loads']) else '')
        if key not in seen:
            seen.add(key)
            js = json.dumps(o)
            ev.sample({'scn': s, 'nest_at': m, 'obs': o if len(js) < 3000 else _outs(s, o)}, cap=8)
    ev.assumptions += [
        'generated classes keep their state in __dict__ (dict state) or as a list of items (non-dict state); objects are identified in the loaded graph by tag attributes',
        'for an object stored in several places the patch address is the first holder pickle meets; patches through later holders are not generated',
        'dict state handed to __setstate__ may be an OrderedDict (not distinguished from dict)',
        'two threads: load 2 runs completely inside one REDUCE/BUILD event of load 1 (the deterministic interleavings); TLC explores all interleavings of the model',
        'truncated streams are cut at opcode boundaries of the unframed pickle; the cut is located through the __new__/__setstate__ calls of the generated classes',
        'opt-in classes with a falsy state / __getnewargs__ are exercised at protocols >= 2 only: at protocols 0 and 1 standard pickling (copyreg._reduce_ex) ignores __getnewargs__ and drops falsy states whereas remote_reduce always reduces the protocol-2 way, so dumps(remote=False) of a registered opt-in class is NOT equal to pickle there (observed, not listed)',
        'equal_to_pickle: structural comparison (types, values, sharing, cycles) of the two round trips, or both raise',
    ]
    return finish(ev, violations, T.s(), drift)


def _describe(s, nest):
    if s['t'] == 'cls':
        return 'class hierarchy %s (%s%s) op=%s remote=%s proto=%s' % ('>'.join(s['chain']), 'marker-derived' if s['marker'] else 'duck-typed',
                                                                         ', dumped remotely before' if s['seen'] else '', s['op'], s['remote'], s.get('proto'))
    if s['t'] == 'leaf':
        return 'menu value %s (%s) wrap=%s remote=%s proto=%s%s' % (s['item'], s['kind'], s['wrap'], s['remote'], s.get('proto'),
                                                                    ' on a thread whose previous loads raised' if s.get('after') == 'fail' else '')
    nodes = ' '.join('%d:%s%s%s[%s]' % (i, nd['kind'], '' if nd['ss'] else '-nosetstate',
                                        ('' if nd['ds'] else '-nondict') if nd.get('fs', 'no') == 'no' else '-state=%r' % (G.FALSY.get(nd['fs'], '{} + __getnewargs_ex__ ' + nd['fs']),),
                                        ','.join('%s->%d' % (e['k'], e['to']) for e in nd['ent'])) for i, nd in enumerate(s['g'], 1))
    loads = '; '.join('%sloads(patch=%s)%s' % ('T%d:' % L['thr'] if s['par'] else '', json.dumps(G.patch_dict(L['patch'])),
                                             '' if L['fail'] == 'none' else ' with %s@%d' % (L['fail'], L['at'])) for L in s['loads'])
    return 'graph {%s} op=%s%s remote=%s %s proto=%s ctype=%s%s: %s' % (nodes, s['op'], ' (dump/load on a file)' if s.get('api') == 'file' else '', s['remote'], ('marker-slots' if s.get('ovar') == 'slots' else 'marker') if s['marker'] else ('duck-subclass' if s.get('ovar') == 'sub' else 'duck'),
                                                                    s.get('proto'), s.get('ctype'), (' nest_at=%s' % nest if nest else '') + ('' if s.get('gvar', 'plain') == 'plain' else ' getstate=' + s['gvar']) + (' after-churn' if s.get('churn') else ''), loads)
