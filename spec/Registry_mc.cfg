SPECIFICATION Spec
CONSTANTS
  N = 3
  Threads <- T_two
  MaxSteps = 6
  FixPrune = TRUE
  FixRestart = TRUE
  PruneOutsideLock = FALSE
  WeakRegistry = FALSE
  AutoFinally = TRUE
  HeldSet <- H_true
  Hist = FALSE
  Atomic = FALSE
  Ops <- Ops_all
INVARIANT TypeOK
INVARIANT Inv_C19_Exact
INVARIANT Inv_C19_Bounded
INVARIANT Inv_C19_Autoclose
INVARIANT Inv_NoDup
INVARIANT Inv_LiveRegistered
CHECK_DEADLOCK FALSE
