"""Shared plumbing: paths, scratch dirs, seeds, verdict bookkeeping."""
import atexit
import json
import os
import shutil
import sys
import tempfile
import time

VERIF = os.path.dirname(os.path.dirname(os.path.abspath(__file__)))
REPO = os.environ.get('VERIF_REPO', '/repo')
SPEC = os.path.join(VERIF, 'spec')
EVIDENCE = os.path.join(VERIF, 'evidence')
PY = os.environ.get('VERIF_PY', '/venv/bin/python')

_scratch = None


def scratch():
    """One scratch directory per check run, removed at exit."""
    global _scratch
    if _scratch is None:
        base = os.environ.get('TMPDIR') or '/tmp'
        _scratch = tempfile.mkdtemp(prefix='vf-', dir=base)
        atexit.register(shutil.rmtree, _scratch, True)
        # everything this run and its children create as "temporary" (multiprocessing's pymp-* directories of children that
        # are killed, TLC's java.io.tmpdir, tempfile users in the drivers) lands inside and goes away with it
        os.environ['TMPDIR'] = _scratch
        tempfile.tempdir = _scratch
    return _scratch


def sub_scratch(name):
    p = os.path.join(scratch(), name)
    os.makedirs(p, exist_ok=True)
    return p


def seed():
    try:
        return int(os.environ.get('VERIF_SEED', '0'))
    except ValueError:
        return 0


def tier_from_env(default='quick'):
    t = os.environ.get('VERIF_TIER', default)
    return t if t in ('quick', 'thorough') else default


class MachineryError(Exception):
    """Something in the verification machinery failed (exit 2, never a violation)."""


def ensure_repo_on_path():
    if REPO not in sys.path:
        sys.path.insert(0, REPO)


def jdump(obj, path):
    with open(path, 'w') as f:
        json.dump(obj, f, indent=1, sort_keys=True, default=str)
        f.write('\n')


class Timer:
    def __init__(self):
        self.t0 = time.time()

    def s(self):
        return round(time.time() - self.t0, 2)
