"""A separate CLIENT process that owns one persistent remote worker (run as
`python -m vf.drivers._server_client <host> <port> <swallow|coop> <marker>`): it creates the worker on a
long-running target, prints the backend's pid and then just lives - until the scenario SIGKILLs it (its data
socket has linger 0: the kernel resets the connection, the server-side socket of the worker is closed)."""
import sys
import time


def main():
    host, port, kind, marker = sys.argv[1], int(sys.argv[2]), sys.argv[3], sys.argv[4]
    from vf.drivers import _server_lib as L
    from vf.drivers import _server_targets as tg
    L.setup_env()
    from pyworkers.persistent_remote import PersistentRemoteWorker
    fn = tg.swallow_marked if kind == 'swallow' else tg.coop_marked
    w = PersistentRemoteWorker(fn, host=(host, port), main_path=L.TARGETS_PATH)
    w.enqueue(marker)
    print('BACKEND %d' % w.pid, flush=True)
    while True:
        time.sleep(1)


if __name__ == '__main__':
    main()
