"""C19 - Worker.active_children() / autoclose_active_children().

spec/Registry.tla (the registry under its lock, two concurrent callers, creations, deaths,
restarts, autoclose) is model-checked by TLC; the current code (pruned list assigned to a
different attribute; register_child skipped on restart) is a configuration TLC must reject.
TLC dumps sequential histories (create run/not-run, die, restart, active_children, autoclose)
that are replayed on real workers (thread kinds for all of them, a sample with process and
remote kinds); long randomized histories and a two-caller stress run are added.  Every real
run is projected into (scn, obs) and judged by TLC with the C19 operators (RegistryJudge).

Also the replay runner:  python -m vf.drivers.registry --runner jobs.json out.json"""
import gc
import json
import os
import random
import signal
import sys
import threading
import time
import weakref

if __name__ == '__main__':
    sys.path.insert(0, os.path.dirname(os.path.dirname(os.path.dirname(os.path.abspath(__file__)))))

from vf import tlc                                                              # noqa: E402
from vf.common import REPO, VERIF, MachineryError, Timer, ensure_repo_on_path, seed   # noqa: E402
from vf.drivers.persistent_api import (_cfg as _pcfg, _find_thread, _sr, prefetch, _os_alive_pid, _proc_start, _tla_seq, parent_watchdog,   # noqa: E402
                                       run_jobs)
from vf.report import Evidence, Violation, finish                               # noqa: E402

CHECKS = {
    'C19': dict(
        engine='Registry',
        technique='Apalache inductive invariant on RegistryInd.tla (histories of any length) + TLA+ spec Registry.tla (Worker._active_children under its lock: create run/not-run, die, prune+snapshot by 2 concurrent callers, restart, autoclose) model-checked with TLC incl. the current code as a configuration TLC rejects; TLC-dumped histories replayed on real workers of all six classes; long randomized histories and a two-caller stress run; TLC judges every real run with the C19 operators (RegistryJudge)',
        text='Exhaustive TLC model checking of the registry algorithm with two concurrent active_children() callers interleaved with creations, deaths, restarts and autoclose; every TLC-enumerated sequential history up to the bound is executed on real workers (thread kinds, plus a sample with process and remote kinds) and judged by TLC; histories with hundreds of creations check that dead workers are not retained (weak references after gc).',
        note='Trusted: TLC; gc + weakref as the observation of "retained"; the driver controls worker lifetimes (targets live until released), so the live set at each call is known. Real two-thread interleavings inside the lock are not controlled (stress only); the interleavings are covered by the model.',
        design_ref='6/C19'),
}

HIST_BOUND = 25.0


def _cfg(base, inv=None, **kw):
    return _pcfg(base, inv=inv, **kw)


# --------------------------------------------------------------------------- real executions

class Session:
    """Per runner process: the registry is process-wide, so everything that ever died here is remembered."""

    def __init__(self):
        ensure_repo_on_path()
        os.environ['PYTHONPATH'] = os.pathsep.join([REPO, VERIF] + [p for p in os.environ.get('PYTHONPATH', '').split(os.pathsep) if p])
        import logging
        logging.disable(logging.CRITICAL)
        from pyworkers import worker as wmod
        from pyworkers.persistent_process import PersistentProcessWorker
        from pyworkers.persistent_remote import PersistentRemoteWorker
        from pyworkers.persistent_thread import PersistentThreadWorker
        from pyworkers.process import ProcessWorker
        from pyworkers.remote import RemoteWorker
        from pyworkers.thread import ThreadWorker
        from vf.drivers import _papi_targets as targets
        self.Worker = wmod.Worker
        self.autoclose = wmod.autoclose_active_children
        self.cls = {('thread', False): ThreadWorker, ('process', False): ProcessWorker, ('remote', False): RemoteWorker,
                    ('thread', True): PersistentThreadWorker, ('process', True): PersistentProcessWorker,
                    ('remote', True): PersistentRemoteWorker}
        self.targets = targets
        self.dead_refs = []        # weakrefs of dead workers the driver no longer references
        self.server = None
        self.addr = None
        self.nflag = 0
        self.tmpdir = '/tmp'

    def need_server(self):
        """The server is itself a Worker (RemoteServerProcess): it must not live in this process, or it would be
        part of the registry under test (and autoclose would rightly close it).  A helper process owns it."""
        if self.server is None or self.server.poll() is not None:
            import subprocess
            code = ('import sys\nfrom pyworkers.remote_server import spawn_server\n'
                    'if __name__ == "__main__":\n s = spawn_server(("127.0.0.1", 0))\n print(s.addr[1] if s.is_alive() else -1, flush=True)\n'
                    ' sys.stdin.read()\n s.terminate(timeout=2, force=True)\n')
            path = os.path.join(self.tmpdir, 'server_helper_%d.py' % os.getpid())
            with open(path, 'w') as f:
                f.write(code)
            self.server = subprocess.Popen([sys.executable, path], stdin=subprocess.PIPE, stdout=subprocess.PIPE, env=dict(os.environ))
            line = self.server.stdout.readline().strip()
            if not line or int(line) < 0:
                raise MachineryError('cannot start a local remote server (helper said %r)' % line)
            self.addr = ('127.0.0.1', int(line))

    def close(self):
        if self.server is not None:
            try:
                self.server.stdin.close()
                self.server.wait(6)
            except Exception:  # noqa
                try:
                    self.server.kill()
                except OSError:
                    pass

    def retained(self):
        gc.collect()
        self.dead_refs = [r for r in self.dead_refs if r() is not None]
        return len(self.dead_refs)

    def reglen(self):
        try:
            return len(getattr(self.Worker, '_active_children'))      # soft observation (conformance only)
        except Exception:  # noqa
            return -1


class _LeaveBlock(Exception):
    pass


class RegReplay:
    """One history on real workers.  job = {id, h: [[op, w, a, b]...], kinds: {w: kind}, modes: {step: 'finish'|'terminate'}}"""

    def __init__(self, job, ses, tmp):
        self.job, self.ses, self.tmp = job, ses, tmp
        self.ws, self.live, self.known = {}, set(), {}
        self.flags, self.pids = {}, []
        self.calls, self.autos, self.notes, self.reglens = [], [], [], []
        self.restarted_later = {}
        self.current = None
        self.finished = False
        h = job['h']
        for n, st in enumerate(h):
            if st[0] == 'restart':
                self.restarted_later[st[1]] = n
        self.was_restarted = set()
        self.foreign = {}
        self.names = {}          # worker name -> local id (how a worker is recognised when the program kept no handle)
        self.unheld = {}         # local id -> OS ground truth of a worker whose handle was dropped right after construction

    def lid(self, obj):
        for w, o in self.ws.items():
            if o is obj:
                return w
        # not a handle the program holds: recognise it by its (unique) name - never by id(): addresses are re-used
        k = self.names.get(getattr(obj, 'name', None))
        if k is not None:
            return k
        # a worker this history never created (stale entry of the process-wide registry)
        return self.foreign.setdefault(id(obj), 900 + len(self.foreign))

    def create(self, w, run, pers, held=True):
        ses = self.ses
        kind = self.job['kinds'].get(str(w), 'thread')
        kw = {}
        if kind == 'remote':
            ses.need_server()
            kw['host'] = ses.addr
        name = 'reg-%s-%d' % (self.job['id'], w)
        if pers:
            obj = ses.cls[(kind, True)](ses.targets.ident, name=name, run=run, **kw)
        else:
            ses.nflag += 1
            flag = os.path.join(self.tmp, 'rflag-%d-%d' % (os.getpid(), ses.nflag))
            self.flags[w] = flag
            obj = ses.cls[(kind, False)](ses.targets.sleeper, args=[flag], name=name, run=run, **kw)
        self.names[name] = w
        if run and kind != 'thread':
            self.pids.append((obj.pid, _proc_start(obj.pid)))
        if run:
            self.live.add(w)
        if held:
            self.ws[w] = obj
            return
        # fire and forget: the program keeps no reference to the object, only what it needs to look at the OS
        # (the child's pid and start time, or the Thread object of a thread child; a remote worker's frontend thread)
        info = {'kind': kind, 'ref': weakref.ref(obj)}
        if kind == 'thread':
            info['thread'] = _find_thread(tid=obj.tid)
        else:
            info['pid'] = self.pids[-1]
            if kind == 'remote':
                info['thread'] = _find_thread(name='%s (remote front)' % name)
        self.unheld[w] = info
        del obj
        gc.collect()

    def os_alive(self, w):
        """Liveness of a handle-less worker from the OS, never through the worker object."""
        info = self.unheld[w]
        th = info.get('thread')
        if th is not None and th.is_alive():
            return True
        if 'pid' in info:
            pid, start = info['pid']
            return start is not None and _proc_start(pid) == start and _os_alive_pid(pid)
        return False

    def forget_unheld(self, w):
        info = self.unheld.get(w)
        if info is not None and info.get('ref') is not None:
            self.ses.dead_refs.append(info.pop('ref'))

    def forget_if_unused(self, w, step):
        """The program drops its reference to a dead worker it will not restart."""
        if self.restarted_later.get(w, -1) > step:
            return
        obj = self.ws.pop(w, None)
        if obj is not None:
            self.known[id(obj)] = w
            self.ses.dead_refs.append(weakref.ref(obj))
        del obj

    def die(self, w, step):
        if w in self.unheld:            # no handle: let the target return and watch the OS
            open(self.flags[w], 'w').close()
            t0 = time.time()
            while self.os_alive(w) and time.time() - t0 < 10:
                time.sleep(0.002)
            if self.os_alive(w):
                self.notes.append('handle-less worker %d did not die' % w)
            self.live.discard(w)
            self.forget_unheld(w)
            return
        obj = self.ws[w]
        mode = self.job.get('modes', {}).get(str(step), 'finish')
        if mode == 'terminate':
            ok = obj.terminate()
        else:
            if w in self.flags:
                open(self.flags[w], 'w').close()
            ok = obj.wait(10)
        if not ok or obj.is_alive():
            self.notes.append('worker %d did not die (%s)' % (w, mode))
        self.live.discard(w)
        del obj
        self.forget_if_unused(w, step)

    def ac(self, t):
        lb = sorted(self.live)
        try:
            y = [self.lid(o) for o in self.ses.Worker.active_children()]
        except Exception as e:  # noqa - the call raised: it yielded nothing (an observation, judged like any other)
            y = []
            self.notes.append('active_children() raised %r' % (e,))
        la = sorted(self.live)
        self.reglens.append(self.ses.reglen())
        self.calls.append({'t': t, 'y': y, 'lb': lb, 'la': la, 'retained': self.ses.retained(), 'died': 0})

    def auto(self, step, exc=None):
        raised = 'none'
        try:
            with self.ses.autoclose():
                if exc is not None:
                    raise exc        # the block is left through an exception raised inside it
        except (_LeaveBlock, KeyboardInterrupt) as e:
            if e is not exc:
                raised = type(e).__name__
        except Exception as e:  # noqa - leaving the block raised: an observation
            raised = type(e).__name__
            # soft diagnosis for the signature: a dead thread worker still registered whose thread id was re-used by this thread
            from pyworkers.utils import gettid
            try:
                stale = [c for c in getattr(self.ses.Worker, '_active_children', []) if getattr(c, '_tid', None) == gettid()
                         and not any(c is o for o in self.ws.values() if o is not None and c is o and False)]
                if stale and isinstance(e, ValueError):
                    raised += ':stale-dead-thread-worker-with-reused-tid'
            except Exception:  # noqa
                pass
            self.notes.append('autoclose raised %r' % (e,))
        # "left behind" = still alive once the terminations requested by the block have had time to complete
        # (autoclose gives each child 0.1 s + 0.1 s; under load a dying thread can outlive that by a moment)
        after = []
        for w in sorted(self.live):
            alive = (lambda w=w: self.os_alive(w)) if w in self.unheld else self.ws[w].is_alive
            t0 = time.time()
            while alive() and time.time() - t0 < 3.0:
                time.sleep(0.002)
            if alive():
                after.append(w)
        self.autos.append({'after': after, 'raised': raised})
        for w in sorted(self.live):
            if w not in after:
                self.live.discard(w)
                self.forget_unheld(w)
                self.forget_if_unused(w, step)

    def body(self):
        try:
            for n, st in enumerate(self.job['h']):
                op, w = st[0], st[1]
                self.current = 'step %d %s %s' % (n, op, w)
                if op == 'create':
                    self.create(w, st[2] == 'run', st[3] == 'pers', held=(st[3] != 'once-unheld'))
                elif op == 'die':
                    self.die(w, n)
                elif op == 'restart':
                    self.ws[w].restart()
                    self.live.add(w)
                    self.was_restarted.add(w)
                    if self.job['kinds'].get(str(w), 'thread') != 'thread':
                        self.pids.append((self.ws[w].pid, _proc_start(self.ws[w].pid)))
                elif op == 'ac':
                    self.ac(w)
                elif op == 'auto':
                    self.auto(n)
                elif op == 'autoexc':
                    self.auto(n, _LeaveBlock('left the block') if n % 2 else KeyboardInterrupt())
                else:
                    raise MachineryError('unknown op %r' % (op,))
            self.finished = True
            self.current = None
        except MachineryError:
            raise
        except BaseException as e:  # noqa
            self.notes.append('aborted in %s: %r' % (self.current, e))

    def cleanup(self):
        for f in self.flags.values():
            try:
                open(f, 'w').close()
            except OSError:
                pass
        for w in sorted(self.live):
            obj = self.ws.get(w)
            try:
                if obj is not None and not obj.wait(2):
                    obj.terminate()
                if w in self.unheld:
                    t0 = time.time()
                    while self.os_alive(w) and time.time() - t0 < 2:
                        time.sleep(0.002)
                    self.forget_unheld(w)
            except Exception as e:  # noqa
                self.notes.append('cleanup of %d: %r' % (w, e))
        for pid, start in self.pids:
            if pid != os.getpid() and start is not None and _proc_start(pid) == start and _os_alive_pid(pid):
                try:
                    os.kill(pid, signal.SIGKILL)
                except OSError:
                    pass
        for w in list(self.ws):
            self.forget_if_unused(w, 10 ** 9)
        self.live.clear()

    def run(self):
        th = threading.Thread(target=self.body, name='regreplay', daemon=True)
        th.start()
        th.join(HIST_BOUND + 0.05 * len(self.job['h']))
        if th.is_alive():
            self.notes.append('hang in %s' % self.current)
        restarted = sorted(self.was_restarted)
        self.cleanup()
        rec = {'id': str(self.job['id']), 'scn': {'n': sum(1 for s in self.job['h'] if s[0] == 'create'), 'kinds': self.job['kinds']},
               'obs': {'calls': self.calls, 'autos': self.autos}}
        return {'id': self.job['id'], 'rec': rec, 'notes': self.notes, 'finished': self.finished, 'reglens': self.reglens,
                'restarted': restarted}


def stress(job, ses):
    """Two threads call active_children() in a loop while the main thread creates and finishes thread workers.
    Logical clock: every bookkeeping event takes a tick under one lock; a worker *may* be alive from the tick before
    its constructor is called to the tick after its wait() returned, and *is* alive from the tick after the
    constructor returned to the tick before its death is initiated."""
    clock = [0]
    lk = threading.Lock()
    iv = {}          # w -> [may_from, sure_from, sure_to, may_to]
    deaths = []
    objs = {}
    calls = []
    stop = threading.Event()
    foreign = {}
    INF = 10 ** 9

    def tick():
        with lk:
            clock[0] += 1
            return clock[0]

    def caller(t):
        while not stop.is_set():
            t0 = tick()
            got = list(ses.Worker.active_children())
            t1 = tick()
            with lk:
                ids = []
                for o in got:
                    ids.append(next((w for w, x in objs.items() if x is o), None) or foreign.setdefault(id(o), 9000 + len(foreign)))
                may = sorted(w for w, (a, b, c, d) in iv.items() if a < t1 and d > t0)
                must = sorted(w for w, (a, b, c, d) in iv.items() if b < t0 and c > t1)
                died = sum(1 for x in deaths if t0 < x < t1)
            calls.append({'t': t, 'y': ids, 'lb': may, 'la': must, 'retained': 0, 'died': died})
            del got
            time.sleep(0.0002)
    ths = [threading.Thread(target=caller, args=(t,), daemon=True) for t in (1, 2)]
    for th in ths:
        th.start()
    rng = random.Random(job['seed'])
    livew = []
    flags = {}
    n = 0
    tmp = job['tmp']
    try:
        for _ in range(job['creations']):
            n += 1
            flag = os.path.join(tmp, 'sflag-%d-%d' % (os.getpid(), n))
            flags[n] = flag
            iv[n] = [tick(), INF, INF, INF]
            o = ses.cls[('thread', False)](ses.targets.sleeper, args=[flag], name='st-%d' % n)
            with lk:
                objs[n] = o
            iv[n][1] = tick()
            livew.append(n)
            while len(livew) > rng.randint(0, 3):
                w = livew.pop(rng.randrange(len(livew)))
                iv[w][2] = tick()
                open(flags[w], 'w').close()
                objs[w].wait(10)
                deaths.append(tick())
                iv[w][3] = tick()
    finally:
        stop.set()
        for th in ths:
            th.join(5)
        for w in livew:
            open(flags[w], 'w').close()
            objs[w].wait(5)
    # thin out: keep at most 400 call records (first, last and a seeded sample)
    if len(calls) > 400:
        keep = set(rng.sample(range(len(calls)), 398)) | {0, len(calls) - 1}
        calls_ = [c for i, c in enumerate(calls) if i in keep]
    else:
        calls_ = calls
    for w in list(objs):
        ses.dead_refs.append(weakref.ref(objs.pop(w)))
    rec = {'id': str(job['id']), 'scn': {'n': n, 'kinds': {'*': 'thread'}}, 'obs': {'calls': calls_, 'autos': []}}
    return {'id': job['id'], 'rec': rec, 'notes': ['%d concurrent calls' % len(calls)], 'finished': True, 'reglens': [ses.reglen()],
            'restarted': []}


def race(job, ses, tmp):
    """Force the interleaving 'a registration arrives while active_children() evaluates liveness'.
    Worker 1 is a ThreadWorker subclass whose is_alive(), when called by the observer thread during the armed
    call, releases a second thread that constructs a worker (or restart()s a dead, already pruned one) and gives it
    a bounded moment.  In the algorithm of Registry.tla liveness is evaluated inside the lock: the registration waits
    for the lock and lands after the call.  Either order is a legal behaviour; what is judged is what the next
    sequential active_children() yields and what autoclose leaves alive once both threads are done."""
    ThreadWorker, PThread = ses.cls[('thread', False)], ses.cls[('thread', True)]
    g = {'armed': False, 'observer': None, 'fired': False, 'go': threading.Event(), 'done': threading.Event(),
         'moment': job.get('moment', 0.15), 'inside': None}

    def is_alive(self):
        r = ThreadWorker.is_alive(self)
        if g['armed'] and not g['fired'] and threading.get_ident() == g['observer']:
            g['fired'] = True
            g['go'].set()
            g['inside'] = g['done'].wait(g['moment'])      # True: the registration completed while we were in here
        return r
    Gate = type('GateThreadWorker', (ThreadWorker,), {'is_alive': is_alive})
    notes, calls, autos, flags, ws, live = [], [], [], {}, {}, []
    foreign = {}
    finished = False

    def lid(o):
        for w, x in ws.items():
            if x is o:
                return w
        return foreign.setdefault(id(o), 900 + len(foreign))

    def mk(w, cls, pers=False):
        ses.nflag += 1
        if pers:
            ws[w] = PThread(ses.targets.ident, name='race-%s-%d' % (job['id'], w))
        else:
            flags[w] = os.path.join(tmp, 'cflag-%d-%d' % (os.getpid(), ses.nflag))
            ws[w] = cls(ses.targets.sleeper, args=[flags[w]], name='race-%s-%d' % (job['id'], w))
        live.append(w)

    def ac(may=None):
        lb = sorted(live)
        y = [lid(o) for o in ses.Worker.active_children()]
        calls.append({'t': 1, 'y': y, 'lb': sorted(set(lb) | set(may or [])), 'la': lb, 'retained': ses.retained(), 'died': 0})

    def body():
        nonlocal finished
        try:
            mk(1, Gate)
            for w in range(2, 2 + job.get('others', 1)):
                mk(w, ThreadWorker)
            new = 2 + job.get('others', 1)
            if job['action'] == 'restart':
                mk(new, None, pers=True)
                ws[new].wait(10)
                live.remove(new)
                ac()                                  # prunes the dead persistent worker: restart() has to register it again

            def creator():
                if not g['go'].wait(10):
                    notes.append('the gate never fired (is_alive() of worker 1 was not called by the observer)')
                    return
                try:
                    if job['action'] == 'restart':
                        ws[new].restart()
                    else:
                        mk_new()
                finally:
                    g['done'].set()

            def mk_new():
                ses.nflag += 1
                flags[new] = os.path.join(tmp, 'cflag-%d-%d' % (os.getpid(), ses.nflag))
                ws[new] = ThreadWorker(ses.targets.sleeper, args=[flags[new]], name='race-%s-%d' % (job['id'], new))
            th = threading.Thread(target=creator, name='race-creator', daemon=True)
            th.start()
            g['observer'] = threading.get_ident()
            g['armed'] = True
            before = sorted(live)
            y = [lid(o) for o in ses.Worker.active_children()]
            g['armed'] = False
            th.join(10)
            if th.is_alive():
                notes.append('hang: the registering thread did not finish')
            if new in ws and ws[new].is_alive():
                live.append(new)
            # the racing call itself: the new worker may or may not be in it
            calls.append({'t': 1, 'y': y, 'lb': sorted(set(before) | {new}), 'la': before, 'retained': 0, 'died': 0})
            notes.append('registration completed inside is_alive() of the observer: %s' % g['inside'])
            ac()                                      # both threads are done: exactly the live workers
            with ses.autoclose():
                pass
            after = []
            for w in sorted(live):
                t0 = time.time()
                while ws[w].is_alive() and time.time() - t0 < 3.0:
                    time.sleep(0.002)
                if ws[w].is_alive():
                    after.append(w)
            autos.append({'after': after, 'raised': 'none'})
            finished = True
        except BaseException as e:  # noqa
            notes.append('aborted: %r' % (e,))
    bt = threading.Thread(target=body, name='race-body', daemon=True)
    bt.start()
    bt.join(HIST_BOUND)
    if bt.is_alive():
        notes.append('hang in the race scenario')
    for f in flags.values():
        try:
            open(f, 'w').close()
        except OSError:
            pass
    for w, o in list(ws.items()):
        try:
            if o.is_alive() and not o.wait(2):
                o.terminate()
        except Exception as e:  # noqa
            notes.append('cleanup of %d: %r' % (w, e))
        ses.dead_refs.append(weakref.ref(o))
    ws.clear()
    rec = {'id': str(job['id']), 'scn': {'n': 2 + job.get('others', 1), 'kinds': {'*': 'thread'}, 'race': job['action']},
           'obs': {'calls': calls, 'autos': autos}}
    return {'id': job['id'], 'rec': rec, 'notes': notes, 'finished': finished, 'reglens': [ses.reglen()],
            'restarted': [], 'inside': g['inside']}


def fresh_thread(job, ses, tmp):
    """active_children() / autoclose executed in a thread that was started AFTER thread workers have finished (such a
    thread typically inherits the identity of a finished one: nothing about a dead worker may depend on who asks)."""
    ThreadWorker = ses.cls[('thread', False)]
    notes, calls, autos, flags, ws, live = [], [], [], {}, {}, []
    foreign = {}
    done = {'ok': False}

    def lid(o):
        for w, x in ws.items():
            if x is o:
                return w
        return foreign.setdefault(id(o), 900 + len(foreign))

    def mk(w):
        ses.nflag += 1
        flags[w] = os.path.join(tmp, 'tflag-%d-%d' % (os.getpid(), ses.nflag))
        ws[w] = ThreadWorker(ses.targets.sleeper, args=[flags[w]], name='ft-%s-%d' % (job['id'], w))
        live.append(w)

    def observer():
        try:
            for rnd in range(2):
                lb = sorted(live)
                try:
                    y = [lid(o) for o in ses.Worker.active_children()]
                except Exception as e:  # noqa
                    y = []
                    notes.append('active_children() raised %r' % (e,))
                calls.append({'t': 1, 'y': y, 'lb': lb, 'la': lb, 'retained': 0, 'died': 0})
                if rnd == 0:
                    raised = 'none'
                    try:
                        with ses.autoclose():
                            pass
                    except Exception as e:  # noqa
                        raised = type(e).__name__
                        notes.append('autoclose raised %r' % (e,))
                    after = []
                    for w in sorted(live):
                        t0 = time.time()
                        while _thread_of[w] is not None and _thread_of[w].is_alive() and time.time() - t0 < 3.0:
                            time.sleep(0.002)
                        if _thread_of[w] is not None and _thread_of[w].is_alive():      # the OS thread, not the worker's word
                            after.append(w)
                    autos.append({'after': after, 'raised': raised})
                    for w in list(live):
                        if w not in after:
                            live.remove(w)
            done['ok'] = True
        except BaseException as e:  # noqa
            notes.append('aborted: %r' % (e,))
    _thread_of = {}

    def body():
        nlive, ndead = job.get('live', 1), job.get('dead', 2)
        for w in range(1, nlive + 1):
            mk(w)
        for w in range(nlive + 1, nlive + ndead + 1):
            mk(w)
        for w in ws:
            _thread_of[w] = _find_thread(tid=ws[w].tid)       # OS-level truth about each worker's thread
        for w in range(nlive + 1, nlive + ndead + 1):        # these finish; their threads are gone when wait() returns
            open(flags[w], 'w').close()
            if not ws[w].wait(10):
                notes.append('worker %d did not finish' % w)
            live.remove(w)
        th = threading.Thread(target=observer, name='fresh-observer', daemon=True)    # started after they have finished
        th.start()
        th.join(HIST_BOUND)
        if th.is_alive():
            notes.append('hang in the fresh observer thread')
    bt = threading.Thread(target=body, name='ft-body', daemon=True)
    bt.start()
    bt.join(HIST_BOUND + 15)
    for f in flags.values():
        try:
            open(f, 'w').close()
        except OSError:
            pass
    for w, o in list(ws.items()):
        th = _thread_of.get(w)
        if th is not None:
            th.join(3)
        ses.dead_refs.append(weakref.ref(o))
    ws.clear()
    rec = {'id': str(job['id']), 'scn': {'n': job.get('live', 1) + job.get('dead', 2), 'kinds': {'*': 'thread'}, 'fresh_thread': 'T'},
           'obs': {'calls': calls, 'autos': autos}}
    return {'id': job['id'], 'rec': rec, 'notes': notes, 'finished': done['ok'], 'reglens': [ses.reglen()], 'restarted': []}


def dead_frontend(job, ses, tmp):
    """A persistent remote worker whose frontend thread has died (the target returned something the parent cannot
    rebuild) while its remote child keeps serving: the worker is alive as long as its process is - it must be listed
    by active_children() and closed by autoclose.  Liveness is read from the OS (pid + start time), not from the worker."""
    notes, calls, autos = [], [], []
    finished = False
    pids = []

    def alive(p):
        return p[1] is not None and _proc_start(p[0]) == p[1] and _os_alive_pid(p[0])

    def body():
        nonlocal finished
        try:
            ses.need_server()
            name = 'df-%s' % job['id']
            w = ses.cls[('remote', True)](ses.targets.bad_result, name=name, host=ses.addr)
            child = (w.pid, _proc_start(w.pid))
            pids.append(child)
            front = _find_thread(name='%s (remote front)' % name)
            others = {}
            for k in range(job.get('others', 0)):
                ses.nflag += 1
                flag = os.path.join(tmp, 'dflag-%d-%d' % (os.getpid(), ses.nflag))
                others[2 + k] = (ses.cls[('thread', False)](ses.targets.sleeper, args=[flag], name='df-%s-%d' % (job['id'], 2 + k)), flag)
            w.enqueue('@badresult')
            t0 = time.time()
            while front is not None and front.is_alive() and time.time() - t0 < 5:
                time.sleep(0.002)
            if front is None or front.is_alive():
                notes.append('the frontend thread did not die: scenario not established')
            if job.get('held', True) is False:
                ref = weakref.ref(w)
                del w
                gc.collect()
            for rnd in range(2):
                live = ([1] if alive(child) else []) + sorted(others)
                y = []
                for o in ses.Worker.active_children():
                    y.append(1 if getattr(o, 'name', None) == name else next((k for k, (x, _f) in others.items() if x is o), 900))
                calls.append({'t': 1, 'y': y, 'lb': live, 'la': live, 'retained': 0, 'died': 0})
                if rnd == 0 and job.get('auto', True):
                    raised = 'none'
                    try:
                        with ses.autoclose():
                            pass
                    except Exception as e:  # noqa
                        raised = type(e).__name__
                        notes.append('autoclose raised %r' % (e,))
                    t0 = time.time()
                    while (alive(child) or any(x.is_alive() for x, _f in others.values())) and time.time() - t0 < 4:
                        time.sleep(0.005)
                    after = ([1] if alive(child) else []) + [k for k, (x, _f) in sorted(others.items()) if x.is_alive()]
                    autos.append({'after': after, 'raised': raised})
                    for k in [k for k, (x, _f) in others.items() if not x.is_alive()]:
                        ses.dead_refs.append(weakref.ref(others.pop(k)[0]))
            for k, (x, f) in others.items():
                open(f, 'w').close()
                x.wait(3)
            finished = True
        except BaseException as e:  # noqa
            notes.append('aborted: %r' % (e,))
    bt = threading.Thread(target=body, name='df-body', daemon=True)
    bt.start()
    bt.join(HIST_BOUND)
    if bt.is_alive():
        notes.append('hang in the dead-frontend scenario')
    for pid, start in pids:
        if start is not None and _proc_start(pid) == start and _os_alive_pid(pid):
            try:
                os.kill(pid, signal.SIGKILL)
            except OSError:
                pass
    rec = {'id': str(job['id']), 'scn': {'n': 1 + job.get('others', 0), 'kinds': {'1': 'remote'}, 'dead_frontend': 'T'},
           'obs': {'calls': calls, 'autos': autos}}
    return {'id': job['id'], 'rec': rec, 'notes': notes, 'finished': finished, 'reglens': [ses.reglen()], 'restarted': []}


def runner_main(jobfile, outfile):
    parent_watchdog()
    with open(jobfile) as f:
        jobs = json.load(f)
    ses = Session()
    tmp = os.path.dirname(os.path.abspath(outfile))
    ses.tmpdir = tmp
    results = []
    try:
        for j in jobs:
            if j.get('type') == 'stress':
                j['tmp'] = tmp
                results.append(stress(j, ses))
            elif j.get('type') == 'race':
                results.append(race(j, ses, tmp))
            elif j.get('type') == 'deadfront':
                results.append(dead_frontend(j, ses, tmp))
            elif j.get('type') == 'freshthread':
                results.append(fresh_thread(j, ses, tmp))
            else:
                results.append(RegReplay(j, ses, tmp).run())
            if len(results) % 8 == 0:
                with open(outfile + '.part', 'w') as f:
                    json.dump(results, f)
    finally:
        ses.close()
    with open(outfile, 'w') as f:
        json.dump(results, f)
    return 0


# --------------------------------------------------------------------------- scenarios

def long_history(rng, jid, creations, heavy=False):
    """A long randomized history: `creations` workers come and go (at most ~6 alive), with active_children() checkpoints."""
    h, kinds, modes = [], {}, {}
    live, deadp, n = [], [], 0
    while n < creations or live:
        r = rng.random()
        if n < creations and (len(live) < 2 or (len(live) < 6 and r < 0.45)):
            n += 1
            run = rng.random() < 0.9
            pers = rng.random() < 0.4
            kinds[str(n)] = rng.choice(['process', 'remote']) if heavy and rng.random() < 0.15 else 'thread'
            h.append(['create', n, 'run' if run else 'norun', 'pers' if pers else 'once'])
            if run:
                live.append((n, pers))
        elif live and r < 0.8:
            w, pers = live.pop(rng.randrange(len(live)))
            modes[str(len(h))] = rng.choice(['finish', 'finish', 'terminate'])
            h.append(['die', w, '-', '-'])
            if pers:
                deadp.append(w)
        elif deadp and r < 0.9:
            w = deadp.pop(rng.randrange(len(deadp)))
            h.append(['restart', w, '-', '-'])
            live.append((w, True))
        else:
            h.append(['ac', 1, '-', '-'])
        if rng.random() < 0.25:
            h.append(['ac', 1, '-', '-'])
        if n >= creations and not live:
            break
    h.append(['ac', 1, '-', '-'])
    return {'id': jid, 'h': h, 'kinds': kinds, 'modes': modes, 'long': True}


def classify(rec, restarted):
    """Canonical abstraction of a failing record for the known-findings signature."""
    extra = missing = 'none'
    dup = 'no'
    for c in rec['obs']['calls']:
        may, must = set(c['lb']) | set(c['la']), set(c['lb']) & set(c['la'])
        if set(c['y']) - may:
            extra = 'dead'          # the driver's live set is exact: anything else that is yielded is a dead (or foreign dead) worker
        m = must - set(c['y'])
        if m:
            missing = 'restarted' if m <= set(restarted) else 'live'
        if len(c['y']) != len(set(c['y'])):
            dup = 'yes'
    left = 'none'
    for a in rec['obs']['autos']:
        if a['after']:
            left = 'restarted' if set(a['after']) <= set(restarted) else 'live'
            if a.get('raised', 'none') != 'none':
                left += '(exit raised %s)' % a['raised']
    return extra, missing, dup, left


# --------------------------------------------------------------------------- the check

def run(prop, tier, replay=None):
    assert prop == 'C19'
    T = Timer()
    ev = Evidence(prop, tier)
    rng = random.Random(seed() * 7919 + 19)
    quick = tier == 'quick'

    if replay is not None:
        job = replay['replay']
        res = run_jobs([job], 1, 'replay19', 180, module='vf.drivers.registry')[0]
        fails, _ = tlc.judge('RegistryJudge', [res['rec']], name='replay')
        print('replayed:', json.dumps({'h': job.get('h', job.get('type')), 'notes': res['notes']}))
        print(json.dumps(res['rec']['obs'])[:3000])
        for _, c in fails:
            print('VIOLATION property=C19 replay=(given) clause=%s' % c)
        return 1 if fails else 0

    # ---- the design
    wit = {}
    prefetch('RegistryMC', [(w, _cfg('Registry_mc.cfg', inv=[w])) for w in ('W_NoPrune', 'W_NoRestartAfterPrune', 'W_NoConcurrentDeath', 'W_NoTwoCallers', 'W_NoCreateDuringCall')] +
             [('prefix', open(os.path.join(tlc.SPEC, 'Registry_prefix.cfg')).read()),
              ('norereg', _cfg('Registry_mc.cfg', inv=['Inv_C19_Exact', 'Inv_C19_Autoclose'], FixRestart='FALSE')),
              ('outsidelock', _cfg('Registry_mc.cfg', inv=['Inv_C19_Exact'], PruneOutsideLock='TRUE')),
              ('nofinally', _cfg('Registry_mc.cfg', inv=['Inv_C19_Autoclose'], AutoFinally='FALSE')),
              ('weakreg', _cfg('Registry_mc.cfg', inv=['Inv_C19_Exact'], HeldSet='H_both', WeakRegistry='TRUE')),
              ('mc-held', _cfg('Registry_mc.cfg', HeldSet='H_both', MaxSteps=5 if quick else 6)),
              ('W_NoUnheldYielded', _cfg('Registry_mc.cfg', inv=['W_NoUnheldYielded'], HeldSet='H_both'))])
    r = tlc.run('RegistryMC', cfg_text=_cfg('Registry_mc.cfg', **({} if quick else {'MaxSteps': 7})), coverage=not quick, name='mc', timeout=3000)
    ev.add_tlc('exhaustive: 2 concurrent active_children() callers (lock / prune+copy / release / return) x create run|not-run x die x restart x autoclose, 3 workers', r)
    if r.error:
        raise MachineryError('Registry.tla violates its own properties: %s\n%s' % (r.error, '\n'.join(r.trace[:80])))
    rl = tlc.run('RegistryMC', cfg_text=_cfg('Registry_mc.cfg', inv=[], MaxSteps=4) + 'PROPERTY Live_CallReturns\n', name='live', timeout=1200)
    ev.add_tlc('liveness: every active_children() call returns', rl)
    if rl.error:
        raise MachineryError('Live_CallReturns fails in the model: %s' % rl.error)
    rh = _sr('RegistryMC', cfg_text=_cfg('Registry_mc.cfg', HeldSet='H_both', MaxSteps=5 if quick else 6), name='mc-held', must_complete=True)
    if not rh.completed and not rh.error:
        raise MachineryError('TLC did not complete the handle-less configuration')
    ev.add_tlc('exhaustive: the same with workers whose handle the caller drops right after construction (held = FALSE)', rh)
    if rh.error:
        raise MachineryError('Registry.tla (handle-less workers) violates its own properties: %s\n%s' % (rh.error, '\n'.join(rh.trace[:80])))
    rf = _sr('RegistryMC', cfg_text=_cfg('Registry_mc.cfg', inv=['Inv_C19_Autoclose'], AutoFinally='FALSE'), name='nofinally', must_complete=False)
    if rf.error != 'invariant:Inv_C19_Autoclose':
        raise MachineryError('an autoclose block left through an exception without clean-up is not rejected by the model checker: %s' % rf.error)
    wit['autoclose_without_finally_model'] = rf.error
    rk = _sr('RegistryMC', cfg_text=_cfg('Registry_mc.cfg', inv=['Inv_C19_Exact'], HeldSet='H_both', WeakRegistry='TRUE'), name='weakreg', must_complete=False)
    if rk.error != 'invariant:Inv_C19_Exact':
        raise MachineryError('a registry of weak references (a handle-less live worker vanishes) is not rejected by the model checker: %s' % rk.error)
    wit['weak_registry_model'] = rk.error
    rw = _sr('RegistryMC', cfg_text=_cfg('Registry_mc.cfg', inv=['W_NoUnheldYielded'], HeldSet='H_both'), name='W_NoUnheldYielded', must_complete=False)
    if rw.error != 'invariant:W_NoUnheldYielded':
        raise MachineryError('witness W_NoUnheldYielded not reachable (vacuous model): %s' % rw.error)
    wit['W_NoUnheldYielded'] = 'reached'
    for w in ('W_NoPrune', 'W_NoRestartAfterPrune', 'W_NoConcurrentDeath', 'W_NoTwoCallers', 'W_NoCreateDuringCall'):
        rw = _sr('RegistryMC', cfg_text=_cfg('Registry_mc.cfg', inv=[w]), name=w, must_complete=False)
        if rw.error != 'invariant:' + w:
            raise MachineryError('witness %s not reachable (vacuous model): %s' % (w, rw.error))
        wit[w] = 'reached'
    rp = _sr('RegistryMC', 'Registry_prefix.cfg', name='prefix', must_complete=False)
    if not (rp.error or '').startswith('invariant:Inv_C19'):
        raise MachineryError('the current registry code (pruned list assigned to Worker._children) is not rejected by the model checker: %s' % rp.error)
    wit['current_code_model'] = rp.error
    rr = _sr('RegistryMC', cfg_text=_cfg('Registry_mc.cfg', inv=['Inv_C19_Exact', 'Inv_C19_Autoclose'], FixRestart='FALSE'), name='norereg', must_complete=False)
    if not (rr.error or '').startswith('invariant:Inv_C19'):
        raise MachineryError('prune fixed but register_child still skipped on restart: not rejected by the model checker: %s' % rr.error)
    wit['prune_fixed_restart_not_registered_model'] = rr.error
    ro = _sr('RegistryMC', cfg_text=_cfg('Registry_mc.cfg', inv=['Inv_C19_Exact'], PruneOutsideLock='TRUE'), name='outsidelock', must_complete=False)
    if ro.error != 'invariant:Inv_C19_Exact':
        raise MachineryError('liveness evaluated between two lock sections (a racing registration is overwritten): not rejected by the model checker: %s' % ro.error)
    wit['prune_outside_lock_model'] = ro.error
    ev.cov['witnesses'] = wit
    # unbounded history length: Apalache discharges the inductive invariant of RegistryInd.tla (same critical sections, registry as a set,
    # 5 worker objects x 3 caller threads, any number of restarts / calls / autoclose blocks) and rejects the two pre-fix algorithms
    ev.cov['apalache_inductive_invariant'] = tlc.apalache_inductive(
        'RegistryInd', 'Mutex, LiveReg, Exact (C19_Exact), Bounded (C19_Bounded), Autoclose (C19_Autoclose) for histories of ANY length',
        rejected_nexts=('NextBadRestart', 'NextBadPrune'))
    ev.cov['phase_s'] = {'model_checking': T.s()}

    # ---- spec -> code
    rpaths = tlc.run('RegistryMC', cfg_text=_cfg('Registry_paths.cfg', MaxSteps=6 if quick else 7), workers=1, name='paths', timeout=3000)
    ev.add_tlc('path dump: sequential histories ending in an observation (Hist=TRUE)', rpaths)
    if rpaths.error:
        raise MachineryError('path dump failed: ' + rpaths.error)
    paths = [(_tla_seq(hs), _tla_seq(ys), rl_) for hs, ys, rl_ in rpaths.tags.get('PATH', [])]
    n_exh = len(paths)
    cap = 2500 if quick else 40000
    sel = paths if len(paths) <= cap else rng.sample(paths, cap)
    jobs, expect = [], {}

    def add(h, ys, rl_, heavy):
        kinds = {}
        modes = {}
        for n, st in enumerate(h):
            if st[0] == 'create':
                kinds[str(st[1])] = rng.choice(['process', 'remote']) if heavy and rng.random() < 0.5 else 'thread'
            if st[0] == 'die':
                modes[str(n)] = rng.choice(['finish', 'finish', 'terminate'])
        j = {'id': 'g%d' % len(jobs), 'h': h, 'kinds': kinds, 'modes': modes}
        jobs.append(j)
        expect[j['id']] = (ys, rl_)
    for h, ys, rl_ in sel:
        add(h, ys, rl_, False)
    interesting = [p for p in paths if any(s[0] == 'restart' for s in p[0]) or any(s[0] in ('auto', 'autoexc') for s in p[0])]
    for h, ys, rl_ in rng.sample(interesting, min(len(interesting), 150 if quick else 1200)):
        add(h, ys, rl_, True)
    # fire-and-forget workers whose liveness does not hang on a thread of this process: process kind, forced
    unheld_paths = [p for p in paths if any(s[0] == 'create' and s[3] == 'once-unheld' for s in p[0])]
    nfree = 0
    for h, ys, rl_ in rng.sample(unheld_paths, min(len(unheld_paths), 24 if quick else 400)):
        add(h, ys, rl_, False)
        for st in h:
            if st[0] == 'create' and st[3] == 'once-unheld':
                jobs[-1]['kinds'][str(st[1])] = 'process' if nfree % 4 else 'remote'
        jobs[-1]['modes'] = {}
        nfree += 1
    ev.cov['handle_less_process_or_remote_replays'] = nfree
    nlong = 14 if quick else 56
    for k in range(nlong):
        jobs.append(long_history(rng, 'L%d' % k, 120 if quick else 400, heavy=(k % 7 == 0)))
    for k in range(2 if quick else 8):
        jobs.append({'id': 'S%d' % k, 'type': 'stress', 'seed': rng.randrange(10 ** 6), 'creations': 150 if quick else 600})
    nrace = 0
    for k in range(5 if quick else 20):
        for action in ('create', 'restart'):
            for others in (0, 1, 2):
                jobs.append({'id': 'R%d' % nrace, 'type': 'race', 'action': action, 'others': others, 'moment': 0.15 if quick else 0.3})
                nrace += 1
    for k in range(8 if quick else 40):
        jobs.append({'id': 'D%d' % k, 'type': 'deadfront', 'others': k % 3, 'held': bool(k % 2)})
    for k in range(12 if quick else 60):
        jobs.append({'id': 'F%d' % k, 'type': 'freshthread', 'live': 1 + k % 2, 'dead': 1 + k % 3})
    ev.cov['phase_s']['path_dumps'] = T.s()
    order = sorted(jobs, key=lambda j: (0 if j.get('long') or j.get('type') else 1, j['id']))
    results = run_jobs(order, 14, 'C19', 75 if quick else 1500, module='vf.drivers.registry')
    ev.cov['phase_s']['replays'] = T.s()
    byid = {r_['id']: r_ for r_ in results}
    records = [byid[j['id']]['rec'] for j in jobs if j['id'] in byid]
    if not records:
        raise MachineryError('no replay ran at all')
    fails, rj = tlc.judge('RegistryJudge', records, name='judge', timeout=1500)
    if not fails and len(records) < len(jobs) // 2:
        raise MachineryError('%d of %d replays did not run and the ones that ran show no violation' % (len(jobs) - len(records), len(jobs)))
    ev.add_tlc('judge: C19 operators on %d real executions' % len(records), rj, role='judge')
    failing = {}
    for rid, clause in fails:
        failing.setdefault(rid, []).append(clause)
    jb = {j['id']: j for j in jobs}
    violations = []
    for rid, clauses in failing.items():
        res = byid[rid]
        extra, missing, dup, left = classify(res['rec'], res['restarted'])
        sig = 'C19|clauses=%s|extra=%s|missing=%s|dup=%s|autoleft=%s' % ('+'.join(sorted(clauses)), extra, missing, dup, left)
        j = jb[rid]
        desc = 'history %s' % [s[:2] if s[0] != 'create' else s for s in j['h']][:14] if 'h' in j else \
            ('forced race: %s by a second thread while active_children() evaluates is_alive() (%d other live workers); %s'
             % (j['action'], j['others'], res['notes'][-1:]) if j.get('type') == 'race' else
             'active_children()/autoclose in a thread started after %d thread worker(s) finished, %d alive; %s'
             % (j['dead'], j['live'], res['notes'][:2]) if j.get('type') == 'freshthread' else
             'persistent remote worker whose frontend thread died while its remote child keeps serving (+%d thread workers); %s'
             % (j['others'], res['notes'][:2]) if j.get('type') == 'deadfront' else 'two-caller stress run')
        first = next((c for c in res['rec']['obs']['calls'] if set(c['y']) != set(c['lb'])), None)
        if first is not None:
            first = {k: (v[:8] + ['... %d more' % (len(v) - 8)] if isinstance(v, list) and len(v) > 8 else v) for k, v in first.items()}
        violations.append(Violation('C19', sig, '%s fails: %s%s; first deviating call %s; autoclose left %s'
                                    % (','.join(sorted(clauses)), desc, ' ...' if len(j.get('h', [])) > 14 else '', first,
                                       [a['after'] for a in res['rec']['obs']['autos'] if a['after']][:1]), j))
    # conformance of the sequential replays: yielded sets and (soft) registry length vs the TLC behaviour
    drift, nconf, mism = [], 0, 0
    for rid, (ys, rl_) in expect.items():
        if rid not in byid or rid in failing:
            continue
        res = byid[rid]
        nconf += 1
        real = [c['y'] for c in res['rec']['obs']['calls']]
        if real != ys or not res['finished'] or any(n.startswith('hang') or n.startswith('aborted') for n in res['notes']):
            mism += 1
            if len(drift) < 3:
                drift.append('registry deviates from the TLC behaviour: history %s spec yields %s real yields %s notes %s'
                             % (jb[rid]['h'], ys, real, res['notes'][:2]))
    if mism:
        drift.append('%d of %d conformance-checked replays deviate' % (mism, nconf))
    maxreg = max([max(r_['reglens']) for r_ in results if r_['reglens']] or [0])
    ncalls = sum(len(r_['rec']['obs']['calls']) for r_ in results)
    ev.cov['traces_validated_against_impl'] = nconf - mism
    ev.cov['evaluations'] = len(records)
    ev.cov['distinct_nontrivial'] = len(set(json.dumps([j.get('h'), j.get('kinds'), j.get('seed')]) for j in jobs
                                            if j['id'] in byid and (j.get('type') or any(s[0] == 'die' for s in j['h']))))
    ev.cov['rule'] = ('each case = a history of create(run|not-run, one-shot|persistent, kind)/die/restart/active_children/autoclose: %d enumerated by TLC '
                      '(all replayed when <= %d, else a seeded sample), %d long randomized histories (%d creations each), %d two-caller stress runs; '
                      'non-trivial = at least one worker dies before an observation' % (n_exh, cap, nlong, 120 if quick else 400, 2 if quick else 8))
    ev.cov['exhaustive'] = len(paths) <= cap
    ev.cov['active_children_calls_judged'] = ncalls
    ev.cov['max_registry_length_seen'] = maxreg
    ev.cov['replay_mismatches'] = mism
    races = [byid[j['id']] for j in jobs if j.get('type') == 'race' and j['id'] in byid]
    inside = sum(1 for r_ in races if r_.get('inside'))
    ev.cov['forced_registration_races'] = {'run': len(races), 'registration_completed_inside_the_liveness_evaluation': inside,
                                           'registration_waited_for_the_lock': sum(1 for r_ in races if r_.get('inside') is False)}
    if inside and not any(v.replay.get('type') == 'race' for v in violations):
        drift.append('%d of %d forced races: a registration completed while active_children() was evaluating is_alive() '
                     '(Registry.tla evaluates liveness inside the lock)' % (inside, len(races)))
    for r_ in races:
        if not r_['finished'] and r_['id'] not in failing:
            drift.append('forced race %s did not finish: %s' % (r_['id'], r_['notes'][:3]))
            break
    ev.cov['replays_with_process_or_remote'] = sum(1 for j in jobs if j['id'] in byid and any(k != 'thread' for k in j.get('kinds', {}).values()))
    for j in jobs[:1] + [j for j in jobs if any(k != 'thread' for k in j.get('kinds', {}).values())][:1]:
        ev.sample({'history': j['h'], 'kinds': j['kinds'], 'calls': byid[j['id']]['rec']['obs']['calls'] if j['id'] in byid else None})
    lj = next((j for j in jobs if j.get('long') and j['id'] in byid), None)
    if lj:
        ev.sample({'long_history_steps': len(lj['h']), 'first_steps': lj['h'][:12], 'registry_lengths_at_calls': byid[lj['id']]['reglens'][:40]})
    ev.assumptions += ['the driver controls when workers die (targets live until released), so the set of live workers at a call is known exactly',
                       'retention is observed with weak references after gc.collect(); the registry length is read with getattr (soft, conformance only)',
                       'real interleavings of two callers inside the lock are not controlled (stress run with may/must live sets); the model covers them']
    return finish(ev, violations, T.s(), drift)


if __name__ == '__main__':
    if len(sys.argv) == 4 and sys.argv[1] == '--runner':
        rc = runner_main(sys.argv[2], sys.argv[3])
        sys.stdout.flush()
        os._exit(rc)
    print('usage: python -m vf.drivers.registry --runner jobs.json out.json')
