----------------------------- MODULE PoolProps -----------------------------
(* C07 / C08 as operators over an observable record r = [scn |-> .., obs |-> ..].      *)
(*  scn.n        number of inputs (inputs are 1..n, Target(x) = x)                     *)
(*  scn.retry    "T" | "F"                                                              *)
(*  scn.retres   "T" | "F"   Pool.run(return_results=...)                               *)
(*  obs.outcome  "ok" | "poolerror" | "internal_error" | "livelock" | "hang" | ...     *)
(*  obs.ret      sequence: for each returned/partial result the input it is the value  *)
(*               of (0 = not the target's value of any input); with per-worker input    *)
(*               callables the input is the whole tuple drawn, so a value computed from *)
(*               a tuple that was never drawn counts as 0                               *)
(*  obs.retnone  "T" iff run() returned None / PoolError.partial_results is None        *)
(*  obs.alive    sequence of workers still alive (able to work) when run() ended        *)
(*  obs.dead     sequence of workers dead when run() ended                              *)
(*  obs.refusers sequence of workers for which the user enqueue_fn ever refused         *)
(*  obs.handed   handed[x] = sequence of workers input x was (being) handed to          *)
(*  obs.answered sequence of <<w, x>>: worker w's result for x was delivered to run()   *)
EXTENDS Naturals, Sequences, FiniteSets

Range(s) == {s[k] : k \in 1..Len(s)}
NoDup(s) == \A a, b \in 1..Len(s) : a # b => s[a] # s[b]

C07_NoInternalError(r) == r.obs.outcome \in {"ok", "poolerror"}
C07_ExactlyOnce(r) == (r.obs.outcome = "ok" /\ r.scn.retry = "T" /\ r.scn.retres = "T") =>
                         /\ Len(r.obs.ret) = r.scn.n
                         /\ Range(r.obs.ret) = 1..r.scn.n
                         /\ r.obs.retnone = "F"
C07_Terminates(r) == r.obs.outcome \notin {"hang", "livelock", "running"}

C08_SoundError(r) == r.obs.outcome = "poolerror" => Len(r.obs.alive) = 0
\* a worker that stayed alive and was never refused anything keeps working
C08_SurvivorSuffices(r) == (r.scn.retry = "T" /\ \E k \in 1..Len(r.obs.alive) : r.obs.alive[k] \notin Range(r.obs.refusers))
                              => r.obs.outcome # "poolerror"
C08_Genuine(r) == /\ \A k \in 1..Len(r.obs.ret) : r.obs.ret[k] \in 1..r.scn.n
                  /\ NoDup(r.obs.ret)
C08_MissingExplained(r) == (r.scn.retry = "F" /\ r.obs.outcome = "ok" /\ r.scn.retres = "T") =>
                              \A x \in (1..r.scn.n) \ Range(r.obs.ret) :
                                 \E k \in 1..Len(r.obs.handed[x]) :
                                    /\ r.obs.handed[x][k] \in Range(r.obs.dead)
                                    /\ <<r.obs.handed[x][k], x>> \notin Range(r.obs.answered)
=============================================================================
