#!/usr/bin/env python3
"""Regenerate MANIFEST.json from the table below (single source of truth for the interface)."""
import json, os
HERE = os.path.dirname(os.path.abspath(__file__))
BASE = "cd /repo && /venv/bin/python -m pytest -ra -q -p no:cacheprovider --timeout=900 --continue-on-collection-errors"

import sys, glob, importlib
sys.path.insert(0, HERE)
CHECKS = {}
for f in sorted(glob.glob(os.path.join(HERE, 'vf', 'drivers', '*.py'))):
    n = os.path.basename(f)[:-3]
    if n.startswith('_'):
        continue
    m = importlib.import_module('vf.drivers.' + n)
    CHECKS.update(getattr(m, 'CHECKS', {}))
# only checks that have been run green on the unchanged tree by the integrator are claimed
READY = ['C%02d' % i for i in range(1, 21)]
CHECKS = {k: v for k, v in CHECKS.items() if k in READY}
NOT_YET = {}

def main():
    props = [json.loads(l)['id'] for l in open(os.path.join(HERE, 'properties.jsonl'))]
    checks = []
    for pid in props:
        if pid not in CHECKS:
            continue
        c = CHECKS[pid]
        checks.append({
            'property_id': pid,
            'quick_cmd': './check %s --tier quick' % pid,
            'thorough_cmd': './check %s --tier thorough' % pid,
            'evidence_file': '/verif/evidence/%s.json' % pid,
            'replay_cmd_template': './check %s --replay {path}' % pid,
            'engine': c['engine'],
            'level_claimed': {'category': 'model_checking', 'text': c['text'], 'design_ref': 'DESIGN.md ' + c['design_ref']},
            'level_note': c['note'],
            'technique': c['technique'],
        })
    na = [{'property_id': p, 'reason': NOT_YET.get(p, 'check not built yet in this round (planned: see DESIGN.md section 6); no claim is made')} for p in props if p not in CHECKS]
    engines = {}
    for pid, c in CHECKS.items():
        engines.setdefault(c['engine'], []).append(pid)
    m = {
        'version': 1,
        'setup_cmd': './check setup',
        'hooks': {'guard': 'PYWORKERS_VERIF', 'enable': 'PYWORKERS_VERIF=1 PYTHONPATH=/verif/agent (in-child tracer via sitecustomize; no source edits in /repo)',
                  'baseline_off_cmd': BASE, 'source_commits': [], 'add_only': True},
        'engines': [{'name': e, 'path': '/verif/spec/%s.tla' % e, 'serves_properties': sorted(p), 'kind_free_text': 'TLA+ specification checked with TLC; bound to the code by replay and trace validation'} for e, p in sorted(engines.items())],
        'checks': checks,
        'not_applicable': na,
        'notes': ('Model-based verification with explicit TLA+ specifications (DESIGN.md; section 11 "As built" is authoritative; spec/README.md indexes the modules). '
                  'Commands run in /verif; exit 0 = held on everything explored (KNOWN-FINDING lines list the findings of known_findings.json / known_findings.d/*.json that were seen), '
                  'exit 1 + "VIOLATION property=<id> replay=<path>" = an unlisted violation (replay with ./check <id> --replay <path>), exit 2 = machinery failure (never a verdict). '
                  'DRIFT lines = the real code left the behaviours of the specification without breaking a clause (exit code unaffected). '
                  'VERIF_SEED selects the sampled part of each check; VERIF_REPO=<dir> checks another tree; checks are meant to run one at a time. '
                  'Repairs of genuine defects are the "fix:" commits of /repo (DESIGN.md 11.3, "fixed" in known_findings.json); seeded changes with demos: seeded/; ./check selftest checks the machinery itself.'),
    }
    json.dump(m, open(os.path.join(HERE, 'MANIFEST.json'), 'w'), indent=1)
    print('MANIFEST.json: %d checks, %d not_applicable' % (len(checks), len(na)))

if __name__ == '__main__':
    main()
