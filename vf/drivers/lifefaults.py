"""C01 / C03 / C06 / C16 - one life of one worker under faults placed by the in-child tracer.

spec/OneShot.tla models the child's run loop by region (exception routing, result protocol,
landing of the asynchronous exception and kills at every label) and is model-checked; the
real side executes real workers of all six classes with a fault at enumerated *line events*
of the child's run loop (graceful terminate landing there, SIGKILL/SIGTERM there, kill while
blocked sending a big result) and hands the projected (scn, obs) records to TLC (LifeJudge),
which evaluates the same operators (LifeProps)."""
import json
from concurrent.futures import ThreadPoolExecutor
import multiprocessing as mp
import os
import random
import sys

from .. import tlc
from ..common import MachineryError, Timer, VERIF, seed
from ..report import Evidence, Violation, finish

_NOTE = ('Trusted: TLC; the in-child tracer (sys.settrace line events; asynchronous exceptions are delivered by CPython at eval-breaker '
         'checkpoints, so line granularity over-approximates where they can land); abstraction of values to own/other. '
         'Quick tier samples landing points per function for process/remote kinds; thorough takes every line event.')
CHECKS = {
    'C01': dict(engine='OneShot', technique='TLA+ spec OneShot.tla (child run loop by region, exception routing, result protocol, landings and kills at every label) model-checked with TLC; faults forced at enumerated line events of real children by an in-child tracer; TLC judge (LifeJudge) on every real life',
                text='TLC checks the outcome-shape invariants over every landing/kill label of the run-loop model for the three kinds; the same operators are evaluated by TLC on records of real workers of all six classes ended in every way (return, Exception, BaseException, un-rebuildable exception, terminate landing at enumerated line events incl. handler and cleanup, SIGKILL/SIGTERM there, kill while blocked sending a 3 MB result) with repeated observation after death.',
                note=_NOTE, design_ref='6/C01'),
    'C03': dict(engine='OneShot', technique='TLA+ spec OneShot.tla model-checked with TLC (Land action at every label); graceful terminate landed on enumerated line events of real children via pause/resume handshake of the in-child tracer; TLC judge (LifeJudge)',
                text='Every line-level landing point of the asynchronous WorkerTerminatedError from construction-complete to exit (sampled per function for process/remote in the quick tier) for thread, process and remote workers, one-shot and persistent, targets with try/finally that return or raise; where the exception surfaced is reported by the agent, not guessed; TLC judges Reported / NothingElse / OwnOutcome / DeadInTime.',
                note=_NOTE, design_ref='6/C03'),
    'C06': dict(engine='OneShot', technique='TLA+ spec OneShot.tla (persistent loop: recv, run, counter, send, cleanup/end marker, frontend forwarding) model-checked with TLC; terminate/SIGKILL/target exception forced at enumerated line events of real persistent children; TLC judge (IsPrefix, stream ends)',
                text='Persistent workers of the three kinds with 0-3 items, faults at line events of the child loop (between receiving input, calling the target, incrementing the counter, sending the result, cleanup); the drained stream must be a prefix of the expected sequence and must end (no blocking) - judged by TLC on every real run.',
                note=_NOTE, design_ref='6/C06'),
    'C16': dict(engine='OneShot', technique='TLA+ spec OneShot.tla (user_state child/parent copies, end-of-life send) model-checked with TLC; real workers whose run() assigns user_state, faults via in-child tracer, restart chains; TLC judge',
                text='user_state observed by the parent while the child is paused (must be the initial value for process/remote), after every kind of end that can report (must be the last assigned value, with the assignment/log window accounted for), the setter from the parent, and restart chains.',
                note=_NOTE, design_ref='6/C16'),
}

ANCHOR_FILES = ('thread.py', 'process.py', 'remote.py', 'persistent_thread.py', 'persistent_process.py', 'persistent_remote.py', 'persistent.py')

_H = None


def _init_worker():
    global _H
    os.dup2(os.open(os.devnull, os.O_WRONLY), 2)      # tracebacks of deliberately killed children are noise
    sys.path.insert(0, VERIF)
    from vf.lifeharness import Harness
    _H = Harness()
    import atexit
    atexit.register(_H.close)


def _do(case):
    try:
        rec = _H.run_case(case)
    except BaseException as e:  # noqa
        import traceback
        return {'case': case, 'error': traceback.format_exc()[-1500:]}
    rec['case'] = case
    return rec


def _close(_):
    if _H is not None:
        _H.close()
    return True


class Farm:
    """non-daemonic worker processes (they create children themselves), one Harness each"""

    def __init__(self, n=12):
        from concurrent.futures import ProcessPoolExecutor
        self.n = n
        self.pool = ProcessPoolExecutor(n, mp_context=mp.get_context('spawn'), initializer=_init_worker)

    def run(self, cases):
        return list(self.pool.map(_do, cases, chunksize=1))

    def close(self):
        try:
            list(self.pool.map(_close, range(self.n * 3), chunksize=1))
        except Exception:
            pass
        self.pool.shutdown(wait=True, cancel_futures=True)


def pick_points(events, tier, rng, dense):
    """event indices (1-based) where a fault is placed"""
    total = len(events)
    if tier == 'thorough' or dense:
        return list(range(1, total + 1))
    pts = set()
    stride = 7
    off = rng.randrange(stride)
    seen_func = {}
    for i, e in enumerate(events, 1):
        fn, func = e[0], e[1]
        key = (fn, func)
        seen_func[key] = seen_func.get(key, 0) + 1
        anchor = fn in ANCHOR_FILES and func in ('_run', '_run_backend', '_cleanup', '_send_result', 'do_work', '_init_child', 'send_msg')
        if anchor or seen_func[key] <= 1 or (i + off) % stride == 0:
            pts.add(i)
    pts.update([1, total])
    return sorted(pts)


def plans(prop, tier):
    """(kind, persistent, ending, items, faults) combos per property"""
    P = []
    kinds = ('thread', 'process', 'remote')
    if prop == 'C01':
        for k in kinds:
            for e in ('ret', 'exc', 'bexc', 'unreb', 'unreb2', 'badret'):
                P.append((k, False, e, 0, ('pause',) if e in ('ret', 'exc') else ()))
            P.append((k, False, 'slow', 0, (), None, 'poll'))
            if k == 'process':
                for e in ('unreb', 'unreb2', 'badret', 'ret'):
                    P.append((k, False, e, 0, (), None, 'alive'))      # death observed through is_alive() only (no wait())
            P.append((k, True, 'ret', 2, ('pause',)))
        # a first terminate(timeout=0) followed at once by a second one: two exceptions, the second lands wherever the child is
        P.append(('thread', False, 'exc', 0, ('pause',), None, 'double'))
        if tier == 'thorough':
            P.append(('process', False, 'exc', 0, ('pause',), None, 'double'))
            P.append(('remote', False, 'ret', 0, ('pause',), None, 'double'))
        for k in ('process', 'remote'):
            P.append((k, False, 'ret', 0, ('sigkill', 'sigterm')))
            P.append((k, False, 'big', 0, ()))
            P.append((k, True, 'ret', 2, ('sigkill',)))
    elif prop == 'C03':
        for k in kinds:
            P.append((k, False, 'ret', 0, ('pause',)))
            P.append((k, False, 'exc', 0, ('pause',)))
            P.append((k, True, 'ret', 2, ('pause',)))
            P.append((k, False, 'slowfin', 0, ('pause',), None, 'slowfin'))     # a finally block that needs 1.5 s of the timeout
            if k != 'thread':
                P.append((k, True, 'ret', 2, ('pause',), None, 'slowarg'))      # landing while the child rebuilds an argument (user code)
        P.append(('thread', False, 'ret', 0, ('term_after_finish',), None, None))
        for k in kinds:
            for items in (0, 2):
                P.append((k, True, 'ret', items, ('term_idle',), None, None))    # an idle persistent worker blocked in its receive, patient caller
            if k != 'thread':
                # the same with a child whose control thread needs 0.5 s to raise what it was asked for (caller grants 4 s)
                P.append((k, True, 'ret', 2, ('term_idle',), None, 'slowraise'))
    elif prop == 'C06':
        for k in kinds:
            for items in ((0, 2) if tier == 'quick' else (0, 1, 2, 3, 5)):
                P.append((k, True, 'ret', items, ('pause',) + (('sigkill',) if k != 'thread' else ())))
            P.append((k, True, 'exc', 4, ()))
            P.append((k, True, 'exc', 4, (), 'nowait'))        # the worker dies on its own; a consumer only reads the stream
            P.append((k, True, 'ret', 2, ('pause', 'sigkill') if k != 'thread' else ('pause',), 'blocked'))
            P.append((k, True, 'ret', 2, ('pause', 'sigkill') if k != 'thread' else ('pause',), 'poolstyle'))   # as a Pool consumes it
        # a target that swallows the request: forced termination (process: SIGTERM by the parent; remote: the server kills the
        # backend and writes the final result itself - no end-of-results message ever comes from the child)
        for k in ('process', 'remote'):
            for cons in ('poolstyle', 'blocked'):
                P.append((k, True, 'stubborn', 2, ('term_stubborn',), cons))
        # the parent-side forwarding thread paused at its line events while the backend is SIGKILLed
        P.append(('remote', True, 'ret', 2, ('fpause',), 'blocked'))
        # the same while it is in the middle of an 32 MB result message (the backend dies part-way through sending it)
        P.append(('remote', True, 'big', 2, ('fpause',), 'blocked', 'midmsg'))
    elif prop == 'C16':
        for k in kinds:
            P.append((k, False, 'ret', 0, ('pause',)))
            P.append((k, False, 'exc', 0, ('pause',) if k == 'process' else ()))
            P.append((k, True, 'ret', 2, ('pause',)))
            P.append((k, False, 'ret', 0, (), None, 'us_none'))        # init_state 5, last value assigned in the child: None
            P.append((k, False, 'ret', 0, (), None, 'us_zero'))        # init_state 7, no assignment in the child at all
            if k != 'thread':
                P.append((k, False, 'ret', 0, (), None, 'us_inplace'))     # init_state []: a container updated in place and assigned back
                P.append((k, False, 'exc', 0, (), None, 'us_inplace'))
                P.append((k, False, 'ret', 0, (), None, 'us_slow'))    # the last state takes 2 s to rebuild in the parent; the caller polls
            if k != 'thread':
                P.append((k, False, 'linger', 0, (), None, None))      # reported, but the child process lingers
                P.append((k, False, 'linger', 0, (), None, 'linger_term'))     # ... and is then force-terminated by an impatient caller
            for e in ('ret', 'exc'):
                P.append((k, True, e, 2, (), None, 'restart'))         # chains of restarts from a dead worker
        for mode in ('ctx', 'ctx_zero'):
            P.append(('remote', False, 'ret', 0, ('pause',) if mode == 'ctx' else (), None, mode))      # worker created within a RemoteContext
    return P


def signature(prop, clauses, rec):
    s, o = rec['scn'], rec['obs']
    rd = o['reads'][0] if o['reads'] else {'has_error': 'na', 'error': 'na', 'result': 'na'}
    return '%s|%s|%s|pers=%s|ending=%s|fault=%s|at=%s:%s|in_target=%s(%s)|in_work=%s|finished=%s|dead=%s|he=%s|err=%s|res=%s|us=%s|stream=%s' % (
        prop, '+'.join(sorted(clauses)), s['kind'], s['persistent'], s['ending'], s['fault'], s['file'], s['func'],
        s['in_target'], s.get('region', 'none'), s.get('in_work', 'F'), s['target_finished'], o['dead_observed'], rd['has_error'], rd['error'], rd['result'],
        o['us_end'] + ('/linger=' + o['linger'] if o.get('linger', 'na') != 'na' else '') + ('/restart=' + o['restart_from'] if o.get('restart_from', 'na') != 'na' else ''),
        o['stream']['end'])


def run(prop, tier, replay=None):
    T = Timer()
    ev = Evidence(prop, tier)
    rng = random.Random(seed())
    mine = prop + '_'
    farm = Farm(12)
    try:
        if replay is not None:
            rc_ = replay['replay']['case']
            if rc_.get('main_script'):
                recs = [x for x in main_script_lives(ev) if x['case']['kind'] == rc_['kind'] and x['case']['main_script'] == rc_['main_script']
                        and x['case']['args'] == rc_['args']]
            else:
                recs = farm.run([rc_])
            rec = recs[0]
            rec['id'] = 'replay'
            fails, _ = tlc.judge('LifeJudge', [_strip(rec)], name='replay')
            print('replayed:', json.dumps(_strip(rec))[:2000])
            bad = [c for _, c in fails if c.startswith(mine)]
            for c in bad:
                print('VIOLATION property=%s replay=(given) clause=%s' % (prop, c))
            return 1 if bad else 0

        allowed = model_runs(prop, tier, ev)
        pl = plans(prop, tier)
        sf = prop == 'C16'
        pl = [(x + (None, None))[:7] for x in pl]
        def gran(k):       # opcode-level landing points for thread workers in the thorough tier (C03's quantifier)
            return 'opcode' if (tier == 'thorough' and k == 'thread' and prop in ('C01', 'C03')) else 'line'
        base_cases = [{'kind': k, 'persistent': p, 'ending': e, 'items': it, 'fault': 'none', 'stateful': sf, 'consumer': c, 'observe': o,
                       'granularity': gran(k)} for (k, p, e, it, f, c, o) in pl]
        for bc, x in zip(base_cases, pl):
            if 'fpause' in x[4]:
                bc.update(fault='fpause', n=10 ** 6)       # the baseline records the line events of the frontend thread
            if 'term_stubborn' in x[4]:
                bc.update(fault='term_stubborn', n=0)      # (no undisturbed baseline: that target never ends)
        for bc in base_cases:
            if bc['observe'] == 'slowfin':
                bc['observe'] = None
            if bc['observe'] in ('double', 'midmsg', 'slowraise'):
                bc['observe'] = None
            if bc['observe'] == 'slowarg':
                bc.update(observe=None, slowarg=True)
            if bc['observe'] == 'linger_term':
                bc.update(observe=None, linger_term=True)
            if bc['observe'] == 'restart':
                bc.update(observe=None, restart_chain=2)
            if bc['observe'] == 'us_none':
                bc.update(observe=None, us_none=True, init_state=5)
            if bc['observe'] == 'us_inplace':
                bc.update(observe=None, us_inplace=True, init_state=[])
            if bc['observe'] == 'us_slow':
                bc.update(observe='poll', us_slow=True)
            if bc['observe'] == 'us_zero':
                bc.update(observe=None, us_zero=True, init_state=7)
            if bc['observe'] == 'ctx':
                bc.update(observe=None, in_context=True, init_state=40)
            if bc['observe'] == 'ctx_zero':
                bc.update(observe=None, in_context=True, us_zero=True, init_state=7)
        base = farm.run(base_cases)
        cases = []
        for (k, p, e, it, faults, cons, obsmode), b in zip(pl, base):
            if 'error' in b:
                raise MachineryError('baseline run failed: %s' % b['error'])
            events = b.get('events') or []
            if not events and faults and 'term_stubborn' not in faults:
                raise MachineryError('the in-child agent recorded no line events for %s (tracer not loaded?)' % (b['case'],))
            dense = (k == 'thread')
            for f in faults:
                if f == 'term_stubborn':
                    continue                               # already run as the "baseline" of this plan
                pts = pick_points(events, tier, rng, dense)
                if f in ('sigkill', 'sigterm') and tier == 'quick':
                    pts = pts[::3]
                if cons and tier == 'quick':
                    keep = [i for i in pts if events[i - 1][1] == 'send_msg']        # between two writes of one message
                    pts = sorted(set(pts[::2]) | set(keep))
                extra = {}
                if f in ('term_after_finish', 'term_idle', 'term_stubborn'):
                    pts = [0]
                if obsmode == 'midmsg':
                    # points inside the longest run of _recv_exact line events = while the big body is being collected
                    runs, cur = [], []
                    for i, ev_ in enumerate(events, 1):
                        if ev_[1] == '_recv_exact':
                            cur.append(i)
                        elif cur:
                            runs.append(cur)
                            cur = []
                    if cur:
                        runs.append(cur)
                    longest = max(runs, key=len) if runs else []
                    if len(longest) < 12:
                        raise MachineryError('the 32 MB result was not read in pieces (%d line events in _recv_exact): no mid-message point' % len(longest))
                    pts = [longest[len(longest) * q // 8] for q in (1, 2, 3, 4, 5, 6, 7)]
                    extra = {'fpause_wait': 12}
                if obsmode == 'slowraise':
                    extra = {'raise_delay': 0.5, 'idle_timeout': 4}
                if obsmode == 'ctx':
                    extra = {'in_context': True, 'init_state': 40}
                if obsmode == 'double':
                    extra = {'double': True}
                if obsmode == 'slowarg':
                    extra = {'slowarg': True}
                    pts = [i for i, ev_ in enumerate(events, 1) if ev_[0] == 'targets.py' and ev_[1] == '__setstate__']
                    pts = pts[::2] if tier == 'quick' else pts
                if obsmode == 'slowfin':
                    # land inside the try body of the target; the caller grants 6 s (4 s on the remote side)
                    from ..lifeharness import target_region
                    inside = [i for i, ev_ in enumerate(events, 1) if ev_[0] == 'targets.py' and ev_[1] == 't_slowfin'
                              and target_region('t_slowfin', ev_[2]) == 'try']
                    pts = inside[1:2] + (inside[3:4] if tier == 'thorough' else [])
                    extra = {'term_timeout': 6, 'remote_timeout': 4}
                for n in pts:
                    cases.append(dict({'kind': k, 'persistent': p, 'ending': e, 'items': it, 'fault': f, 'n': n, 'stateful': sf, 'consumer': cons,
                                       'granularity': gran(k)}, **extra))
        if prop == 'C01':
            for k in ('process', 'remote'):
                cases.append({'kind': k, 'persistent': False, 'ending': 'big', 'items': 0, 'fault': 'bigkill'})
        results = base + farm.run(cases)
    finally:
        farm.close()
    if prop == 'C01':
        results += main_script_lives(ev)

    records, byid = [], {}
    for i, r in enumerate(results):
        if 'error' in r:
            raise MachineryError('harness failure on %s: %s' % (r['case'], r['error']))
        r['id'] = 'l%d' % i
        byid[r['id']] = r
        records.append(_strip(r))
    fails, rj = tlc.judge('LifeJudge', records, name='judge', timeout=1200)
    ev.add_tlc('judge: %s operators on %d real worker lives' % (prop, len(records)), rj, role='judge')
    per = {}
    for rid, clause in fails:
        if clause.startswith(mine):
            per.setdefault(rid, []).append(clause)
    violations = []
    for rid, clauses in per.items():
        r = byid[rid]
        violations.append(Violation(prop, signature(prop, clauses, r),
                                    '%s fails for %s%s worker, ending=%s, fault=%s at %s:%s line %s (in_target=%s, target_finished=%s): term_ret=%s dead=%s reads=%s us_end=%s stream=%s'
                                    % (','.join(clauses), 'persistent ' if r['scn']['persistent'] == 'T' else '', r['scn']['kind'], r['scn']['ending'],
                                       r['scn']['fault'], r['scn']['file'], r['scn']['func'], r['scn']['line'], r['scn']['in_target'], r['scn']['target_finished'],
                                       r['obs']['term_ret'], r['obs']['dead_observed'], r['obs']['reads'][:1], r['obs']['us_end'], r['obs']['stream']),
                                    {'case': r['case']}))
    unrepro = []
    from ..report import split
    _, fresh = split(violations)
    if fresh:
        # A failing life that is not a listed finding is run again (twice) before it is reported: outcomes that depend on the
        # machine's load (a graceful request that takes longer than the server's 1 s patience and is then forced) do not
        # repeat, a broken tree does.
        vmap = {}
        for rid in per:
            vmap[id(byid[rid]['case'])] = rid
        todo = [v for v in fresh if id(v.replay.get('case')) in vmap and not v.replay['case'].get('main_script')][:16]   # (runner-made lives are deterministic)
        farm2 = Farm(8)
        try:
            again = farm2.run([v.replay['case'] for v in todo for _ in range(2)])
        finally:
            farm2.close()
        recs2 = []
        for i, r2 in enumerate(again):
            if 'error' in r2:
                continue
            r2['id'] = 'r%d' % i
            recs2.append(_strip(r2))
        fails2 = tlc.judge('LifeJudge', recs2, name='rejudge', timeout=600)[0] if recs2 else []
        failed2 = {}
        for rid2, clause in fails2:
            failed2.setdefault(int(rid2[1:]) // 2, set()).add(clause)
        drop = set()
        for k, v in enumerate(todo):
            if not (failed2.get(k, set()) & set(per[vmap[id(v.replay['case'])]])):
                drop.add(id(v))
                unrepro.append('not reproduced in 2 re-runs (timing / load dependent outcome, not reported): ' + v.what[:300])
        violations = [v for v in violations if id(v) not in drop]
    landed = [r for r in results if r['scn'].get('landed') == 'T']
    checked, unmapped, dr = conformance(results, allowed, prop == 'C16')
    ev.cov['conformance_checked'] = checked
    ev.cov['conformance_unmapped'] = unmapped
    ev.cov['conformance_unmapped_where'] = sorted(set(UNMAPPED))[:12]
    ev.cov['conformance_drift'] = len(dr)
    drift = dr[:5] + (['... %d more' % (len(dr) - 5)] if len(dr) > 5 else []) + unrepro[:5]
    if prop == 'C01' or tier == 'thorough':
        trace_validation(results, ev, drift)
    ev.cov['violations_not_reproduced'] = len(unrepro)
    ev.cov['traces_validated_against_impl'] = checked - len(dr)
    ev.cov['evaluations'] = len(records)
    ev.cov['distinct_nontrivial'] = len(set((r['scn']['kind'], r['scn']['persistent'], r['scn']['ending'], r['scn']['fault'], r['scn']['file'],
                                             r['scn']['func'], r['scn']['line']) for r in landed))
    ev.cov['rule'] = ('each case = (worker class, ending, fault kind, line event n of the child run loop); non-trivial and distinct = the fault was '
                      'actually performed (agent report) at a distinct (class, ending, fault, file, function, line)')
    ev.cov['exhaustive'] = tier == 'thorough'
    ev.cov['faults_landed'] = len(landed)
    ev.cov['landing_functions'] = sorted(set('%s:%s' % (r['scn']['file'], r['scn']['func']) for r in landed))[:60]
    for r in (results[:1] + landed[:2] + landed[-2:]):
        ev.sample({'scn': r['scn'], 'obs': {k: v for k, v in r['obs'].items() if k != 'ctor_s'}})
    ev.assumptions += ['faults are placed at line events (opcode-level landings are not enumerated)',
                       'the child reports its own progress through a marker file (start/fin_enter/fin_done/ret/raise/us_pre/us_post)']
    return finish(ev, violations, T.s(), drift)


def _strip(r):
    """the record handed to TLC: only scn/obs fields the operators read (strings and ints)"""
    s = r['scn']
    o = r['obs']
    reads = [{k: d[k] for k in ('alive', 'has_error', 'result', 'result_n', 'error')} for d in o['reads']]
    return {'id': r['id'],
            'scn': {k: s[k] for k in ('kind', 'persistent', 'ending', 'fault', 'landed', 'in_target', 'in_finally', 'in_try', 'in_work',
                                       'has_finally', 'target_started', 'target_finished', 'items')},
            'obs': {'dead_observed': o['dead_observed'], 'term_ret': o['term_ret'], 'reads': reads, 'fin_done': o['fin_done'],
                    'us_alive': o['us_alive'] if o['us_alive'] in ('init', 'na') else 'changed', 'us_end': o['us_end'],
                    'linger': o.get('linger', 'na'), 'restart_from': o.get('restart_from', 'na'), 'bystander': o.get('bystander', 'na'),
                    'setter': o['setter'], 'stream': {'got': o['stream']['got'], 'end': o['stream']['end'], 'again': o['stream'].get('again', 'na')}}}


def model_runs(prop, tier, ev):
    """TLC on the behavioural model (OneShot.tla); returns the ALLOWED relation label -> outcomes"""
    from . import _oneshot_model
    return _oneshot_model.run(prop, tier, ev)


# ---------------------------------------------------------------------------------------------
# conformance: where the agent says the fault landed -> label(s) of OneShot.tla -> allowed outcomes
# ---------------------------------------------------------------------------------------------
_AST = {}


def anchor_regions(kind):
    """line -> region of the run loop of the current tree (never hard-coded line numbers)"""
    import ast
    from ..common import REPO
    if kind in _AST:
        return _AST[kind]
    fn = {'thread': 'thread.py', 'process': 'process.py', 'remote': 'remote.py'}[kind]
    name = '_run_backend' if kind == 'remote' else '_run'
    tree = ast.parse(open(os.path.join(REPO, 'pyworkers', fn)).read())
    f = [n for n in ast.walk(tree) if isinstance(n, ast.FunctionDef) and n.name == name][0]
    reg = {}

    def span(nodes, tag):
        for n in nodes:
            for ln in range(n.lineno, n.end_lineno + 1):
                reg[ln] = tag
    outer = [n for n in f.body if isinstance(n, ast.Try)][0]
    for ln in range(f.lineno, outer.lineno):
        reg[ln] = 'pre'
    reg[outer.lineno] = 'tryline'
    if kind == 'remote':
        span(outer.body, 'outer_try')
        inner = [n for n in outer.body if isinstance(n, ast.Try)][0]
        span(inner.body, 'try')
        for h in inner.handlers:
            span([h], 'handler')
        span(inner.finalbody, 'finally')
        for h in outer.handlers:
            span([h], 'outer_handler')
        span(outer.finalbody, 'outer_finally')
    else:
        span(outer.body, 'try')
        for h in outer.handlers:
            span([h], 'handler')
        span(outer.finalbody, 'finally')
    _AST[kind] = reg
    return reg


def model_labels(r):
    s = r['scn']
    w = r.get('where') or {}
    kind, pers = s['kind'], s['persistent'] == 'T'
    if s['fault'] == 'bigkill':
        return {'c_put2'}, 'sigkill'
    if s['fault'] == 'fpause':
        return set(), 'fpause'
    fault = 'pause' if s['fault'] == 'pause' else 'sigkill'
    stack = w.get('stack') or []
    funcs = [f[1] for f in stack]
    anchor_name = '_run_backend' if kind == 'remote' else '_run'
    aline = next((f[2] for f in reversed(stack) if f[1] == anchor_name), None)
    region = anchor_regions(kind).get(aline, 'unknown')
    if s['in_target'] == 'T':
        return ({'l_run'} if pers else {'work'}), fault
    after = s['target_finished'] == 'T' or (pers and s['in_work'] == 'F' and s['target_started'] == 'T')
    if 'do_work' in funcs:
        if pers:
            return ({'l_inc', 'l_send'} if '_send_result' in funcs else {'l_recv', 'l_run', 'l_inc', 'l_send'}), fault
        return ({'work'} if not after else {'work', 't_store', 'c_put', 'b_wrap'}), fault
    init = {'thread': {'t_init'}, 'process': {'c_init'}, 'remote': {'b_init'}}[kind]
    store = {'thread': {'t_store'}, 'process': {'c_put', 'c_put2'}, 'remote': {'b_wrap'}}[kind]
    table = {
        'thread': {'tryline': {'t_try'}, 'handler': {'h_log', 'h_store'}, 'finally': {'f_cleanup'}},
        'process': {'handler': {'h_log', 'h_put'}, 'finally': {'f_cleanup', 'f_rel', 'f_close'}},
        'remote': {'handler': {'ih_log', 'ih_store'}, 'finally': {'if_rel', 'if_join'}, 'outer_handler': {'oh_store', 'oh_resend'},
                   'outer_finally': {'of_cleanup', 'of_send', 'of_sendus', 'of_close'}},
    }[kind]
    if region == 'try':
        if pers and s['items'] == 0:
            return init | store, fault
        return (store if after else init), fault
    labels = set(table.get(region, set()))
    if (r.get('case') or {}).get('granularity') == 'opcode' and region == 'handler':
        labels |= {'f_cleanup'}          # within the handler's last line: after the outcome was stored
    return labels, fault


def real_triple(r):
    o = r['obs']
    rd = o['reads'][0] if o['reads'] else None
    if rd is None:
        return None
    if 'raised' in (rd['has_error'], rd['result'], rd['error']):
        seen = 'RAISES'
    elif rd['has_error'] == 'F':
        seen = 'ok'
    elif rd['has_error'] == 'None':
        seen = 'None'
    elif rd['error'] == 'WTE':
        seen = 'WTE'
    elif rd['error'] == 'own':
        seen = {'exc': 'E', 'bexc': 'BE', 'unreb': 'UNREB'}.get(r['scn']['ending'], 'E')
    else:
        seen = 'ErrNone'
    return (seen, o['us_end'], o['stream']['end'])




def main_script_lives(ev):
    """C01's quantifier names outcomes 'of a class defined in the main script': those need a real main script, so they are
    executed by the C02 runner (run as __main__) in the three kinds and projected onto the records LifeJudge reads."""
    import subprocess
    from ..common import PY, REPO, sub_scratch
    runner = os.path.join(os.path.dirname(os.path.abspath(__file__)), '_c02_runner.py')
    scns = []
    for target, args in (('main_value', ('point',)), ('main_value', ('nested',)), ('main_raise', ('main_err',))):
        scns.append({'id': 'm%d' % len(scns), 'target': target, 'where': 'main', 'args': list(args), 'kwargs': {}, 'kinds': ['thread', 'process', 'remote'],
                     'factory': 'ctor', 'run': 'none', 'target_none': False, 'vclass': 'small', 'waitmode': 'once'})
    d = sub_scratch('c01main')
    inp, outp = os.path.join(d, 'in.json'), os.path.join(d, 'out.json')
    json.dump(scns, open(inp, 'w'))
    env = dict(os.environ, PYTHONPATH=':'.join([VERIF, REPO]), VERIF_REPO=REPO, PYTHONHASHSEED='0')
    try:
        subprocess.run([PY, runner, inp, outp], env=env, stdout=subprocess.DEVNULL, stderr=subprocess.DEVNULL, timeout=300)
    except subprocess.TimeoutExpired:
        raise MachineryError('main-script runner did not finish')
    if not os.path.exists(outp):
        raise MachineryError('main-script runner produced no output')
    out = []
    for rec in json.load(open(outp)):
        ending = 'ret' if rec['scn']['direct'] == 'ret' else 'exc'
        for kind, k in rec['obs']['kinds'].items():
            dead = k.get('done') == 'T'
            rd = {'alive': 'F', 'has_error': k.get('has_error', 'na'), 'result_n': 0,
                  'result': 'own' if k.get('result_eq') == 'T' else 'None' if k.get('result_none') == 'T' else 'other',
                  'error': 'own' if (k.get('error_type_eq') == 'T' and k.get('error_args_eq') == 'T') else 'None' if k.get('error_none') == 'T' else 'other'}
            if rd['has_error'] not in ('T', 'F', 'None'):
                rd = {'alive': 'F', 'has_error': 'raised', 'result': 'raised', 'result_n': 0, 'error': 'raised'}
            out.append({'case': {'kind': kind, 'main_script': rec['meta']['target'], 'args': rec['meta']['args']},
                        'scn': {'kind': kind, 'persistent': 'F', 'ending': ending, 'fault': 'none', 'landed': 'F', 'in_target': 'F', 'in_finally': 'F', 'in_try': 'F',
                                'in_work': 'F', 'has_finally': 'F', 'target_started': 'T', 'target_finished': 'T', 'items': 0, 'n': 0,
                                'file': '__main__', 'func': rec['meta']['target'], 'line': 0, 'region': 'none'},
                        'obs': {'dead_observed': 'T' if dead else 'hung', 'term_ret': 'na', 'reads': [rd, rd, rd] if dead else [], 'fin_done': 'F', 'us_alive': 'na',
                                'us_end': 'last', 'linger': 'na', 'restart_from': 'na', 'bystander': 'na', 'setter': 'rejected',
                                'stream': {'got': [], 'end': 'na', 'again': 'na'}},
                        'events_total': 0, 'events': None, 'where': None})
    ev.cov['main_script_lives'] = len(out)
    return out

# ----------------------------------------------------------------------------------------------
# code -> spec: control-flow traces of the real child run loops against OneShot.tla (spec/OneShotTrace.tla)
# ----------------------------------------------------------------------------------------------
_TR = {}


def trace_regions(kind):
    """line -> block of the run loop (AST of the current tree); `except` header lines and `try:` lines carry no token"""
    import ast
    from ..common import REPO
    if kind in _TR:
        return _TR[kind]
    fn = {'thread': 'thread.py', 'process': 'process.py', 'remote': 'remote.py'}[kind]
    name = '_run_backend' if kind == 'remote' else '_run'
    tree = ast.parse(open(os.path.join(REPO, 'pyworkers', fn)).read())
    f = [n for n in ast.walk(tree) if isinstance(n, ast.FunctionDef) and n.name == name][0]
    reg = {}

    def span(nodes, tag):
        for n in nodes:
            for ln in range(n.lineno, n.end_lineno + 1):
                reg[ln] = tag

    def one(t, pfx):
        span(t.body, 'try')
        for h in t.handlers:
            span(h.body, pfx + 'handler')
            reg[h.lineno] = 'header'
        span(t.finalbody, pfx + 'finally')
    outer = [n for n in f.body if isinstance(n, ast.Try)][0]
    if kind == 'remote':
        one(outer, 'o')
        inner = [n for n in outer.body if isinstance(n, ast.Try)][0]
        one(inner, '')
    else:
        one(outer, '')
    _TR[kind] = (reg, fn, name)
    return _TR[kind]


def trace_tokens(r):
    """token sequence of one real life, or None if this life is not a trace of the child's run loop"""
    c, s = r.get('case') or {}, r['scn']
    ending = {'slow': 'ret', 'slowfin': 'ret', 'linger': 'ret', 'unreb2': 'unreb'}.get(c.get('ending'), c.get('ending'))
    if c.get('fault') not in ('none', 'pause', 'sigkill') or ending not in ('ret', 'exc', 'bexc', 'unreb', 'big') or not r.get('events'):
        return None
    if c.get('restart_chain') or c.get('in_context') or c.get('granularity') == 'opcode':
        return None
    reg, afile, an = trace_regions(c['kind'])
    landed = s.get('landed') == 'T' and c.get('fault') in ('pause', 'sigkill')
    at = (r.get('where') or {}).get('n') if landed else None
    if landed and not at:
        return None
    toks, prev_anchor, block = [], False, None
    for i, (f, fn, ln, _tg) in enumerate(r['events'], 1):
        if at == i:
            toks.append('LAND' if c['fault'] == 'pause' else 'KILL')
            break
        if f == afile and fn == an:
            b = reg.get(ln)
            if b in ('handler', 'finally', 'ohandler', 'ofinally') and b != block:
                toks.append(b)
            if b and b != 'header':
                block = b
            prev_anchor = True
        else:
            if prev_anchor and fn == 'do_work':
                toks.append('work')
            prev_anchor = False
    return {'kind': c['kind'], 'pers': bool(c.get('persistent')), 'ending': ending, 'items': c.get('items', 0) if c.get('persistent') else 0,
            'fault': c['fault'] if landed else 'none', 'toks': toks}


TRACE_CFG = '''INIT TInit
NEXT TNext
CONSTANTS
  Kind = "%s"
  Persistent = %s
  Ending = "%s"
  Items = %d
  MaxTerm = 1
  MaxKill = %d
  Fixed = TRUE
INVARIANT TAccept
CHECK_DEADLOCK FALSE
'''


def trace_validation(results, ev, drift):
    from ..common import sub_scratch
    groups = {}
    for r in results:
        t = trace_tokens(r)
        if t is not None:
            groups.setdefault((t['kind'], t['pers'], t['ending'], t['items']), []).append((r, t))
    total = acc = 0

    def one(item):
        (kind, pers, ending, items), lst = item
        d = sub_scratch('ostrace')
        tf = os.path.join(d, 'tr_%s_%s_%s_%d.json' % (kind, pers, ending, items))
        json.dump([{'id': 't%d' % i, 'fault': t['fault'], 'toks': t['toks']} for i, (_r, t) in enumerate(lst)], open(tf, 'w'))
        rt = tlc.run('OneShotTrace', cfg_text=TRACE_CFG % (kind, 'TRUE' if pers else 'FALSE', ending, items, 0 if kind == 'thread' else 1),
                     workers=2, env={'TRACE_FILE': tf}, must_complete=False, timeout=900, name='ostrace')
        return item, rt
    with ThreadPoolExecutor(6) as ex:
        outs = list(ex.map(one, sorted(groups.items(), key=lambda kv: str(kv[0]))))
    for ((kind, pers, ending, items), lst), rt in outs:
        ev.add_tlc('trace validation: %d control-flow traces of real %s%s workers (ending %s) against OneShot.tla'
                   % (len(lst), 'persistent ' if pers else '', kind, ending), rt, role='trace')
        if rt.error:
            raise MachineryError('OneShotTrace failed for %s: %s' % ((kind, pers, ending, items), rt.error))
        ok = set(x[0] for x in rt.tags.get('ACCEPT', []))
        for i, (r, t) in enumerate(lst):
            total += 1
            if 't%d' % i in ok:
                acc += 1
            elif len([d_ for d_ in drift if d_.startswith('control-flow')]) < 4:
                drift.append('control-flow trace of a real %s%s worker (ending %s, fault %s) is not a behaviour of OneShot.tla: %s'
                             % ('persistent ' if pers else '', kind, ending, t['fault'], t['toks']))
    ev.cov['control_flow_traces'] = total
    ev.cov['control_flow_traces_accepted'] = acc
    return total, acc

UNMAPPED = []


def conformance(results, allowed, stateful):
    """-> (checked, drift list)"""
    checked, unmapped, drift = 0, 0, []
    for r in results:
        if r['scn'].get('landed') != 'T' or r['obs']['dead_observed'] != 'T':
            continue
        labels, fault = model_labels(r)
        s = r['scn']
        al = set()
        for lab in labels:
            al |= allowed.get((s['kind'], s['persistent'], s['ending'], fault, lab), set())
        if not al:
            unmapped += 1
            w = r.get('where') or {}
            an = '_run_backend' if s['kind'] == 'remote' else '_run'
            aline = next((f[2] for f in reversed(w.get('stack') or []) if f[1] == an), None)
            region = anchor_regions(s['kind']).get(aline, 'unknown') if aline is not None else 'none'
            UNMAPPED.append('%s%s %s:%s region=%s' % ('persistent ' if s['persistent'] == 'T' else '', s['kind'], s['file'], s['func'], region))
            if region == 'pre' and s['fault'] == 'pause':
                drift.append('%s%s: the request landed in the run loop OUTSIDE its try statement (%s:%s line %s, after the constructor returned): '
                             'OneShot.tla has no such label - the code was restructured' % ('persistent ' if s['persistent'] == 'T' else '', s['kind'], s['file'], s['func'], s['line']))
            continue
        t = real_triple(r)
        if t is None:
            continue
        checked += 1
        ok = any(t[0] == a[0] and (not stateful or t[1] == a[1]) and (t[2] == a[2]) for a in al)
        if not ok:
            drift.append('%s%s ending=%s fault=%s at %s:%s line %s -> model labels %s allow %s, real %s'
                         % ('persistent ' if s['persistent'] == 'T' else '', s['kind'], s['ending'], s['fault'], s['file'], s['func'], s['line'],
                            sorted(labels), sorted(al), t))
    return checked, unmapped, drift
