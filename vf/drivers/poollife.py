"""C09 - no worker outlives its pool; a pool stays usable across runs and restarts.

spec/PoolLife.tla models histories of pool API calls (add_worker ok / constructor fails /
duplicate id, attach, run, restart_workers, external kill, stuck worker, exception in the
with-body, close, terminate) on the pool's bookkeeping, with _close as per-worker cleanup
threads.  TLC checks the C09 operators over all histories, rejects the pre-fix variants and
two what-if variants, enumerates histories (exhaustive path dump + simulation) and, for the
selected ones, every outcome.  Each selected history is replayed on a REAL Pool with real
thread and process workers (remote in the thorough tier) in its own host process; after each
step /proc is scanned.  Every real history is judged by TLC (PoolLifeJudge) with the same
operators and compared with the model's outcomes (conformance)."""
import json
import os
import random
import re
import signal
import subprocess
import sys
import threading
import time
from concurrent.futures import ThreadPoolExecutor

CHECKS = {
    'C09': dict(
        engine='PoolLife',
        technique='TLA+ spec PoolLife.tla (pool registry keyed by worker id, _closed never reset, per-worker cleanup threads close->wait->terminate, restart re-keying, add_worker failure paths, _pool_closed set at the END of _close, close interrupted by an exception in the closing thread, run left through a BaseException, restart_workers(force=False) failing on a stuck worker) model-checked with TLC over all API histories; pre-fix and what-if variants rejected; histories enumerated by TLC (exhaustive path dump, simulation) replayed on real Pools with real thread/process(/remote) workers, tiny close_timeout, /proc scan after every step; TLC judges every real history (PoolLifeJudge); model outcomes vs real outcomes = conformance',
        text='Exhaustive TLC model checking of pool life-cycle histories (<= 5 calls quick / <= 6 thorough, <= 3 workers, thread/process(/remote), force none/False, close_timeout small/None, incl. close/with-exit cut short by an exception while joining the clean-up threads), bound to the code by replaying TLC-enumerated histories on real pools and judging each step (OS process table, per-run results, who was handed work) with the same TLA+ operators.',
        note='Trusted: TLC; Pool.run abstracted to its effect on the bookkeeping (the loop itself is Pool.tla / C07); worker-level outcomes of close/wait/terminate taken from the C04 model; /proc (session scan) as ground truth; a colliding worker id is produced with a subclass that reports a given id. Replay covers a seeded sample of the enumerated histories.',
        design_ref='6/C09'),
}

CLOSE_T = 0.3
INTERRUPT_AFTER = float(os.environ.get('LIFE_INTERRUPT_AFTER', '0.08'))
OP_BOUND = 20.0


def _pstate(pid):
    try:
        with open('/proc/%d/stat' % pid) as f:
            s = f.read()
        return s[s.rindex(')') + 2]
    except (OSError, ValueError):
        return 'X'


def _proc_dead(pid):
    st = _pstate(pid)
    if st in 'Xx':
        return True
    if st != 'Z':
        return False
    try:
        return len(os.listdir('/proc/%d/task' % pid)) <= 1
    except OSError:
        return True


def _cmdline(pid):
    try:
        with open('/proc/%d/cmdline' % pid, 'rb') as f:
            return f.read().replace(b'\0', b' ').decode('utf-8', 'replace')[:200]
    except OSError:
        return ''


def _session_live(sid, exclude, root=None):
    """live (non-zombie) processes of session `sid`; when the host is not the session leader (manual run) only
    descendants of `root` and orphans count"""
    procs = {}
    for d in os.listdir('/proc'):
        if not d.isdigit():
            continue
        try:
            with open('/proc/%s/stat' % d) as f:
                s = f.read()
            r = s[s.rindex(')') + 2:].split()
            procs[int(d)] = (r[0], int(r[1]), int(r[3]))
        except (OSError, ValueError, IndexError):
            pass

    def descends(p):
        seen = 0
        while p in procs and seen < 64:
            if p == root:
                return True
            p = procs[p][1]
            seen += 1
        return False
    out = []
    for p, (st, ppid, psid) in procs.items():
        if p in exclude or psid != sid or st in 'ZXx':
            continue
        if root is not None and sid != root and not descends(p) and 'spawn_main' not in _cmdline(p):
            continue
        if 'resource_tracker' in _cmdline(p):
            continue
        out.append(p)
    return out


class _NoPool(Exception):
    pass


def host_main(case_path, out_path):
    with open(case_path) as f:
        case = json.load(f)
    repo = os.environ.get('VERIF_REPO', '/repo')
    verif = os.path.dirname(os.path.dirname(os.path.dirname(os.path.abspath(__file__))))
    for p_ in (verif, repo):
        if p_ not in sys.path:
            sys.path.insert(0, p_)
    os.environ['PYTHONPATH'] = os.pathsep.join([repo, verif])
    flagdir = os.path.join(os.path.dirname(out_path), case['id'] + '.flags')
    os.makedirs(flagdir, exist_ok=True)
    os.environ['LIFE_FLAGDIR'] = flagdir
    import logging
    logging.disable(logging.CRITICAL)
    threading.excepthook = lambda a: None
    sigs = []
    signal.signal(signal.SIGTERM, lambda *a: sigs.append(1))
    res = {'id': case['id'], 'error': None, 'steps': [], 'truncated': ''}
    try:
        from vf.drivers import _life_targets as TG
        from pyworkers.pool import Pool
        from pyworkers.worker import WorkerType
        from pyworkers.utils import Pipe
        from pyworkers.persistent_thread import PersistentThreadWorker
        from pyworkers.persistent_process import PersistentProcessWorker
        from pyworkers.persistent_remote import PersistentRemoteWorker
        me, sid = os.getpid(), os.getsid(0)
        srv = None
        ops = case['ops']
        if any(o.endswith(':remote') for o in ops):
            from pyworkers.remote_server import spawn_server
            srv = spawn_server(('127.0.0.1', 0))
            if not srv.is_alive():
                raise RuntimeError('could not start a remote server')
        wtype = {'thread': WorkerType.THREAD, 'process': WorkerType.PROCESS, 'remote': WorkerType.REMOTE}
        wcls = {'thread': PersistentThreadWorker, 'process': PersistentProcessWorker, 'remote': PersistentRemoteWorker}
        ccls = {'thread': TG.CollidingPersistentThreadWorker, 'process': TG.CollidingPersistentProcessWorker,
                'remote': TG.CollidingPersistentRemoteWorker}
        res['created'] = 'ok'
        try:
            # close_timeout=None: clean-up waits as long as it takes (only histories without stuck workers use it)
            pool = Pool(TG.pool_target, close_timeout=None if case.get('ctimeout') == 'none' else CLOSE_T, name='lifepool',
                        retry=case.get('retry', 'T') != 'F')
        except Exception as e:  # noqa
            res['created'] = 'raised'
            res['created_exc'] = '%s: %s' % (type(e).__name__, e)
            raise _NoPool()
        if case['force'] == 'false':
            pool.force = False
        ws = []            # model's `ws`: dict(obj, kind, owned, pids) or placeholder for a failed duplicate
        restarted = set()
        nrun = [0]
        stick_n = [0]
        closed = [False]
        prev_unreg = [0]
        recorded = set()       # workers whose death an earlier run has met
        closed_by_cut = set()  # workers that an interrupted close()/terminate() has (possibly) already close()d
        alive_reg = [0]

        def hostkw(kind):
            return {'host': srv.addr} if kind == 'remote' else {}

        def bounded(fn, bound=OP_BOUND):
            box = {}

            def body():
                try:
                    box['ret'] = fn()
                except BaseException as e:  # noqa
                    box['exc'] = e
            th = threading.Thread(target=body, daemon=True, name='lifeop')
            th.start()
            th.join(bound)
            if th.is_alive():
                return 'hung', None
            if 'exc' in box:
                return 'raised', box['exc']
            return 'ok', box.get('ret')

        def thread_alive(obj):
            nm = obj.name
            return any(t.name == nm and t.is_alive() for t in threading.enumerate())

        def os_alive(w):
            if w['kind'] == 'thread':
                return thread_alive(w['obj'])
            return not _proc_dead(w['pids'][-1])

        def note_pid(w):
            if w['kind'] != 'thread':
                pid = w['obj'].pid
                if pid != me and pid not in w['pids']:
                    w['pids'].append(pid)

        def measure():
            """(alive_owned, live_unreg) once the process table has been stable for 150 ms (at most 1.5 s)"""
            last, t_same, t0 = None, time.monotonic(), time.monotonic()
            while True:
                owned_alive = sorted(p for w in ws if w.get('owned') and w['kind'] != 'thread' for p in w['pids'] if not _proc_dead(p))
                regobjs = list(pool.workers)
                alive_reg[0] = len([1 for w in ws if w.get('owned') and w['kind'] != 'thread' and any(o is w['obj'] for o in regobjs)
                                    and w['pids'] and not _proc_dead(w['pids'][-1])])
                regpids = set()
                for o in list(pool.workers):
                    try:
                        regpids.add(o.pid)
                    except Exception:  # noqa
                        pass
                excl = {me} | ({srv.pid} if srv is not None else set())
                unreg = sorted(p for p in _session_live(sid, excl, me) if p not in regpids)
                cur = (owned_alive, unreg)
                now = time.monotonic()
                if cur != last:
                    last, t_same = cur, now
                if now - t_same >= 0.15 or now - t0 > 1.5:
                    return len(owned_alive), len(unreg), unreg
                time.sleep(0.01)

        for op in ops:
            name, _, arg = op.partition(':')
            st = {'op': name, 'outcome': 'ok', 'closing': 'F', 'extra': 0, 'dead_got_work': 0, 'restarted_no_work': 0, 'spoiled': 0,
                  'missing': 0, 'fresh_dead': 0}
            if name in ('add', 'attach'):
                kind = arg
                if name == 'add':
                    oc, r = bounded(lambda: pool.add_worker(wtype[kind], **hostkw(kind)))
                else:
                    oc, r = bounded(lambda: wcls[kind](TG.pool_target, name='attached %d' % len(ws), results_pipe=Pipe(), **hostkw(kind)))   # a multiplexable results pipe, as add_worker makes
                    if oc == 'ok':
                        obj = r
                        oc, _r = bounded(lambda: pool.attach(obj))
                        if oc != 'ok':
                            bounded(lambda: obj.terminate(timeout=CLOSE_T))       # not taken over by the pool: ours to clean up
                        r = obj
                st['outcome'] = oc
                if oc == 'ok':
                    w = {'obj': r, 'kind': kind, 'owned': True, 'pids': []}
                    note_pid(w)
                    ws.append(w)
            elif name == 'addfail':
                oc, r = bounded(lambda: pool.add_worker(wtype['process'], target=5))   # not callable: the constructor raises
                st['outcome'] = oc
            elif name == 'dup':
                o = ws[int(arg) - 1] if int(arg) <= len(ws) else None
                if o is None or 'obj' not in o:
                    res['truncated'] = 'op %s not applicable on this tree' % op
                    break
                oid = tuple(o['obj'].id)
                oc, r = bounded(lambda: pool.add_worker(ccls[o['kind']], forced_id=oid, **hostkw(o['kind'])))
                st['outcome'] = oc
                if oc == 'ok':
                    ws.append({'obj': r, 'kind': o['kind'], 'owned': True, 'pids': []})
                    note_pid(ws[-1])
                else:
                    ws.append({'placeholder': True, 'kind': o['kind'], 'owned': False, 'pids': []})
            elif name in ('run', 'runp', 'runl'):
                nrun[0] += 1
                base = nrun[0] * 100
                n = 2 * max(1, len(list(pool.workers))) + 2
                inputs = [base + i for i in range(n)]
                if name == 'runp':
                    inputs.insert(2, -1)
                if name == 'runl':
                    inputs.insert(2, -2)          # the target leaves a non-daemon thread behind and fails: the process lingers
                expect = sorted(x * x for x in inputs if x >= 0)
                dead_before = set(id(w['obj']) for w in ws if 'obj' in w and not os_alive(w))
                live_restarted = set(id(w['obj']) for w in ws if 'obj' in w and id(w['obj']) in restarted and os_alive(w)
                                     and any(o is w['obj'] for o in pool.workers))
                enq = []          # (worker, input) pairs actually handed over, logged through the public enqueue_fn hook

                def efn(wk, *inp):
                    wk.enqueue(*inp)
                    enq.append((id(wk), inp[0] if inp else None))
                    return True
                # registered workers that can take work: alive in the OS and not merely lingering after they have ended their work
                # (a process that took the linger-poison has reported its end - the pool has seen it off - but is still there)
                lingering = set(int(f.split('.')[1]) for f in os.listdir(flagdir) if f.startswith('linger.'))
                live_before = [w for w in ws if 'obj' in w and os_alive(w) and any(o is w['obj'] for o in pool.workers)
                               and not (w['kind'] != 'thread' and w['pids'] and w['pids'][-1] in lingering)
                               and id(w['obj']) not in closed_by_cut]      # close()d by a close that was cut short: on its way out
                st['fresh_dead'] = len([w for w in ws if 'obj' in w and any(o is w['obj'] for o in pool.workers)
                                        and not os_alive(w) and id(w['obj']) not in recorded])
                oc, r = bounded(lambda: pool.run(iter(inputs), enqueue_fn=efn))
                st['outcome'] = oc
                got = []
                if oc == 'ok' and r is not None:
                    got = list(r)
                elif oc == 'raised' and getattr(r, 'partial_results', None):
                    got = list(r.partial_results)
                left = list(expect)
                extra = 0
                for g in got:
                    if g in left:
                        left.remove(g)
                    else:
                        extra += 1
                extra += len([1 for _w, x in enq if x not in inputs])        # inputs of another run handed to a worker
                st['extra'] = extra
                enq_w = set(w_ for w_, _x in enq)
                st['dead_got_work'] = len(enq_w & dead_before)
                if oc == 'ok':
                    st['restarted_no_work'] = len([x for x in live_restarted if x not in enq_w])
                    if r is not None and left:
                        st['missing'] = len(left)
                if not closed[0]:
                    recorded.update(id(w['obj']) for w in ws if 'obj' in w and any(o is w['obj'] for o in pool.workers) and not os_alive(w))
                if (name == 'run' and oc == 'raised' and not closed[0] and live_before and all(os_alive(w) for w in live_before)):
                    st['spoiled'] = 1
                restarted.clear()
                if oc == 'raised':
                    st['exc'] = type(r).__name__
            elif name == 'runabort':
                # run() abandoned by an exception raised by the worker_callback at the first 'enqueued' event: one input is in
                # flight, its answer arrives later (possibly during the next run)
                nrun[0] += 1
                base = nrun[0] * 100
                inputs = [base + i for i in range(2 * max(1, len(list(pool.workers))) + 2)]

                def cb_abort(wk, ev, *a):
                    if ev == 'enqueued':
                        raise RuntimeError('the caller abandons this run')
                oc, r = bounded(lambda: pool.run(iter(inputs), worker_callback=cb_abort))
                st['outcome'] = oc
                if oc == 'raised':
                    st['exc'] = type(r).__name__
                restarted.clear()
            elif name == 'runpd':
                # a poison run abandoned by an exception raised by the worker_callback at the 'died' event of the worker that took the poison
                nrun[0] += 1
                base = nrun[0] * 100
                inputs = [-1] + [base + i for i in range(3)]

                def cb_died(wk, ev, *a):
                    if ev == 'died':
                        recorded.add(id(wk))        # the pool itself has announced this death: it is not news to any later run
                        raise RuntimeError('the caller abandons this run when it hears of a death')
                oc, r = bounded(lambda: pool.run(iter(inputs), worker_callback=cb_died))
                st['outcome'] = oc
                if oc == 'raised':
                    st['exc'] = type(r).__name__
                if not closed[0]:       # the pool has reported ('died') every death there is: none of them is news to the next run
                    recorded.update(id(w['obj']) for w in ws if 'obj' in w and any(o is w['obj'] for o in pool.workers) and not os_alive(w))
                restarted.clear()
            elif name == 'runint':
                # run() left through a BaseException raised while it executes: the worker_callback raises KeyboardInterrupt
                # when the first result arrives (inputs are still pending then)
                nrun[0] += 1
                base = nrun[0] * 100
                inputs = [base + i for i in range(2 * max(1, len(list(pool.workers))) + 2)]

                def cb(wk, ev, *a):
                    if ev == 'finished':
                        raise KeyboardInterrupt('interrupted while Pool.run is executing')
                oc, r = bounded(lambda: pool.run(iter(inputs), worker_callback=cb))
                st['outcome'] = oc
                if oc == 'raised':
                    st['exc'] = type(r).__name__
                restarted.clear()
            elif name in ('restart', 'restartg'):
                regs = [w for w in ws if 'obj' in w and any(o is w['obj'] for o in pool.workers)]
                if name == 'restartg':      # the gentle variant: a worker stuck in an uncooperative target cannot be stopped
                    oc, r = bounded(lambda: pool.restart_workers(timeout=CLOSE_T, force=False))
                else:
                    oc, r = bounded(lambda: pool.restart_workers(timeout=CLOSE_T))
                st['outcome'] = oc
                if oc == 'raised':
                    st['exc'] = type(r).__name__
                for w in regs:
                    try:
                        before = list(w['pids'])
                        note_pid(w)
                        if w['kind'] == 'thread' or w['pids'] != before:
                            restarted.add(id(w['obj']))
                    except Exception:  # noqa
                        pass
                if oc == 'ok':
                    restarted.update(id(w['obj']) for w in regs)
                closed_by_cut.difference_update(restarted)
            elif name == 'kill':
                w = ws[int(arg) - 1] if int(arg) <= len(ws) else None
                if w is None or 'obj' not in w or w['kind'] == 'thread' or not w['pids']:
                    res['truncated'] = 'op %s not applicable on this tree' % op
                    break
                try:
                    os.kill(w['pids'][-1], signal.SIGKILL)
                except OSError:
                    pass                        # already gone (e.g. a close that was meant to be interrupted completed)
                t0 = time.monotonic()
                while not _proc_dead(w['pids'][-1]) and time.monotonic() - t0 < 5:
                    time.sleep(0.003)
            elif name == 'stick':
                w = ws[int(arg) - 1] if int(arg) <= len(ws) else None
                if w is None or 'obj' not in w:
                    res['truncated'] = 'op %s not applicable on this tree' % op
                    break
                stick_n[0] += 1
                nflags = len([f for f in os.listdir(flagdir) if f.startswith('stuck.')])
                x = 2000 if case.get('stickmode') == 'sleep' else 1000
                oc, r = bounded(lambda: w['obj'].enqueue(x))
                st['outcome'] = oc
                t0 = time.monotonic()
                already = any(f.startswith('stuck.%d.' % (w['pids'][-1] if w['pids'] else me)) for f in os.listdir(flagdir)) and w['kind'] != 'thread'
                while oc == 'ok' and not already and len([f for f in os.listdir(flagdir) if f.startswith('stuck.')]) <= nflags and time.monotonic() - t0 < 10:
                    time.sleep(0.005)
                if oc == 'ok' and not already and len([f for f in os.listdir(flagdir) if f.startswith('stuck.')]) <= nflags:
                    raise RuntimeError('harness: the worker did not reach the sticking target')
                time.sleep(0.05)
            elif name in ('closeint', 'termint'):
                # close()/terminate() cut short by an exception raised in the closing (= main) thread while it joins the
                # clean-up threads: a SIGALRM handler raises KeyboardInterrupt shortly after the call has started (a busy
                # worker keeps its clean-up thread in wait(timeout) for CLOSE_T seconds)
                st['closing'] = 'T'

                def on_alarm(*a):
                    raise KeyboardInterrupt('interrupted while closing the pool')
                old_h = signal.signal(signal.SIGALRM, on_alarm)
                r = None
                try:
                    signal.setitimer(signal.ITIMER_REAL, INTERRUPT_AFTER)
                    try:
                        pool.close() if name == 'closeint' else pool.__exit__(RuntimeError, RuntimeError('exception in the with-body'), None)
                        oc = 'ok'
                    finally:
                        signal.setitimer(signal.ITIMER_REAL, 0)
                except KeyboardInterrupt as e:
                    oc, r = 'raised', e
                except BaseException as e:  # noqa
                    oc, r = 'raised', e
                finally:
                    signal.setitimer(signal.ITIMER_REAL, 0)
                    signal.signal(signal.SIGALRM, old_h)
                st['outcome'] = oc
                if oc == 'ok':
                    closed[0] = True
                else:
                    st['exc'] = type(r).__name__
                    closed_by_cut.update(id(w['obj']) for w in ws if 'obj' in w and any(o is w['obj'] for o in pool.workers))
                    time.sleep(2 * CLOSE_T + 0.2)  # aborted clean-up threads leave their wait(); a thread that was not aborted finishes its terminate()
            elif name in ('close', 'terminate', 'exc'):
                st['closing'] = 'T'
                if name == 'close':
                    oc, r = bounded(pool.close)
                elif name == 'terminate':
                    oc, r = bounded(pool.terminate)
                else:
                    oc, r = bounded(lambda: pool.__exit__(RuntimeError, RuntimeError('exception in the with-body'), None))
                st['outcome'] = oc
                if oc == 'ok':
                    closed[0] = True
                if oc == 'raised':
                    st['exc'] = type(r).__name__
            else:
                raise RuntimeError('unknown op ' + op)
            if st['outcome'] == 'raised' and 'exc' not in st:
                st['exc'] = type(r).__name__
            a, u, upids = measure()
            st['alive_owned'], st['live_unreg'], st['live_unreg_abs'] = a, max(0, u - prev_unreg[0]), u      # live_unreg: caused by THIS call
            prev_unreg[0] = u
            st['alive_reg'] = alive_reg[0]
            if u:
                st['unreg_cmds'] = [_cmdline(p)[-60:] for p in upids][:3]
            st['is_alive'] = []
            for w in ws:
                if 'obj' in w:
                    try:
                        st['is_alive'].append('T' if w['obj'].is_alive() else 'F')
                    except Exception as e:  # noqa
                        st['is_alive'].append('raised:' + type(e).__name__)
                else:
                    st['is_alive'].append('-')
            res['steps'].append(st)
            if st['outcome'] == 'hung':
                res['truncated'] = 'op %s hung' % op
                break
        res['selfsig'] = len(sigs)
    except _NoPool:
        pass
    except BaseException as e:  # noqa
        import traceback
        res['error'] = '%s: %s\n%s' % (type(e).__name__, e, traceback.format_exc()[-1500:])
    finally:
        with open(out_path, 'w') as f:
            json.dump(res, f)
        sys.stdout.flush()
        os._exit(0)


# ======================================================================================
def _mc_cfg(**kw):
    from vf import tlc
    base = open(os.path.join(tlc.SPEC, 'PoolLife_mc.cfg')).read()
    for a, b in kw.items():
        base = re.sub(r'(?m)^(\s*%s\s*(=|<-)\s*).*$' % a, lambda m: m.group(1) + b, base)
    return base


_INVS = ['Inv_AllDead', 'Inv_RunIsolated', 'Inv_NoWorkToDead', 'Inv_RestartedGetWork', 'Inv_NoLeak', 'TypeOK']


def _dump_cfg(**kw):
    kw.setdefault('PDFree', 'FALSE')         # runpd histories are scripted (CURATED additions), not dumped
    c = _mc_cfg(Hist='TRUE', **kw).replace('SPECIFICATION Spec', 'INIT Init\nNEXT Next') + 'INVARIANT PathDump\n'
    for inv in _INVS:
        c = c.replace('INVARIANT ' + inv + '\n', '')
    return c


CURATED = [
    ('none', ['add:process', 'add:process', 'dup:1', 'run', 'close']),
    ('none', ['add:process', 'add:thread', 'dup:2', 'close']),
    ('none', ['add:thread', 'add:process', 'dup:2', 'restart', 'terminate']),
    ('none', ['add:process', 'close', 'add:process', 'close']),
    ('none', ['add:process', 'exc', 'attach:process', 'terminate', 'close']),
    ('none', ['add:process', 'add:process', 'run', 'kill:1', 'run', 'close']),
    ('none', ['add:process', 'add:thread', 'runp', 'restart', 'run', 'close']),
    ('none', ['add:process', 'add:process', 'kill:2', 'restart', 'run', 'exc']),
    ('none', ['add:process', 'add:thread', 'stick:1', 'close']),
    ('none', ['add:process', 'add:thread', 'stick:2', 'restart', 'close']),
    ('none', ['add:process', 'attach:process', 'stick:1', 'stick:2', 'exc']),
    ('false', ['add:process', 'add:process', 'stick:1', 'close']),
    ('false', ['add:process', 'stick:1', 'terminate', 'close']),
    ('none', ['add:process', 'run', 'run', 'restart', 'run', 'close']),
    ('none', ['addfail', 'add:process', 'addfail', 'run', 'close']),
    ('none', ['attach:thread', 'attach:process', 'run', 'runp', 'run', 'terminate']),
    ('none', ['add:process', 'add:process', 'runp', 'add:process', 'run', 'close']),
    # close / with-exit cut short by an exception while joining the clean-up threads, then a call that returns normally.
    # (CPython 3.12.0-3.12.2 marks the thread whose join() was interrupted as stopped, so the pool's except branch only
    # aborts the OTHER clean-up threads: the survivor is a stuck worker that is not first in the registry)
    ('none', ['add:process', 'add:process', 'stick:1', 'stick:2', 'closeint', 'close']),
    ('none', ['add:process', 'add:process', 'stick:2', 'stick:1', 'termint', 'terminate']),
    ('none', ['add:thread', 'add:process', 'stick:1', 'stick:2', 'closeint', 'exc']),
    ('none', ['attach:process', 'add:process', 'stick:1', 'stick:2', 'termint', 'closeint', 'close']),
    ('none', ['add:process', 'add:process', 'add:process', 'stick:1', 'stick:3', 'closeint', 'close']),
    ('none', ['add:process', 'stick:1', 'closeint', 'close']),
    ('false', ['add:process', 'add:process', 'stick:1', 'stick:2', 'closeint', 'terminate']),
    ('none', ['add:process', 'add:process', 'closeint', 'close']),
    # run() left through a BaseException (KeyboardInterrupt from the worker_callback), then the block exit / close
    ('none', ['add:process', 'add:process', 'runint', 'close']),
    ('none', ['add:process', 'add:thread', 'runint', 'exc']),
    ('none', ['add:process', 'run', 'runint', 'terminate', 'close']),
    ('none', ['attach:process', 'runint', 'exc', 'close']),
    # restart_workers(force=False) failing on a stuck worker (exception caught by the caller), then the pool is closed
    ('none', ['add:process', 'add:process', 'stick:2', 'restartg', 'close']),
    ('none', ['add:process', 'stick:1', 'restartg', 'terminate']),
    ('none', ['add:process', 'add:thread', 'stick:1', 'restartg', 'restart', 'close']),
    ('none', ['add:process', 'add:process', 'stick:1', 'restartg', 'exc']),
    ('none', ['add:process', 'add:process', 'restartg', 'run', 'close']),
    # a worker whose target failed during run() (the pool has recorded its end) but whose PROCESS lingers
    ('none', ['add:process', 'add:thread', 'runl', 'close']),
    ('none', ['add:process', 'add:process', 'runl', 'exc']),
    ('none', ['add:process', 'runl', 'run', 'terminate']),
    ('none', ['add:process', 'runl', 'restart', 'run', 'close']),
    ('false', ['add:process', 'runl', 'close']),
    # runs abandoned by the worker_callback with an input in flight, then a run that must only return its own answers
    ('none', ['add:process', 'runabort', 'runabort', 'run', 'close']),
    ('none', ['add:thread', 'runabort', 'runabort', 'run', 'run', 'close']),
    ('none', ['add:process', 'runabort', 'run', 'runabort', 'runabort', 'run', 'close']),
    ('none', ['add:process', 'add:thread', 'runabort', 'runabort', 'runabort', 'run', 'exc']),
]
CURATED_REMOTE = [
    ('none', ['add:remote', 'add:process', 'run', 'kill:1', 'run', 'close']),
    ('none', ['add:remote', 'add:remote', 'dup:1', 'run', 'close']),
    ('none', ['add:remote', 'stick:1', 'close']),
    ('none', ['add:remote', 'add:thread', 'runp', 'restart', 'run', 'exc']),
    ('false', ['add:remote', 'stick:1', 'terminate']),
    ('none', ['attach:remote', 'close', 'add:remote', 'close']),
    ('none', ['add:process', 'add:remote', 'stick:1', 'stick:2', 'closeint', 'close']),
    ('none', ['add:remote', 'add:remote', 'stick:1', 'stick:2', 'termint', 'exc']),
    ('none', ['add:remote', 'stick:1', 'restartg', 'close']),
    ('none', ['add:remote', 'add:process', 'runint', 'exc']),
    ('none', ['add:remote', 'runl', 'close']),
    ('none', ['add:remote', 'runabort', 'runabort', 'run', 'close']),
]


def _interesting(ops):
    base = [o.partition(':')[0] for o in ops]
    if base[0] not in ('add', 'attach'):
        return False
    if not any(b in ('run', 'runp', 'runl', 'runpd', 'runabort', 'runint', 'restart', 'restartg', 'close', 'terminate', 'exc', 'closeint', 'termint') for b in base):
        return False
    # nothing but closing calls after the first close is only interesting once or twice
    return True


def _select(tier, rng, free4, sim6, remote):
    plans, seen = [], set()

    def add(force, ops, stickmode='swallow', ctimeout='small', retry='T'):
        if ctimeout == 'none' and any(o.startswith('stick') or o == 'runl' for o in ops):
            ctimeout = 'small'              # close_timeout=None would wait for a stuck worker forever
        key = (force, tuple(ops), stickmode, ctimeout, retry)
        if key in seen:
            return
        seen.add(key)
        plans.append({'id': 'h%d' % len(plans), 'force': force, 'ops': list(ops), 'stickmode': stickmode, 'ctimeout': ctimeout, 'retry': retry})
    for f, ops in CURATED:
        add(f, ops)
    # Pool(close_timeout=None): wait as long as it takes
    add('none', ['add:process', 'add:thread', 'run', 'close'], ctimeout='none')
    add('none', ['add:process', 'run', 'kill:1', 'run', 'exc'], ctimeout='none')
    add('false', ['add:thread', 'add:process', 'runp', 'restart', 'run', 'terminate'], ctimeout='none')
    # Pool(retry=False): a death recorded by one run, then further runs without a restart
    add('none', ['add:process', 'add:process', 'runp', 'run', 'run', 'close'], retry='F')
    add('none', ['add:thread', 'add:process', 'add:process', 'runp', 'run', 'close'], retry='F')
    add('none', ['add:process', 'add:process', 'runl', 'run', 'close'], retry='F')
    add('none', ['add:process', 'add:thread', 'run', 'kill:1', 'run', 'run'], retry='F')
    # a poison run abandoned by an exception the worker_callback raises at the 'died' event; the pool must remember the death
    add('none', ['add:process', 'runpd', 'add:process', 'run', 'run', 'close'], retry='F')
    add('none', ['add:process', 'runpd', 'add:thread', 'add:process', 'run', 'close'], retry='F')
    add('none', ['add:process', 'runpd', 'run', 'add:process', 'run', 'close'])
    add('none', ['add:thread', 'add:process', 'runp', 'restart', 'kill:2', 'run', 'runpd', 'run'], retry='F')
    add('none', ['add:process', 'add:thread', 'stick:1', 'close'], 'sleep')
    add('none', ['add:thread', 'add:process', 'stick:2', 'exc'], 'sleep')
    add('none', ['add:process', 'add:process', 'stick:1', 'stick:2', 'closeint', 'terminate'], 'sleep')
    if remote:
        for f, ops in CURATED_REMOTE:
            add(f, ops)
    pool4 = sorted(set((f, tuple(h.split())) for f, h in free4 if _interesting(h.split())))
    pool6 = sorted(set((f, tuple(h.split())) for f, h in sim6 if _interesting(h.split())))
    rng.shuffle(pool4)
    rng.shuffle(pool6)
    n4, n6 = (60, 25) if tier == 'quick' else (1200, 500)
    # the enumeration is done for force = none (the histories do not depend on it); one in four is replayed with force=False
    for f, ops in pool4[:n4]:
        add(rng.choice(['none', 'none', 'none', 'false']), ops, rng.choice(['swallow', 'swallow', 'sleep']), rng.choice(['small', 'small', 'small', 'none']), rng.choice(['T', 'T', 'T', 'T', 'F']))
    for f, ops in pool6[:n6]:
        add(rng.choice(['none', 'none', 'none', 'false']), ops, rng.choice(['swallow', 'swallow', 'sleep']), rng.choice(['small', 'small', 'small', 'none']), rng.choice(['T', 'T', 'T', 'T', 'F']))
    return plans


def _run_hosts(cases, scratch, par=12):
    from vf.common import PY, REPO, VERIF, MachineryError
    env = dict(os.environ)
    env['PYTHONPATH'] = os.pathsep.join([REPO, VERIF])
    env['VERIF_REPO'] = REPO

    def one(case):
        cp = os.path.join(scratch, case['id'] + '.case.json')
        op = os.path.join(scratch, case['id'] + '.out.json')
        with open(cp, 'w') as f:
            json.dump(case, f)
        p = subprocess.Popen([PY, '-m', 'vf.drivers.poollife', '--host', cp, op], cwd=VERIF, env=env,
                             stdout=subprocess.DEVNULL, stderr=subprocess.DEVNULL, start_new_session=True)
        try:
            p.wait(30 + OP_BOUND * 2)
        except subprocess.TimeoutExpired:
            pass
        try:
            os.killpg(p.pid, signal.SIGKILL)
        except OSError:
            pass
        p.wait()
        try:
            with open(op) as f:
                return json.load(f)
        except (OSError, ValueError):
            return {'id': case['id'], 'error': 'host produced no result'}
    with ThreadPoolExecutor(max_workers=par) as ex:
        outs = list(ex.map(one, cases))
    bad = [o for o in outs if o.get('error')]
    if len(bad) > max(2, len(cases) // 20):
        raise MachineryError('%d of %d replay hosts failed, first: %s' % (len(bad), len(cases), bad[0]['error']))
    return outs


_KEYS = ('op', 'outcome', 'closing', 'alive_owned', 'live_unreg', 'extra', 'dead_got_work', 'restarted_no_work', 'spoiled', 'missing', 'fresh_dead')


def _record(case, out):
    return {'id': case['id'], 'scn': {'force': case['force'], 'ctimeout': case.get('ctimeout', 'small'), 'retry': case.get('retry', 'T'), 'ops': case['ops'],
                                      'stickmode': case.get('stickmode', 'swallow')},
            'obs': {'created': out.get('created', 'ok'), 'steps': [{k: s[k] for k in _KEYS} for s in out['steps']]}}


def _outcome(out):
    return ' '.join('%s/%d/%d' % (s['outcome'], s['alive_owned'], s['live_unreg']) for s in out['steps'])


def run(prop, tier, replay=None):
    assert prop == 'C09'
    from vf import tlc
    from vf.common import MachineryError, Timer, seed, sub_scratch
    from vf.report import Evidence, Violation, finish
    T = Timer()
    ev = Evidence(prop, tier)
    rng = random.Random(seed())
    scratch = sub_scratch('poollife')
    violations, drift = [], []

    if replay is not None:
        case = dict(replay['replay'], id='replay')
        out = _run_hosts([case], scratch, par=1)[0]
        if out.get('error'):
            raise MachineryError('replay host failed: ' + out['error'])
        rec = _record(case, out)
        fails, _ = tlc.judge('PoolLifeJudge', [rec], name='replay')
        print('replayed:', json.dumps(out['steps']))
        for _, clause in fails:
            print('VIOLATION property=C09 replay=(given) clause=%s' % clause)
        return 1 if fails else 0

    remote = tier == 'thorough'
    kinds = 'KindsAll' if remote else 'KindsTP'
    mo = '6' if tier == 'thorough' else '5'
    # ---- 1. TLC: the design with both fixes; pre-fix and what-if variants rejected; witnesses ----
    jobs = {
        'mc': dict(cfg=_mc_cfg(MaxOps=mo, Kinds=kinds), workers=8, label='exhaustive, histories <= %s, <= 3 workers, both fixes applied' % mo),
        'pre_all': dict(cfg=_mc_cfg(MaxOps='4', Fix='FixNone'), workers=2, expect='invariant:', label='code as it is (must be rejected)'),
        'pre_dup': dict(cfg=_mc_cfg(MaxOps='4', Fix='FixNoDup'), workers=2, expect='invariant:Inv_NoLeak', label='without the duplicate-id guard (must be rejected)'),
        'pre_closed': dict(cfg=_mc_cfg(MaxOps='4', Fix='FixNoClosed'), workers=2, expect='invariant:Inv_AllDead', label='without the closed-pool guard (must be rejected)'),
        'whatif_reuse': dict(cfg=_mc_cfg(MaxOps='4', ReuseKeys='TRUE'), workers=2, expect='invariant:Inv_RestartedGetWork', label='what-if: restart keeps the worker id (must be rejected)'),
        'whatif_noreinit': dict(cfg=_mc_cfg(MaxOps='4', NoReinit='TRUE'), workers=2, expect='invariant:Inv_RunIsolated', label='what-if: run does not reset _retries (must be rejected)'),
        'whatif_earlyflag': dict(cfg=_mc_cfg(MaxOps='4', EarlyFlag='TRUE'), workers=2, expect='invariant:Inv_AllDead', label='what-if: _close sets _pool_closed before the clean-up (must be rejected)'),
        'whatif_stickyguard': dict(cfg=_mc_cfg(MaxOps='4', StickyGuard='TRUE'), workers=2, expect='invariant:Inv_AllDead', label='what-if: a BaseException inside run leaves _map_guard set (must be rejected)'),
        'whatif_earlyunreg': dict(cfg=_mc_cfg(MaxOps='4', EarlyUnreg='TRUE'), workers=2, expect='invariant:', label='what-if: restart_workers drops the registry entry before restarting (must be rejected)'),
        'whatif_closedonlywait': dict(cfg=_mc_cfg(MaxOps='4', ClosedOnlyWait='TRUE'), workers=2, expect='invariant:Inv_AllDead', label='what-if: _close only waits for a worker whose end a run has recorded (must be rejected)'),
        'whatif_staleoverwrite': dict(cfg=_mc_cfg(MaxOps='4', StaleOverwrite='TRUE'), workers=2, expect='invariant:Inv_RunIsolated', label='what-if: the in-flight count of abandoned runs is overwritten, not accumulated (must be rejected)'),
        'whatif_nonetimeout': dict(cfg=_mc_cfg(MaxOps='3', NoneTimeoutRejected='TRUE'), workers=2, expect='invariant:Inv_Configurable', label='what-if: the constructor refuses close_timeout=None (must be rejected)'),
        'whatif_nodeadskip': dict(cfg=_mc_cfg(MaxOps='4', NoDeadSkip='TRUE', Plans='FreeNoRetry'), workers=2, expect='invariant:Inv_RunIsolated', label='what-if: first_enqueue does not skip workers recorded dead, retry off (must be rejected)'),
        'whatif_lateclosed': dict(cfg=_mc_cfg(MaxOps='4', LateClosed='TRUE', Plans='FreeNoRetry'), workers=2, expect='invariant:Inv_RunIsolated', label="what-if: _closed is updated after the 'died' callback, which raises (must be rejected)"),
        'whatif_norekey': dict(cfg=_mc_cfg(MaxOps='4', NoRekey='TRUE'), workers=2, expect='invariant:Inv_RunIsolated', label='what-if: restart_workers does not re-key (must be rejected)'),
    }
    for w in ('W_ClosedWithStuck', 'W_RestartAfterDeath', 'W_DupRaised', 'W_RunAfterPoison', 'W_ForceFalseSurvivor', 'W_InterruptedStuck', 'W_RunInterrupted', 'W_GentleRestartFails', 'W_LingerAfterFailure', 'W_TwoAbandonedRuns'):
        jobs[w] = dict(cfg=_mc_cfg(MaxOps='5') + 'INVARIANT ' + w + '\n', workers=2, expect='invariant:' + w, label='witness ' + w)
    jobs['free4'] = dict(cfg=_dump_cfg(MaxOps='4', MaxW='2', Fix='FixNone', Kinds=kinds, Plans='FreeNone'), workers=1, label='path dump: every history of 4 calls, <= 2 workers (code as it is)')
    jobs['sim6'] = dict(cfg=_dump_cfg(MaxOps='6', MaxW='3', Fix='FixNone', Kinds=kinds, Plans='FreeNone'), workers=1, label='simulation: histories of 6 calls, <= 3 workers',
                        simulate='num=%d' % (1500 if tier == 'quick' else 6000))

    def tlc_job(nm):
        j = jobs[nm]
        for attempt in (1, 2):
            r = tlc.run('PoolLifeMC', cfg_text=j['cfg'], workers=j['workers'], name=nm, must_complete=False, timeout=3000,
                        simulate=j.get('simulate'), depth=60 if j.get('simulate') else None, seed=seed() if j.get('simulate') else None)
            if r.error is not None or r.completed or j.get('simulate'):
                break                  # a JVM that died without a verdict (machine under load) is run once more
        return nm, r
    with ThreadPoolExecutor(max_workers=6) as ex:
        results = dict(ex.map(tlc_job, list(jobs)))
    wit = {}
    for nm, r in results.items():
        j = jobs[nm]
        if 'expect' in j:
            if not (r.error or '').startswith(j['expect']):
                raise MachineryError('%s: expected TLC to report %s*, got %r\n%s' % (nm, j['expect'], r.error, r.stdout[-1200:]))
            wit[nm] = r.error
            ev.add_tlc(j['label'], r, role='vacuity')
        else:
            if r.error or (not r.completed and not j.get('simulate')):
                raise MachineryError('%s: PoolLife.tla fails: %s\n%s\n%s' % (nm, r.error, '\n'.join(r.trace[:60]), r.stdout[-1200:]))
            ev.add_tlc(j['label'], r, role='model')
    ev.cov['witnesses'] = wit
    free4 = [(x[1], x[2]) for x in results['free4'].tags.get('PATH', [])]
    sim6 = [(x[1], x[2]) for x in results['sim6'].tags.get('PATH', [])]
    if len(free4) < 100 or len(sim6) < 100:
        raise MachineryError('TLC enumerated too few histories (%d, %d)' % (len(free4), len(sim6)))
    ev.cov['histories_enumerated'] = {'free4': len(set(free4)), 'sim6': len(set(sim6))}
    plans = _select(tier, rng, free4, sim6, remote)
    pf = os.path.join(scratch, 'plans.json')
    with open(pf, 'w') as f:
        json.dump([{k: p[k] for k in ('id', 'force', 'ctimeout', 'retry', 'ops')} for p in plans], f)
    allowed = {}
    for label, fx in (('pre', 'FixNone'), ('fix', 'FixAll')):
        c = _dump_cfg(MaxOps='8', MaxW='4', Fix=fx, Kinds=kinds, Plans='PlanSet', Free='FALSE')
        rp = tlc.run('PoolLifeMC', cfg_text=c, workers=4, env={'CASE_FILE': pf}, name='plan_' + label, timeout=1200)
        if rp.error:
            raise MachineryError('plan run failed: %s\n%s' % (rp.error, rp.stdout[-1200:]))
        ev.add_tlc('outcomes of the %d selected histories (%s)' % (len(plans), fx), rp, role='model')
        allowed[label] = {}
        for x in rp.tags.get('PATH', []):
            allowed[label].setdefault(x[0], set()).add(x[3])
    nopre = [p['id'] for p in plans if p['id'] not in allowed['pre']]
    ncur = len(CURATED) + 10 + (len(CURATED_REMOTE) if remote else 0)
    if any(int(i[1:]) < ncur for i in nopre):
        raise MachineryError('curated histories that are not behaviours of PoolLife.tla: %s' % [p['ops'] for p in plans if p['id'] in nopre][:3])
    # a sampled history was enumerated for force = none; with force=False it may not be a behaviour (run would wait for a
    # stuck worker that the close did not kill): such a plan is not replayed
    ev.cov['plans_dropped_not_a_behaviour_with_their_force'] = len(nopre)
    plans = [p for p in plans if p['id'] not in nopre]

    # ---- 2. spec -> code ----
    t_rep = Timer()
    outs = _run_hosts(plans, scratch)
    ev.cov['replay_wall_s'] = t_rep.s()
    records, meta = [], {}
    for case, out in zip(plans, outs):
        if out.get('error') or (not out.get('steps') and out.get('created', 'ok') == 'ok'):
            ev.cov.setdefault('host_errors', []).append({'case': case, 'error': (out.get('error') or 'no step executed')[:300]})
            continue
        rec = _record(case, out)
        records.append(rec)
        meta[case['id']] = (case, out)
    if not records:
        raise MachineryError('no replay produced a record')

    # ---- 3. judge ----
    fails, rj = tlc.judge('PoolLifeJudge', records, name='judge')
    ev.add_tlc('judge: C09 operators on %d real pool histories' % len(records), rj, role='judge')
    for rid, clause in fails:
        case, out = meta[rid]
        name, _, k = clause.partition('@')
        k = int(k)
        if k == 0:
            violations.append(Violation('C09', 'C09|%s|force=%s|close_timeout=%s|%s' % (name, case['force'], case.get('ctimeout'), out.get('created_exc', '')[:60]),
                                        '%s fails: Pool(close_timeout=%s) cannot be constructed: %s' % (name, 'None' if case.get('ctimeout') == 'none' else CLOSE_T, out.get('created_exc')),
                                        {k2: case.get(k2) for k2 in ('force', 'ops', 'stickmode', 'ctimeout', 'retry')}))
            continue
        s = out['steps'][k - 1]
        prev = [x.partition(':')[0] for x in case['ops'][:k - 1]]
        ctx = []
        if 'dup' in prev or s['op'] == 'dup':
            ctx.append('dup')
        if any(x in ('close', 'terminate', 'exc') for x in prev) and any(x in ('add', 'attach') for x in prev[min(i for i, x in enumerate(prev) if x in ('close', 'terminate', 'exc')):]):
            ctx.append('add-after-close')
        if 'runint' in prev:
            ctx.append('after-interrupted-run')
        if 'restartg' in prev or s['op'] == 'restartg':
            ctx.append('gentle-restart')
        if any(x in ('closeint', 'termint') for x in prev):
            ctx.append('after-interrupted-close')
        kinds_ = sorted(set(o.partition(':')[2] for o in case['ops'] if o.startswith(('add:', 'attach:'))))
        sig = 'C09|%s|op=%s|ctx=%s|force=%s|retry=%s|outcome=%s|alive_owned=%s|live_unreg=%s|extra=%d|deadwork=%d|norestartwork=%d|spoiled=%d|missing=%d' % (
            name, s['op'], '+'.join(ctx) or 'plain', case['force'], case.get('retry', 'T'), s['outcome'],
            '0' if not s['alive_owned'] else 'unregistered' if not s.get('alive_reg') else 'registered' if s.get('alive_reg') == s['alive_owned'] else 'mixed',
            'some' if s['live_unreg'] else '0', s['extra'], s['dead_got_work'], s['restarted_no_work'], s.get('spoiled', 0), s.get('missing', 0))
        what = ('%s fails at step %d (%s) of history %s (force=%s, kinds %s): outcome %s, %d owned process/remote worker(s) alive, %d live process(es) newly outside pool.workers%s, '
                'extra results %d, missing results %d, dead workers handed work %d, restarted workers without work %d'
                % (name, k, case['ops'][k - 1], case['ops'], case['force'], kinds_, s['outcome'], s['alive_owned'], s['live_unreg'],
                   (' ' + str(s.get('unreg_cmds'))) if s.get('unreg_cmds') else '', s['extra'], s.get('missing', 0), s['dead_got_work'], s['restarted_no_work']))
        violations.append(Violation('C09', sig, what, {k2: case.get(k2) for k2 in ('force', 'ops', 'stickmode', 'ctimeout', 'retry')}))

    # ---- 4. conformance ----
    conf = {'pre': 0, 'fix': 0, 'both': 0, 'neither': 0, 'truncated': 0, 'no_behaviour_of_the_matching_model': 0}
    cls = []
    for rec in records:
        case, out = meta[rec['id']]
        if out.get('truncated'):
            conf['truncated'] += 1
            continue
        oc = _outcome(out)
        cls.append((rec, oc, oc in allowed['pre'].get(rec['id'], ()), oc in allowed['fix'].get(rec['id'], ())))
    # which variant of the model does this tree follow?  (histories are enumerated from the pre-fix model as well, so that a
    # reverted fix is exercised; a history that is no behaviour of the matching model at all is not comparable)
    best = 'fix' if sum(1 for _r, _o, a_, b_ in cls if b_ and not a_) >= sum(1 for _r, _o, a_, b_ in cls if a_ and not b_) else 'pre'
    for rec, oc, a_, b_ in cls:
        case, out = meta[rec['id']]
        if not a_ and not b_ and rec['id'] not in allowed[best]:
            conf['no_behaviour_of_the_matching_model'] += 1
            continue
        conf['both' if a_ and b_ else 'pre' if a_ else 'fix' if b_ else 'neither'] += 1
        if not a_ and not b_ and len(drift) < 4:
            drift.append('real pool history %s (force=%s, stick=%s) gives %s; PoolLife.tla (code as is): %s; (fixed): %s'
                         % (case['ops'], case['force'], case.get('stickmode'), oc, sorted(allowed['pre'].get(rec['id'], ()))[:3],
                            sorted(allowed['fix'].get(rec['id'], ()))[:3]))
    conf['matching_model'] = best
    ev.cov['conformance_detail'] = conf
    ev.cov['traces_validated_against_impl'] = conf['pre'] + conf['fix'] + conf['both']
    ev.cov['evaluations'] = sum(len(r_['obs']['steps']) for r_ in records)
    ev.cov['distinct_nontrivial'] = len(set((r_['scn']['force'], tuple(r_['scn']['ops']), r_['scn']['stickmode']) for r_ in records
                                            if any(s['alive_owned'] > 0 or s['op'] in ('run', 'runp', 'restart') for s in r_['obs']['steps'])))
    ev.cov['rule'] = ('case = (force setting, API history, kind of sticking); histories enumerated by TLC (all %d histories of 4 calls, %d simulated of 6 calls), '
                      'seeded selection of %d plus %d curated; non-trivial = some step had a live process worker or ran/restarted workers'
                      % (len(set(free4)), len(set(sim6)), len(plans) - len(CURATED) - 2 - (len(CURATED_REMOTE) if remote else 0),
                         len(CURATED) + 10 + (len(CURATED_REMOTE) if remote else 0)))
    ev.cov['exhaustive'] = False
    ev.cov['replayed_cases'] = len(records)
    ev.cov['steps_by_op'] = {}
    for r_ in records:
        for s in r_['obs']['steps']:
            ev.cov['steps_by_op'][s['op']] = ev.cov['steps_by_op'].get(s['op'], 0) + 1
    for rec in records[:2] + records[len(CURATED) + 10:len(CURATED) + 4]:
        ev.sample({'scn': rec['scn'], 'obs': rec['obs'], 'model_outcomes_code_as_is': sorted(allowed['pre'].get(rec['id'], ()))[:4]})
    ev.assumptions += ['Pool.run is abstracted to its effect on the bookkeeping; its loop is the subject of Pool.tla (C07/C08)',
                       'worker ids are not reused by the OS within a history (fresh keys); the what-if variant ReuseKeys shows what breaks otherwise',
                       'the process table is read once it has been stable for 150 ms (at most 1.5 s) after each call',
                       'thread workers are never force-terminated; the property excludes them from "dead at exit"',
                       'histories in which run() would wait for a stuck worker forever are not generated']
    return finish(ev, violations, T.s(), drift)


if __name__ == '__main__':
    if len(sys.argv) == 4 and sys.argv[1] == '--host':
        host_main(sys.argv[2], sys.argv[3])
