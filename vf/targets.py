"""Targets and worker subclasses run inside children (importable through PYTHONPATH=/verif)."""
import os

from pyworkers.thread import ThreadWorker
from pyworkers.process import ProcessWorker
from pyworkers.remote import RemoteWorker
from pyworkers.persistent_thread import PersistentThreadWorker
from pyworkers.persistent_process import PersistentProcessWorker
from pyworkers.persistent_remote import PersistentRemoteWorker


class NeedArgs(Exception):
    """An exception that cannot be rebuilt on the parent side (constructor needs 2 arguments)."""
    def __init__(self, a, b):
        super().__init__('%s-%s' % (a, b))
        self.a = a


class OwnBase(BaseException):
    pass


def mark(path, what):
    if path:
        fd = os.open(path, os.O_WRONLY | os.O_APPEND | os.O_CREAT, 0o600)
        os.write(fd, (what + '\n').encode())
        os.close(fd)


def t_ret(mpath, n=2):
    x = 0
    mark(mpath, 'start')
    try:
        for i in range(n):
            x += i + 1
    finally:
        mark(mpath, 'fin_enter')
        x += 100
        mark(mpath, 'fin_done')
    mark(mpath, 'ret')
    return ('own', x)


def t_exc(mpath, n=2):
    x = 0
    mark(mpath, 'start')
    try:
        for i in range(n):
            x += i + 1
    finally:
        mark(mpath, 'fin_enter')
        x += 100
        mark(mpath, 'fin_done')
    mark(mpath, 'raise')
    raise ValueError('own', x)


def t_bexc(mpath, n=1):
    mark(mpath, 'start')
    mark(mpath, 'raise')
    raise OwnBase('own')


def t_unreb(mpath, n=1):
    mark(mpath, 'start')
    mark(mpath, 'raise')
    raise NeedArgs(1, 2)


def t_big(mpath, n=1):
    mark(mpath, 'start')
    mark(mpath, 'ret')
    return b'x' * (3 * 1024 * 1024)


TARGETS = {'ret': t_ret, 'exc': t_exc, 'bexc': t_bexc, 'unreb': t_unreb, 'big': t_big}


def p_item(mpath, k):
    """persistent target: result for item k is ('own', k)"""
    mark(mpath, 'item %d start' % k)
    y = k * 1
    mark(mpath, 'item %d ret' % k)
    return ('own', y)


def p_item_raise3(mpath, k):
    mark(mpath, 'item %d start' % k)
    if k == 3:
        raise ValueError('own', k)
    mark(mpath, 'item %d ret' % k)
    return ('own', k)


class _Stateful:
    """run() assigns user_state before and after calling the target (C16)."""
    def run(self, *args, **kwargs):
        mpath = args[0] if args else None
        base = self.user_state if isinstance(self.user_state, int) else 0
        mark(mpath, 'us_pre %d' % (base + 1))
        self.user_state = base + 1
        mark(mpath, 'us_post %d' % (base + 1))
        r = super().run(*args, **kwargs)
        mark(mpath, 'us_pre %d' % (base + 2))
        self.user_state = base + 2
        mark(mpath, 'us_post %d' % (base + 2))
        return r


class SThread(_Stateful, ThreadWorker):
    pass


class SProcess(_Stateful, ProcessWorker):
    pass


class SRemote(_Stateful, RemoteWorker):
    pass


class SPThread(_Stateful, PersistentThreadWorker):
    pass


class SPProcess(_Stateful, PersistentProcessWorker):
    pass


class SPRemote(_Stateful, PersistentRemoteWorker):
    pass


CLASSES = {('thread', False): SThread, ('process', False): SProcess, ('remote', False): SRemote,
           ('thread', True): SPThread, ('process', True): SPProcess, ('remote', True): SPRemote}
