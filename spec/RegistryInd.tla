----------------------------- MODULE RegistryInd -----------------------------
(* Unbounded-history safety of Worker._active_children (C19), discharged by Apalache as   *)
(* an inductive invariant (Init => IndInv; IndInv /\ Next => IndInv').  Registry.tla is   *)
(* checked by TLC for histories of at most MaxSteps API steps; here the actions are the   *)
(* same critical sections (Create / Die / Restart / Begin / Lock / PruneCopy / Release /  *)
(* Return / Auto) with the registry abstracted to a set and NO bound on the number of     *)
(* steps: any number of restarts, calls and autoclose blocks over 5 worker objects and 3  *)
(* caller threads.  A worker object can be re-used after death only through Restart, as   *)
(* in the code.                                                                            *)
(* What is proved for every reachable state, whatever the history length:                  *)
(*   Mutex        the lock owner is exactly the thread inside the prune/copy section       *)
(*   LiveReg      every live worker is registered                                          *)
(*   Exact        a call yields every worker alive throughout it and only workers alive at *)
(*                some moment of it (C19_Exact with lb = mayv, la = mustv)                 *)
(*   Bounded      dead workers still registered after the prune died during the call       *)
(*                (C19_Bounded)                                                            *)
(*   Autoclose    nobody is alive after an autoclose block (C19_Autoclose)                 *)
(* NextBadRestart / NextBadPrune are the pre-fix algorithms (restart() not re-registering; *)
(* pruning outside the lock in one step with a stale copy): Apalache must REJECT the step  *)
(* case for them, which shows that the invariant is not vacuous.                           *)
EXTENDS Integers, FiniteSets

W == 1..5
T == 1..3
States == {"none", "norun", "live", "dead"}
Pcs == {"idle", "want", "locked", "copied", "yield", "stale"}

VARIABLES
  \* @type: Int -> Str;
  st,
  \* @type: Int -> Bool;
  pers,
  \* @type: Set(Int);
  reg,
  \* @type: Int;
  lock,
  \* @type: Int -> Str;
  tpc,
  \* @type: Int -> Set(Int);
  mayv,
  \* @type: Int -> Set(Int);
  mustv,
  \* @type: Int -> Set(Int);
  snap,
  \* @type: Int -> Set(Int);
  diedv,
  \* @type: Set(Int);
  autoAfter

Live == {w \in W : st[w] = "live"}
Dead == {w \in W : st[w] = "dead"}
Busy(t) == tpc[t] # "idle"
Idle == \A t \in T : tpc[t] = "idle"

Init == /\ st = [w \in W |-> "none"] /\ pers = [w \in W |-> FALSE] /\ reg = {} /\ lock = 0
        /\ tpc = [t \in T |-> "idle"]
        /\ mayv = [t \in T |-> {}] /\ mustv = [t \in T |-> {}] /\ snap = [t \in T |-> {}] /\ diedv = [t \in T |-> {}]
        /\ autoAfter = {}

\* Worker.__init__: a worker that is run is started and registered under the lock
Create(w, run, p) ==
   /\ st[w] = "none" /\ lock = 0
   /\ st' = [st EXCEPT ![w] = IF run THEN "live" ELSE "norun"]
   /\ pers' = [pers EXCEPT ![w] = p]
   /\ reg' = (IF run THEN reg \union {w} ELSE reg)
   /\ mayv' = [t \in T |-> IF Busy(t) /\ run THEN mayv[t] \union {w} ELSE mayv[t]]
   /\ UNCHANGED <<lock, tpc, mustv, snap, diedv, autoAfter>>

Die(w) ==
   /\ st[w] = "live"
   /\ st' = [st EXCEPT ![w] = "dead"]
   /\ mustv' = [t \in T |-> mustv[t] \ {w}]
   /\ diedv' = [t \in T |-> IF Busy(t) THEN diedv[t] \union {w} ELSE diedv[t]]
   /\ UNCHANGED <<pers, reg, lock, tpc, mayv, snap, autoAfter>>

RestartWith(w, register) ==
   /\ pers[w] /\ st[w] = "dead" /\ lock = 0
   /\ st' = [st EXCEPT ![w] = "live"]
   /\ reg' = (IF register THEN reg \union {w} ELSE reg)
   /\ mayv' = [t \in T |-> IF Busy(t) THEN mayv[t] \union {w} ELSE mayv[t]]
   /\ UNCHANGED <<pers, lock, tpc, mustv, snap, diedv, autoAfter>>
Restart(w) == RestartWith(w, TRUE)

Begin(t) ==
   /\ tpc[t] = "idle"
   /\ tpc' = [tpc EXCEPT ![t] = "want"]
   /\ mayv' = [mayv EXCEPT ![t] = Live] /\ mustv' = [mustv EXCEPT ![t] = Live] /\ diedv' = [diedv EXCEPT ![t] = {}]
   /\ UNCHANGED <<st, pers, reg, lock, snap, autoAfter>>
Lock(t) ==
   /\ tpc[t] = "want" /\ lock = 0
   /\ lock' = t /\ tpc' = [tpc EXCEPT ![t] = "locked"]
   /\ UNCHANGED <<st, pers, reg, mayv, mustv, snap, diedv, autoAfter>>
PruneCopy(t) ==
   /\ tpc[t] = "locked"
   /\ reg' = reg \intersect Live /\ snap' = [snap EXCEPT ![t] = reg \intersect Live]
   /\ tpc' = [tpc EXCEPT ![t] = "copied"]
   /\ UNCHANGED <<st, pers, lock, mayv, mustv, diedv, autoAfter>>
Release(t) ==
   /\ tpc[t] = "copied"
   /\ lock' = 0 /\ tpc' = [tpc EXCEPT ![t] = "yield"]
   /\ UNCHANGED <<st, pers, reg, mayv, mustv, snap, diedv, autoAfter>>
Return(t) ==
   /\ tpc[t] = "yield"
   /\ tpc' = [tpc EXCEPT ![t] = "idle"]
   /\ UNCHANGED <<st, pers, reg, lock, mayv, mustv, snap, diedv, autoAfter>>

\* leaving an autoclose block (finally clause): prune, then close/wait/terminate every yielded worker
Auto ==
   /\ Idle /\ lock = 0
   /\ reg' = reg \intersect Live
   /\ st' = [w \in W |-> IF w \in reg /\ st[w] = "live" THEN "dead" ELSE st[w]]
   /\ autoAfter' = {w \in Live : w \notin reg}
   /\ UNCHANGED <<pers, lock, tpc, mayv, mustv, snap, diedv>>

Next == \/ \E w \in W, run \in BOOLEAN, p \in BOOLEAN : Create(w, run, p)
        \/ \E w \in W : Die(w) \/ Restart(w)
        \/ \E t \in T : Begin(t) \/ Lock(t) \/ PruneCopy(t) \/ Release(t) \/ Return(t)
        \/ Auto

\* ---- the pre-fix algorithms (must be rejected) ----
\* restart() skipped register_child
NextBadRestart == \/ \E w \in W, run \in BOOLEAN, p \in BOOLEAN : Create(w, run, p)
                  \/ \E w \in W : Die(w) \/ RestartWith(w, FALSE)
                  \/ \E t \in T : Begin(t) \/ Lock(t) \/ PruneCopy(t) \/ Release(t) \/ Return(t)
                  \/ Auto
\* copy under the lock, release, filter and store later ("stale" = between the two sections; the lock is free)
CopyOnly(t) == /\ tpc[t] = "locked"
               /\ snap' = [snap EXCEPT ![t] = reg] /\ lock' = 0 /\ tpc' = [tpc EXCEPT ![t] = "stale"]
               /\ UNCHANGED <<st, pers, reg, mayv, mustv, diedv, autoAfter>>
StoreStale(t) == /\ tpc[t] = "stale" /\ lock = 0
                 /\ reg' = snap[t] \intersect Live /\ snap' = [snap EXCEPT ![t] = snap[t] \intersect Live]
                 /\ tpc' = [tpc EXCEPT ![t] = "yield"]
                 /\ UNCHANGED <<st, pers, lock, mayv, mustv, diedv, autoAfter>>
NextBadPrune == \/ \E w \in W, run \in BOOLEAN, p \in BOOLEAN : Create(w, run, p)
                \/ \E w \in W : Die(w) \/ Restart(w)
                \/ \E t \in T : Begin(t) \/ Lock(t) \/ CopyOnly(t) \/ StoreStale(t) \/ Return(t)
                \/ Auto

\* ---- invariant ----
TypeOK == /\ st \in [W -> States] /\ pers \in [W -> BOOLEAN] /\ reg \in SUBSET W /\ lock \in 0..3
          /\ tpc \in [T -> Pcs]
          /\ mayv \in [T -> SUBSET W] /\ mustv \in [T -> SUBSET W] /\ snap \in [T -> SUBSET W] /\ diedv \in [T -> SUBSET W]
          /\ autoAfter \in SUBSET W
Mutex == /\ \A t \in T : (lock = t) <=> (tpc[t] \in {"locked", "copied"})
LiveReg == Live \subseteq reg
Window == \A t \in T : Busy(t) => (mustv[t] \subseteq Live /\ Live \subseteq mayv[t])
Exact == \A t \in T : tpc[t] \in {"copied", "yield"} => (mustv[t] \subseteq snap[t] /\ snap[t] \subseteq mayv[t])
Bounded == \A t \in T : tpc[t] \in {"copied", "yield"} => ((reg \intersect Dead) \subseteq diedv[t])
Autoclose == autoAfter = {}
IndInv == TypeOK /\ Mutex /\ LiveReg /\ Window /\ Exact /\ Bounded /\ Autoclose
IndInit == IndInv
=============================================================================
