INIT MCInit
NEXT Next
CONSTANTS
  Algo = "asis"
  SeedCopyreg = FALSE
  Scns = {}
INVARIANT TypeOK
INVARIANT Inv_FreshStart
INVARIANT Inv_C14_Once
INVARIANT Inv_C14_LoadsSucceeds
INVARIANT Inv_C14_Shape
INVARIANT Inv_C14_ViaSetstate
CHECK_DEADLOCK FALSE
