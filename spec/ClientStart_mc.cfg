SPECIFICATION Spec
CONSTANTS
  Fix <- FixAll
  Scenarios <- AllScenarios
  LateClose = FALSE
  LeakData = FALSE
  GoFirst = FALSE
  LateErrReset = FALSE
INVARIANT TypeOK
INVARIANT Inv_Usable
INVARIANT Inv_NoLeftover
INVARIANT Inv_NotRegistered
INVARIANT Inv_DataClosed
PROPERTY Live_Returns
CHECK_DEADLOCK FALSE
