\* Every scenario terminates (no stuck load, no livelock between two loading threads).
SPECIFICATION MCSpec
CONSTANTS
  Algo = "asis"
  SeedCopyreg = "live"
  InitGuard = FALSE
  CacheById = FALSE
  KwOnlyOK = TRUE
  SharedCtx = FALSE
  CtxCopy = TRUE
  Scns = {}
PROPERTY Live_Terminates
CHECK_DEADLOCK FALSE
