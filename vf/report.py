"""Verdicts, known findings, evidence files.

A driver collects `Violation`s (real executions that TLC's judge rejected) and
hands them to `finish()`, which splits them into KNOWN-FINDING lines (signature
listed in known_findings.json) and VIOLATION lines (anything else), writes the
evidence file and returns the exit code."""
import fnmatch
import json
import os

from .common import EVIDENCE, VERIF, jdump, seed

KNOWN = os.path.join(VERIF, 'known_findings.json')


class Violation:
    def __init__(self, prop, signature, what, replay):
        self.prop = prop
        self.signature = signature      # canonical abstraction of the failing scenario
        self.what = what                # human-readable: what failed (clause, scenario)
        self.replay = replay            # JSON-able dict that --replay re-executes


def load_known():
    """known_findings.json plus known_findings.d/*.json (same format), committed, never written at run time."""
    import glob
    out = []
    for p in [KNOWN] + sorted(glob.glob(os.path.join(VERIF, 'known_findings.d', '*.json'))):
        try:
            with open(p) as f:
                out += json.load(f).get('findings', [])
        except FileNotFoundError:
            pass
    return out


def split(violations):
    known = load_known()
    seen, new = {}, []
    for v in violations:
        hit = None
        for k in known:
            if k['property'] == v.prop and fnmatch.fnmatchcase(v.signature, k['signature']):
                hit = k
                break
        if hit is None:
            new.append(v)
        else:
            seen.setdefault((hit['property'], hit['signature']), [hit, 0])[1] += 1
    return seen, new


class Evidence:
    def __init__(self, prop, tier, level='model_checking'):
        self.prop = prop
        self.tier = tier
        self.level = level
        self.cov = {'states': 0, 'transitions': 0, 'traces_validated_against_impl': 0, 'samples': [],
                    'evaluations': 0, 'distinct_nontrivial': 0, 'rule': '', 'exhaustive': False,
                    'tlc_runs': [], 'conformance': 'ok', 'drift': [], 'known_findings_seen': []}
        self.assumptions = []

    def add_tlc(self, label, r, role='model'):
        """role: 'model' (exhaustive/simulation of the behavioural spec) or 'judge'/'trace' (real data)."""
        self.cov['tlc_runs'].append(dict(r.summary(), label=label, role=role,
                                         coverage_by_action=r.coverage or None))
        if role == 'model':
            self.cov['states'] += r.distinct
            self.cov['transitions'] += r.generated

    def sample(self, s, cap=6):
        if len(self.cov['samples']) < cap:
            self.cov['samples'].append(s)

    def write(self, wall, nviol):
        os.makedirs(EVIDENCE, exist_ok=True)
        if not self.cov['samples']:
            self.cov['samples'].append('no case was produced by this run')
        doc = {'property_id': self.prop, 'tier': self.tier, 'seed': seed(), 'level': self.level,
               'coverage': self.cov, 'assumptions': self.assumptions, 'wall_s': wall, 'violations': nviol}
        jdump(doc, os.path.join(EVIDENCE, self.prop + '.json'))


def finish(ev, violations, wall, drift=()):
    """Print verdict lines, write evidence and replay files, return exit code."""
    seen, new = split(violations)
    for (prop, sig), (k, n) in sorted(seen.items()):
        print('KNOWN-FINDING: property=%s %s [signature %s, seen %d time(s) in this run]' % (prop, k['what'], sig, n))
        ev.cov['known_findings_seen'].append({'signature': sig, 'count': n})
    for d in drift:
        print('DRIFT: property=%s %s' % (ev.prop, d))
        ev.cov['drift'].append(d)
    if drift:
        ev.cov['conformance'] = 'drift'
    rdir = os.path.join(EVIDENCE, 'replay')
    shown = {}
    for v in new:
        if v.signature in shown:
            shown[v.signature] += 1
            continue
        shown[v.signature] = 1
        if len(shown) > 12:
            continue
        os.makedirs(rdir, exist_ok=True)
        path = os.path.join(rdir, '%s_%d.json' % (v.prop, len(shown)))
        jdump({'property': v.prop, 'signature': v.signature, 'what': v.what, 'replay': v.replay}, path)
        print('VIOLATION property=%s replay=%s' % (v.prop, path))
        print('  what: %s' % v.what)
        print('  signature: %s' % v.signature)
    ev.cov['violation_signatures'] = shown
    ev.write(wall, len(new))
    return 1 if new else 0
