"""Run TLC and read what it says.  No TLA+ value parser is needed: every spec that
talks to the harness prints one-line tuples  <<"TAG", "json-or-string", ...>>  whose
elements are strings or integers (JSON text is carried inside a string)."""
import json
import os
import re
import subprocess
import time

from .common import SPEC, MachineryError, sub_scratch

JAR = '/opt/veriftools/tla/tla2tools.jar:/opt/veriftools/tla/CommunityModules-deps.jar'

_RE_STATES = re.compile(r'^(\d+) states generated, (\d+) distinct states found, (\d+) states left on queue')
_RE_DEPTH = re.compile(r'^The depth of the complete state graph search is (\d+)')
_RE_INV = re.compile(r'^Error: Invariant (\S+) is violated')
_RE_APROP = re.compile(r'^Error: Action property (\S+) is violated')
_RE_TAG = re.compile(r'^<<\s*"([A-Za-z_0-9]+)"(?:,\s*(.*?))?\s*>>$')
_RE_COV = re.compile(r'^<(\w+) line (\d+), col \d+ to line \d+, col \d+ of module (\w+)>: (\d+):(\d+)')
_RE_SIMSTAT = re.compile(r'^The number of states generated: (\d+)')


class TLCResult:
    def __init__(self):
        self.rc = None
        self.stdout = ''
        self.generated = 0
        self.distinct = 0
        self.depth = 0
        self.error = None          # None | 'invariant:X' | 'action:X' | 'temporal' | 'deadlock' | 'other:...'
        self.completed = False
        self.tags = {}             # TAG -> list of element lists
        self.coverage = {}         # action -> [distinct, generated]
        self.wall = 0.0
        self.cmd = ''
        self.trace = []            # counterexample state lines (raw), if any

    @property
    def ok(self):
        return self.completed and self.error is None

    def summary(self):
        return {'generated': self.generated, 'distinct': self.distinct, 'depth': self.depth,
                'error': self.error, 'wall_s': round(self.wall, 2), 'cmd': self.cmd}


def _depth(line, d, instr):
    """Bracket depth of << >> outside string literals (TLC wraps long tuples)."""
    i, n = 0, len(line)
    while i < n:
        c = line[i]
        if instr:
            if c == '\\':
                i += 1
            elif c == '"':
                instr = False
        elif c == '"':
            instr = True
        elif line.startswith('<<', i):
            d += 1
            i += 1
        elif line.startswith('>>', i):
            d -= 1
            i += 1
        i += 1
    return d, instr


def _join_wrapped(lines):
    acc, d, instr = None, 0, False
    for line in lines:
        if acc is None:
            if line.startswith('<<') and not in_state_dump(line):
                d, instr = _depth(line, 0, False)
                if d > 0:
                    acc = [line]
                    continue
            yield line
        else:
            acc.append(line.strip())
            d, instr = _depth(line, d, instr)
            if d <= 0:
                yield ' '.join(acc)
                acc = None
    if acc:
        yield ' '.join(acc)


def in_state_dump(line):
    return False


def _parse_elems(rest):
    if rest is None:
        return []
    try:
        return json.loads('[' + rest + ']')
    except ValueError:
        return [rest]


def run(module, cfg=None, cfg_text=None, *, workers=16, env=None, simulate=None, depth=None,
        seed=None, coverage=False, timeout=900, dfs=False, deadlock=False, extra=(), name=None,
        must_complete=True, _retried=False):
    """Run TLC on spec/<module>.tla with spec/<cfg> or a generated cfg text."""
    tla = os.path.join(SPEC, module + '.tla')
    if not os.path.exists(tla):
        raise MachineryError('no such spec: ' + tla)
    tag = name or (cfg or module).replace('.cfg', '')
    meta = sub_scratch('tlc-' + tag + '-' + str(time.time_ns()))
    if cfg_text is not None:
        cfgpath = os.path.join(meta, module + '_gen.cfg')
        with open(cfgpath, 'w') as f:
            f.write(cfg_text)
    else:
        cfgpath = os.path.join(SPEC, cfg or (module + '.cfg'))
    jopts = ['-XX:+UseParallelGC', '-Xmx6g', '-Djava.io.tmpdir=' + meta]
    if dfs:
        jopts.append('-Dtlc2.tool.queue.IStateQueue=StateDeque')
    cmd = ['java'] + jopts + ['-cp', JAR, 'tlc2.TLC', '-workers', str(workers), '-metadir', meta,
                              '-noGenerateSpecTE', '-config', cfgpath]
    if deadlock:
        pass
    else:
        cmd.append('-deadlock')      # -deadlock = do NOT check deadlock
    if simulate:
        cmd += ['-simulate', simulate]
    if depth:
        cmd += ['-depth', str(depth)]
    if seed is not None:
        cmd += ['-seed', str(seed)]
    if coverage:
        cmd += ['-coverage', '1']
    cmd += list(extra)
    cmd.append(tla)
    e = dict(os.environ)
    e.pop('JAVA_TOOL_OPTIONS', None)
    if env:
        e.update({k: str(v) for k, v in env.items()})
    r = TLCResult()
    r.cmd = ' '.join(cmd[cmd.index('tlc2.TLC'):])
    t0 = time.time()
    try:
        p = subprocess.run(cmd, cwd=SPEC, env=e, stdout=subprocess.PIPE, stderr=subprocess.STDOUT,
                           timeout=timeout, text=True, errors='replace')
        r.rc = p.returncode
        r.stdout = p.stdout
    except subprocess.TimeoutExpired as ex:
        r.rc = -1
        r.stdout = (ex.stdout or b'').decode('utf-8', 'replace') if isinstance(ex.stdout, bytes) else (ex.stdout or '')
        r.error = 'other:timeout'
    r.wall = time.time() - t0
    in_trace = False
    for line in _join_wrapped(r.stdout.splitlines()):
        m = _RE_TAG.match(line)
        if m:
            r.tags.setdefault(m.group(1), []).append(_parse_elems(m.group(2)))
            continue
        m = _RE_STATES.match(line)
        if m:
            r.generated, r.distinct = int(m.group(1)), int(m.group(2))
            continue
        m = _RE_SIMSTAT.match(line)
        if m:
            r.generated = int(m.group(1))
            r.distinct = r.distinct or r.generated
            continue
        m = _RE_DEPTH.match(line)
        if m:
            r.depth = int(m.group(1))
            continue
        m = _RE_INV.match(line)
        if m:
            r.error = 'invariant:' + m.group(1)
            in_trace = True
            continue
        m = _RE_APROP.match(line)
        if m:
            r.error = 'action:' + m.group(1)
            in_trace = True
            continue
        if line.startswith('Error: Temporal properties were violated') or re.match(r'^Error: Temporal property \S+ was violated', line):
            r.error = 'temporal'
            in_trace = True
            continue
        if line.startswith('Error: Deadlock reached'):
            r.error = 'deadlock'
            in_trace = True
            continue
        if line.startswith('Error:') and r.error is None:
            r.error = 'other:' + line[6:].strip()[:200]
            continue
        if line.startswith('Model checking completed') or line.startswith('Finished in'):
            r.completed = True
            in_trace = False
        m = _RE_COV.match(line)
        if m:
            r.coverage[m.group(1)] = [int(m.group(4)), int(m.group(5))]
            continue
        if in_trace and len(r.trace) < 4000:
            r.trace.append(line)
    if must_complete and not r.completed and r.error is None:
        if not _retried:
            # the JVM went away without a verdict (seen once, with three soaks running side by side): run it again, once
            return run(module, cfg, cfg_text, workers=workers, env=env, simulate=simulate, depth=depth, seed=seed, coverage=coverage,
                       timeout=timeout, dfs=dfs, deadlock=deadlock, extra=extra, name=name, must_complete=must_complete, _retried=True)
        raise MachineryError('TLC did not complete (twice, exit code %s): %s\n%s' % (r.rc, r.cmd, r.stdout[-3000:]))
    if r.error and r.error.startswith('other:') and must_complete:
        raise MachineryError('TLC failed (%s): %s\n%s' % (r.error, r.cmd, r.stdout[-3000:]))
    return r


def sany(module):
    tla = os.path.join(SPEC, module + '.tla')
    p = subprocess.run(['java', '-cp', JAR, 'tla2sany.SANY', tla], cwd=SPEC, stdout=subprocess.PIPE,
                       stderr=subprocess.STDOUT, text=True)
    ok = p.returncode == 0 and 'Semantic errors' not in p.stdout and 'Parse Error' not in p.stdout \
        and 'Fatal errors' not in p.stdout and '*** Errors' not in p.stdout
    return ok, p.stdout


def judge(module, records, *, name='judge', env=None, timeout=600, chunk=2500):
    """Evaluate the TLA+ property operators of spec/<module>.tla on real records.
    `records` is a list of JSON-able dicts, each with a string field "id".
    Returns (fails, result) where fails = list of (record id, clause name).
    Large record sets are judged in chunks (one TLC run each): JsonDeserialize of one huge file is slow and memory hungry."""
    fails, last, distinct, generated, tags, out = [], None, 0, 0, {}, []
    for k in range(0, max(1, len(records)), chunk):
        part = records[k:k + chunk]
        f1, r1 = _judge_one(module, part, name=name, env=env, timeout=timeout)
        fails += f1
        distinct += r1.distinct
        generated += r1.generated
        for t, v in r1.tags.items():
            tags.setdefault(t, []).extend(v)
        out.append(r1.stdout)
        last = r1
    # the returned result stands for all chunks: counts, tagged lines and output are merged
    last.distinct, last.generated, last.tags = distinct, generated, tags
    if len(out) > 1:
        last.stdout = '\n'.join(out)
    return fails, last


def _judge_one(module, records, *, name, env, timeout):
    d = sub_scratch('judge-' + name + '-' + str(time.time_ns()))
    rec = os.path.join(d, 'records.json')
    with open(rec, 'w') as f:
        json.dump(records, f)
    cfg = 'INIT JInit\nNEXT JNext\nINVARIANT JInv\nCHECK_DEADLOCK FALSE\n'
    e = {'REC_FILE': rec}
    if env:
        e.update(env)
    r = run(module, cfg_text=cfg, workers=1, env=e, timeout=timeout, name=name)
    if r.error:
        raise MachineryError('judge %s failed: %s\n%s' % (module, r.error, r.stdout[-3000:]))
    if r.distinct != len(records):
        raise MachineryError('judge %s evaluated %d of %d records\n%s' % (module, r.distinct, len(records), r.stdout[-2000:]))
    fails = [(x[0], x[1]) for x in r.tags.get('FAIL', [])]
    return fails, r


def apalache_inductive(module, what, rejected_nexts=(), timeout=900):
    """Init => IndInv (length 0) and IndInv /\\ Next => IndInv' (length 1 from IndInit) for spec/<module>.tla with Apalache;
    every next-state relation named in rejected_nexts (a pre-fix algorithm) must FAIL the step case (non-vacuity)."""
    import shutil
    exe = shutil.which('apalache-mc')
    if not exe:
        raise MachineryError('apalache-mc not found')
    out = sub_scratch('apalache')
    env = dict(os.environ)
    env.setdefault('TMPDIR', out)
    res = {}
    cases = [('base', ['--init=Init', '--inv=IndInv', '--length=0'], True),
             ('step', ['--init=IndInit', '--inv=IndInv', '--length=1'], True)]
    for nx in rejected_nexts:
        cases.append(('step_rejected:' + nx, ['--init=IndInit', '--next=' + nx, '--inv=IndInv', '--length=1'], False))
    for name, args, want_ok in cases:
        for attempt in (1, 2):          # a JVM can vanish without a verdict on a loaded machine: once more before giving up
            p = subprocess.run([exe, 'check'] + args + ['--out-dir=' + out, module + '.tla'], cwd=SPEC, capture_output=True,
                               text=True, timeout=timeout, env=env)
            ok = 'EXITCODE: OK' in p.stdout
            bad = 'EXITCODE: ERROR (12)' in p.stdout and 'invariant' in p.stdout and 'violated' in p.stdout
            if ok or bad:
                break
        if not (ok or bad):
            raise MachineryError('Apalache gave no verdict on the %s case of %s:\n%s' % (name, module, p.stdout[-1500:]))
        if want_ok and not ok:
            raise MachineryError('Apalache does not discharge the %s case of IndInv (%s.tla):\n%s' % (name, module, p.stdout[-1500:]))
        if not want_ok and not bad:
            raise MachineryError('Apalache accepts %s of %s.tla, which stands for a pre-fix algorithm (vacuous invariant?)' % (name, module))
        res[name] = 'OK' if ok else 'violated (as required)'
    res['what'] = what
    return res
