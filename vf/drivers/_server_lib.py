"""Devices shared by the server-side checks (C11, C18, C12): tapping socket, scripted raw
clients, hang-bounded calls, OS ground truth (/proc).  Nothing here decides a property."""
import os
import signal
import socket
import struct
import threading
import time

from ..common import MachineryError, REPO, VERIF, ensure_repo_on_path

TARGETS_PATH = os.path.join(os.path.dirname(os.path.abspath(__file__)), '_server_targets.py')


def setup_env():
    """Make spawned servers/backends able to import pyworkers (REPO) and the targets (/verif)."""
    ensure_repo_on_path()
    parts = [REPO, VERIF] + [p for p in os.environ.get('PYTHONPATH', '').split(os.pathsep) if p and p not in (REPO, VERIF)]
    os.environ['PYTHONPATH'] = os.pathsep.join(parts)


# ----------------------------------------------------------------------------- hang bounds

class Hang(Exception):
    pass


def bounded(fn, timeout, *a, **kw):
    """Run fn in a daemon thread; ('ok', value) | ('raised', exc) | ('hang', None)."""
    box = {}

    def go():
        try:
            box['v'] = ('ok', fn(*a, **kw))
        except BaseException as e:  # noqa
            box['v'] = ('raised', e)

    t = threading.Thread(target=go, daemon=True)
    t.start()
    t.join(timeout)
    if t.is_alive():
        return ('hang', None)
    return box['v']


def tag(res):
    """('ok', v) -> 'v:<repr>' ; raised -> 'raised:<Type>' ; hang -> 'hang'  (tagged strings for TLC)."""
    k, v = res
    if k == 'ok':
        if v is True:
            return 'T'
        if v is False:
            return 'F'
        if v is None:
            return 'None'
        return 'v:%s' % (v,)
    if k == 'raised':
        return 'raised:' + type(v).__name__
    return 'hang'


# ----------------------------------------------------------------------------- OS ground truth

def has_tag(pid, tag):
    """The process carries VF_SCN=<tag> in its initial environment, i.e. it descends from the server of that scenario.
    Pids are recycled within minutes when several checks run side by side: a recorded pid is only trusted with its tag."""
    try:
        with open('/proc/%d/environ' % pid, 'rb') as f:
            return ('VF_SCN=' + tag).encode() in f.read()
    except OSError:
        return False


def pid_alive(pid, tag=None):
    """True iff pid exists, is not a zombie and (if a tag is given) still is the process we recorded."""
    try:
        with open('/proc/%d/stat' % pid) as f:
            s = f.read()
        if s[s.rindex(')') + 2] in 'ZX':
            return False
    except (FileNotFoundError, ProcessLookupError, ValueError, IndexError):
        return False
    return True if tag is None else has_tag(pid, tag)


def proc_table():
    """pid -> (ppid, state, cmdline-ish)"""
    out = {}
    for d in os.listdir('/proc'):
        if not d.isdigit():
            continue
        try:
            with open('/proc/%s/stat' % d) as f:
                s = f.read()
            r = s.rindex(')')
            rest = s[r + 2:].split()
            out[int(d)] = (int(rest[1]), rest[0], s[s.index('(') + 1:r])
        except (FileNotFoundError, ProcessLookupError, ValueError, IndexError):
            pass
    return out


def descendants(root, table=None):
    """All live (non-zombie) descendants of pid `root` (not including root)."""
    t = table or proc_table()
    kids = {}
    for pid, (ppid, st, _) in t.items():
        kids.setdefault(ppid, []).append(pid)
    out, todo = [], [root]
    while todo:
        p = todo.pop()
        for k in kids.get(p, []):
            if t[k][1] not in 'ZX':
                out.append(k)
            todo.append(k)
    return sorted(out)


def spawned_children(pid):
    """Direct live children of `pid` that are multiprocessing-spawned workers (not the resource tracker)."""
    out = []
    for p, (pp, st, _) in proc_table().items():
        if pp != pid or st in 'ZX':
            continue
        try:
            with open('/proc/%d/cmdline' % p, 'rb') as f:
                cmd = f.read()
        except OSError:
            continue
        if b'spawn_main' in cmd:
            out.append(p)
    return sorted(out)


def cmd_of(pid):
    try:
        with open('/proc/%d/cmdline' % pid, 'rb') as f:
            return f.read().replace(b'\0', b' ').decode('utf-8', 'replace').strip()
    except OSError:
        return ''


def is_resource_tracker(pid):
    return 'resource_tracker' in cmd_of(pid)


def tagged_pids(tag):
    """Live (non-zombie) processes whose initial environment carries VF_SCN=<tag>: the server of one
    scenario and everything that descends from it, also after re-parenting."""
    needle = ('VF_SCN=' + tag).encode()
    out = []
    for p, (pp, st, _) in proc_table().items():
        if st in 'ZX':
            continue
        try:
            with open('/proc/%d/environ' % p, 'rb') as f:
                if needle in f.read():
                    out.append(p)
        except OSError:
            pass
    return sorted(out)


def await_dead(pids, timeout, poll=0.02, tag=None):
    """Wait until every pid is gone (or zombie); returns the list still alive after `timeout`."""
    t0 = time.time()
    left = [p for p in pids if pid_alive(p, tag)]
    while left and time.time() - t0 < timeout:
        time.sleep(poll)
        left = [p for p in left if pid_alive(p, tag)]
    return left


def kill_pids(pids, sig=signal.SIGKILL, tag=None):
    """Signal recorded pids - with a tag only those that still carry it (never a recycled pid of somebody else)."""
    for p in pids:
        if tag is not None and not has_tag(p, tag):
            continue
        try:
            os.kill(p, sig)
        except (ProcessLookupError, PermissionError):
            pass


def reap_tree(root_pid, known=(), tag=None):
    """Kill a server and everything that descends from it (by pid; never by name; with a tag: only tagged processes)."""
    pids = set(known)
    if root_pid and pid_alive(root_pid, tag):
        pids.update(descendants(root_pid))
        pids.add(root_pid)
    pids = [p for p in pids if pid_alive(p, tag)]
    kill_pids(pids, tag=tag)
    return await_dead(pids, 2.0, tag=tag)


# ----------------------------------------------------------------------------- tapping socket

class Tap:
    """While active, every socket created by pyworkers.remote / pyworkers.remote_context is a
    TapSocket that logs (conn#, 'connect'|'send'|'recv'|'close', payload).  Connections are
    numbered in creation order (per Tap)."""

    def __init__(self):
        self.events = []
        self.lock = threading.Lock()
        self.n = 0

    def __enter__(self):
        from pyworkers import remote, remote_context
        tap = self

        class TapSocket(socket.socket):
            def __init__(s, *a, **kw):
                super().__init__(*a, **kw)
                with tap.lock:
                    s._tap_id = tap.n
                    tap.n += 1

            def _log(s, what, data):
                with tap.lock:
                    tap.events.append((getattr(s, '_tap_id', -1), what, data))

            def connect(s, addr):
                r = super().connect(addr)
                s._log('connect', tuple(addr))
                return r

            def sendall(s, data, *f):
                r = super().sendall(data, *f)
                s._log('send', bytes(data))
                return r

            def recv(s, n, *f):
                d = super().recv(n, *f)
                s._log('recv', d)
                return d

            def close(s):
                s._log('close', None)
                return super().close()

        class Shim:
            def __init__(self, real):
                self._real = real
                self.socket = TapSocket

            def __getattr__(self, n):
                return getattr(self._real, n)

        self._mods = [remote, remote_context]
        self._saved = [m.socket for m in self._mods]
        for m in self._mods:
            m.socket = Shim(socket)
        return self

    def __exit__(self, *a):
        for m, s in zip(self._mods, self._saved):
            m.socket = s
        return False

    def sends(self, conn):
        return [d for c, w, d in self.events if c == conn and w == 'send']

    def conns(self):
        return sorted(set(c for c, _, _ in self.events))


def frames_of(stream):
    """Split a byte stream into its length-prefixed frames (sanity of a recording)."""
    out, i = [], 0
    while i < len(stream):
        if i + 4 > len(stream):
            raise MachineryError('recorded stream ends inside a frame header')
        n = struct.unpack('!I', stream[i:i + 4])[0]
        if i + 4 + n > len(stream):
            raise MachineryError('recorded stream ends inside a frame body')
        out.append(stream[i:i + 4 + n])
        i += 4 + n
    return out


REQ_TYPES = ('worker', 'pworker', 'ctxcreate', 'ctxdelete', 'ctxworker', 'uctxworker', 'ctxdup', 'lworker')
REC_CTX_ID = 7701          # context of the healthy party: exists on every replay server ('ctxworker' requests name it)
FAULTY_CTX_ID = 7702       # context id used by faulty 'ctxcreate' / 'ctxdelete' requests
UNKNOWN_CTX_ID = 7703      # exists only while recording: 'uctxworker' = worker request naming an unknown context


def record_streams(addr):
    """Run one well-formed client per request type against the server at `addr` with the tap on;
    returns {type: [header_frame, payload_frame]} - the bytes that client wrote on its data
    connection before its first read.  Call it through bounded() (a broken server may hang it);
    all recordings of one run must be made by the same thread (thread ids are part of the payload)."""
    from pyworkers.remote import RemoteWorker
    from pyworkers.persistent_remote import PersistentRemoteWorker
    from pyworkers.remote_context import RemoteContext
    from . import _server_targets as tg
    out = {}

    def data_frames(tap, first_conn):
        fr = tap.sends(first_conn)
        if len(fr) < 2:
            raise MachineryError('tap: expected header and payload frames, got %d sends' % len(fr))
        for f in fr[:2]:
            if len(frames_of(f)) != 1:
                raise MachineryError('tap: a sendall() did not carry exactly one frame')
        return [fr[0], fr[1]]

    with Tap() as tap:
        w = RemoteWorker(tg.ident, args=(1,), host=addr, main_path=TARGETS_PATH)
        w.wait(10)
        out['worker'] = data_frames(tap, 0)
    with Tap() as tap:
        w = PersistentRemoteWorker(tg.ident, host=addr, main_path=TARGETS_PATH)
        w.wait(10)
        out['pworker'] = data_frames(tap, 0)
    with Tap() as tap:          # 'lworker': a one-shot worker whose target keeps running (used for start-ups that race with a stop)
        w = RemoteWorker(tg.coop_loop, host=addr, main_path=TARGETS_PATH)
        out['lworker'] = data_frames(tap, 0)
        try:
            w.terminate(timeout=5, force=False)
        except Exception:  # noqa
            pass
    for name, cid in (('ctxworker', REC_CTX_ID), ('uctxworker', UNKNOWN_CTX_ID)):
        ctx = RemoteContext(cid, host=addr, target=tg.ctx_fun, kwargs={'tok': 5})
        with Tap() as tap:
            w = PersistentRemoteWorker(None, host=addr, context=cid, main_path=TARGETS_PATH)
            w.wait(10)
            out[name] = data_frames(tap, 0)
        if cid == REC_CTX_ID:
            # 'ctxdup': a create whose id collides with a live context (the healthy party's on the replay servers)
            with Tap() as tap:          # only the bytes matter here; whether it is refused is for the judge, not for the tap
                try:
                    RemoteContext(cid, host=addr, target=tg.ctx_fun, kwargs={'tok': 9})
                except ValueError:
                    pass
                out['ctxdup'] = data_frames(tap, 0)
        ctx.wait()
    with Tap() as tap:
        ctx = RemoteContext(FAULTY_CTX_ID, host=addr, target=tg.ctx_fun, kwargs={'tok': 6})
        out['ctxcreate'] = data_frames(tap, 0)
    with Tap() as tap:
        ctx.wait()
        out['ctxdelete'] = data_frames(tap, 0)
    return out


def retarget_positions(rec_a, port_a, rec_b, port_b):
    """Two recordings of the same clients against servers on different ports must differ exactly in
    the port fields (pickle BININT2 'M' + 2 bytes little endian).  Returns {type: [(frame#, offset)]};
    self-validating: re-targeting recording A to port B must reproduce recording B byte for byte."""
    ma, mb = b'M' + struct.pack('<H', port_a), b'M' + struct.pack('<H', port_b)
    pos = {}
    for t in REQ_TYPES:
        pos[t] = []
        for k, (fa, fb) in enumerate(zip(rec_a[t], rec_b[t])):
            j = fa.find(ma)
            while j >= 0:
                if fb[j:j + 3] == mb:
                    pos[t].append((k, j + 1))
                j = fa.find(ma, j + 1)
        for fa, fb in zip(retarget(rec_a[t], pos[t], port_b), rec_b[t]):
            # the only other legitimate difference: the client pickles itself while its constructor
            # thread is still setting `_dead` (a benign race inside the client) - one boolean opcode
            bad = [i for i in range(max(len(fa), len(fb))) if fa[i:i + 1] != fb[i:i + 1] and fa[i - 6:i] != b'_dead\x94']
            if bad or len(fa) != len(fb):
                raise MachineryError('recordings of %s against two servers differ outside the port fields (offset %s)' % (t, bad[:3]))
    return pos


def retarget(frames, positions, port):
    out = [bytearray(f) for f in frames]
    for k, j in positions:
        out[k][j:j + 2] = struct.pack('<H', port)
    return [bytes(f) for f in out]


# ----------------------------------------------------------------------------- scripted raw clients

def _recv_exact(s, n):
    buf = b''
    while len(buf) < n:
        d = s.recv(n - len(buf))
        if not d:
            raise EOFError('peer closed')
        buf += d
    return buf


def raw_recv_frame(s):
    n = struct.unpack('!I', _recv_exact(s, 4))[0]
    return _recv_exact(s, n)


def vanish(socks, mode):
    """FIN: plain close (what the kernel does for a process that died); RST: SO_LINGER 0 then close."""
    for s in socks:
        if s is None:
            continue
        try:
            if mode == 'rst':
                s.setsockopt(socket.SOL_SOCKET, socket.SO_LINGER, struct.pack('ii', 1, 0))
            s.close()
        except OSError:
            pass


class RawClient:
    """Replays the recorded bytes of a well-formed client up to a protocol step / byte offset and
    then vanishes.  Steps: 'bytes' (send stream[:cut] then vanish), 'addr' (everything sent, ctrl
    address read, never connects), 'ctrl' (ctrl connected), 'run' (runtime info read), 'reply'
    (context ops: reply read = well-formed)."""

    def __init__(self, addr, frames, timeout=5.0):
        self.addr = tuple(addr)
        self.stream = b''.join(frames)
        self.timeout = timeout
        self.data = None
        self.ctrl = None
        self.log = []

    def run(self, step, cut, mode, hold=False):
        """Returns a list of what the client saw.  hold=True: stall instead of vanishing (sockets
        are kept open and returned in self.data / self.ctrl for a later vanish())."""
        import pickle
        s = socket.socket(socket.AF_INET, socket.SOCK_STREAM)
        s.settimeout(self.timeout)
        self.data = s
        try:
            s.connect(self.addr)
            self.log.append('connected')
            n = len(self.stream) if step != 'bytes' else cut
            if n:
                s.sendall(self.stream[:n])
            self.log.append('sent:%d' % n)
            if step in ('addr', 'ctrl', 'run'):
                ctrl_addr = pickle.loads(raw_recv_frame(s))
                self.log.append('addr')
                if step in ('ctrl', 'run'):
                    c = socket.socket(socket.AF_INET, socket.SOCK_STREAM)
                    c.settimeout(self.timeout)
                    self.ctrl = c
                    c.connect(tuple(ctrl_addr))
                    self.log.append('ctrl')
                    if step == 'run':
                        raw_recv_frame(c)
                        self.log.append('info')
            elif step == 'reply':
                r = pickle.loads(raw_recv_frame(s))
                self.log.append('reply:%s' % r)
        except (OSError, EOFError) as e:
            self.log.append('client-error:%s' % type(e).__name__)
        if not hold:
            self.vanish(mode)
        return self.log

    def vanish(self, mode):
        vanish([self.ctrl, self.data], mode)
        self.ctrl = self.data = None
        self.log.append('gone:' + mode)
