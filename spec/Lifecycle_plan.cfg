INIT Init
NEXT Next
CONSTANTS
  Fix <- FixNone
  MaxOps = 4
  Free = FALSE
  ReportMeansDead = FALSE
  RemDeadMeansDead = FALSE
  CacheDeadOnFalse = FALSE
  RebuildRaises = FALSE
  StaleAliveAfterKill = FALSE
  HiddenDeadline = FALSE
  Hist = TRUE
  Cases <- PlanCases
INVARIANT PathDump
CHECK_DEADLOCK FALSE
