"""Targets executed inside backends spawned by the remote server (must be importable there:
PYTHONPATH contains /verif).  Keep this module free of side effects: it is also passed as
`main_path` of the workers, i.e. re-executed by runpy in every backend."""
import os
import time


def ident(x):
    return x


def ctx_fun(x, tok=0):
    """Context target: the context's default `tok` identifies WHICH registration supplied the work.
    A string argument is a 'busy' job: announce it (marker file) and sit in ONE long blocking call."""
    if isinstance(x, str):
        with open(x, 'w'):
            pass
        time.sleep(90.0)
        return 'slept'
    return x * 1000 + tok


def wait_file(path, value, poll=0.02, limit=120.0):
    """Cooperative one-shot target: runs until `path` exists, then returns `value`."""
    t0 = time.time()
    while not os.path.exists(path):
        if time.time() - t0 > limit:
            return 'limit'
        time.sleep(poll)
    return value


def coop_loop(limit=120.0):
    """Cooperative: runs until terminated (WorkerTerminatedError propagates)."""
    t0 = time.time()
    while time.time() - t0 < limit:
        time.sleep(0.02)
    return 'limit'


def swallow_loop(limit=120.0):
    """Swallows every Exception (incl. WorkerTerminatedError) and keeps running."""
    t0 = time.time()
    while time.time() - t0 < limit:
        try:
            while time.time() - t0 < limit:
                time.sleep(0.02)
        except Exception:
            pass
    return 'limit'


def _mark(marker):
    if marker:
        with open(marker, 'w'):
            pass


def coop_marked(marker=None, limit=120.0):
    """Cooperative target that announces (marker file) that it is running."""
    _mark(marker)
    return coop_loop(limit)


def swallow_marked(marker=None, limit=120.0):
    """Swallowing target that announces (marker file) that it is running."""
    _mark(marker)
    return swallow_loop(limit)


def block_marked(marker=None, secs=90.0):
    """One long blocking call (an asynchronous exception is only seen when it returns): the job of a 'busy' worker."""
    _mark(marker)
    time.sleep(secs)
    return 'slept'
