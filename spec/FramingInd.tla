----------------------------- MODULE FramingInd -----------------------------
(* Unbounded safety of the receiver's position arithmetic (C10) for ONE message of ANY    *)
(* body length under ANY segmentation and ANY truncation offset, discharged by Apalache   *)
(* as an inductive invariant (Init => IndInv, IndInv /\ Next => IndInv').  The actions    *)
(* are those of Framing.tla (ReadExact = TRUE) specialised to a single message, with the  *)
(* body length `len` and the cut offset unbounded integers instead of small constants.    *)
EXTENDS Integers

VARIABLES
  \* @type: Int;
  len,
  \* @type: Int;
  cut,
  \* @type: Str;
  endk,
  \* @type: Int;
  pos,
  \* @type: Str;
  rpc,
  \* @type: Int;
  got,
  \* @type: Int;
  need,
  \* @type: Int;
  calls

Total == 4 + len
Min(a, b) == IF a < b THEN a ELSE b

Init == /\ len \in Nat /\ cut \in Nat /\ cut <= Total
        /\ endk \in (IF cut = Total THEN {"none"} ELSE {"fin", "rst"})
        /\ pos = 0 /\ rpc = "hdr" /\ got = 0 /\ need = 0 /\ calls = 0

\* recv(n) hands over k bytes, 1 <= k <= min(n, cut - pos); at the end of the stream 0 (FIN) or RST
HdrData == /\ rpc = "hdr" /\ pos < cut
           /\ \E k \in 1..4 :
                /\ k <= Min(4 - got, cut - pos)
                /\ pos' = pos + k /\ calls' = calls + 1
                /\ IF got + k = 4
                   THEN IF len = 0 THEN rpc' = "done" /\ got' = 0 /\ need' = 0
                        ELSE rpc' = "body" /\ need' = len /\ got' = 4
                   ELSE got' = got + k /\ UNCHANGED <<rpc, need>>
           /\ UNCHANGED <<len, cut, endk>>
BodyData == /\ rpc = "body" /\ pos < cut
            /\ \E k \in Int :
                 /\ k >= 1 /\ k <= Min(need, cut - pos)
                 /\ pos' = pos + k /\ calls' = calls + 1
                 /\ IF k = need THEN rpc' = "done" /\ need' = 0 /\ got' = 0
                    ELSE need' = need - k /\ UNCHANGED <<rpc, got>>
            /\ UNCHANGED <<len, cut, endk>>
EndOfStream == /\ rpc \in {"hdr", "body"} /\ pos = cut /\ endk \in {"fin", "rst"}
               /\ rpc' = "CCE" /\ calls' = calls + 1
               /\ UNCHANGED <<len, cut, endk, pos, got, need>>
Next == HdrData \/ BodyData \/ EndOfStream

\* ---- the inductive invariant ----
IndInv ==
  /\ len >= 0 /\ cut >= 0 /\ cut <= Total /\ pos >= 0 /\ pos <= cut /\ calls >= 0
  /\ endk \in {"none", "fin", "rst"} /\ (endk = "none" <=> cut = Total)
  /\ rpc \in {"hdr", "body", "done", "CCE"}
  /\ (rpc = "hdr"  => got >= 0 /\ got < 4 /\ pos = got)
  /\ (rpc = "body" => got = 4 /\ need >= 1 /\ need <= len /\ pos = 4 + (len - need))
  /\ (rpc = "done" => pos = Total /\ cut = Total)               \* Roundtrip: delivered only the complete message
  /\ (rpc = "CCE"  => cut < Total /\ pos = cut)                  \* Detects: raised only for a truncated stream
  /\ (rpc \in {"hdr", "body"} => calls <= pos)                   \* Prompt: every call so far consumed >= 1 byte ...
  /\ calls <= pos + 1                                            \* ... and only the very last one may consume none
IndInit == /\ len \in Int /\ cut \in Int /\ pos \in Int /\ got \in Int /\ need \in Int /\ calls \in Int
           /\ endk \in {"none", "fin", "rst"} /\ rpc \in {"hdr", "body", "done", "CCE"}
           /\ IndInv
\* consequences used by C10 (checked as plain invariants from Init as well)
NoSpuriousError == rpc = "CCE" => cut < Total
NoPartialDelivery == rpc = "done" => pos = Total
=============================================================================
