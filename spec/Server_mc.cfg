SPECIFICATION Spec
CONSTANTS
  NF = 2
  Fixes <- Fix_all
  PlanSet <- Plans_all
  LateAfter = FALSE
  StepSend = FALSE
  LeakPop = FALSE
  CloseOnNone = FALSE
  CutIsNone = FALSE
INVARIANT TypeOK
INVARIANT Inv_ServerAlive
INVARIANT Inv_Others
INVARIANT Inv_Serves
INVARIANT Inv_HealthyNotAborted
CHECK_DEADLOCK FALSE
