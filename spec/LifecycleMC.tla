---------------------------- MODULE LifecycleMC ----------------------------
EXTENDS Lifecycle, Json, IOUtils
Valid(k, pe, b, st) == /\ (k = "thread" => b # "frozen")
                       /\ (b = "linger" => (k # "thread" /\ (pe = "F" \/ k = "process")))
                       /\ (b = "slowres" => (k = "remote" /\ pe = "T"))
                       /\ (b = "unreb" => pe = "F")
                       /\ (b = "idle" => pe = "T")
                       /\ (st # "run" => b = "coop")
AllCases == {[id |-> "free", kind |-> k, pers |-> pe, beh |-> b, start |-> st, ops |-> <<>>] :
               k \in {"thread", "process", "remote"}, pe \in {"T", "F"},
               b \in {"coop", "swallow", "sleep", "frozen", "idle", "linger", "slowres", "unreb"}, st \in {"run", "dead", "notrun"}}
FreeCases == {cs \in AllCases : Valid(cs.kind, cs.pers, cs.beh, cs.start)}
FreeProcess == {cs \in FreeCases : cs.kind = "process"}
FreeRemote  == {cs \in FreeCases : cs.kind = "remote"}
FreeThread  == {cs \in FreeCases : cs.kind = "thread"}
\* planned cases for replay: [{"id": "c0", "kind": .., "pers": "F", "beh": .., "start": .., "ops": [..]}, ...]
PlanSeq == JsonDeserialize(IOEnv.CASE_FILE)
PlanCases == {PlanSeq[i] : i \in 1..Len(PlanSeq)}
FixAll  == {"poll", "kill", "noself"}
FixNone == {}
FixNoPoll == {"kill", "noself"}
FixNoKill == {"poll", "noself"}
FixNoSelf == {"poll", "kill"}
=============================================================================
