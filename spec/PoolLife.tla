------------------------------ MODULE PoolLife ------------------------------
(* Histories of pool API calls (pool.py): add_worker (ok / constructor fails / duplicate  *)
(* id), attach, run, restart_workers, external kill, a worker stuck in an uncooperative   *)
(* target, exception in the with-body, close, terminate.                                  *)
(*   _workers is a dict keyed by worker id: `reg` is a set of <<key, wid>> pairs.         *)
(*   add_worker's except branch pops *the id* of the failed worker (pool.py:113-117): on  *)
(*   a duplicate id that is the entry of the PREVIOUSLY registered worker.                *)
(*   add_worker / attach do not look at _pool_closed; _close returns at once on a closed  *)
(*   pool.  run re-initialises pending / depleted / ppw / retries but NOT _closed          *)
(*   (`closedIds`); restart_workers re-keys every worker under its new id.                *)
(*   _close: one thread per registered worker: close -> wait(timeout) -> terminate(       *)
(*   timeout, force) (CleanupWorker steps, any order), outcome per worker from the C04    *)
(*   model: idle worker ends; stuck process/remote worker is killed unless force=False;   *)
(*   a stuck thread worker cannot be stopped.                                             *)
(* run is abstracted to its pre/post on the bookkeeping (Pool.tla has the loop itself).   *)
(* Fix: "dupguard"    - the except branch only pops the entry if it is the failed worker  *)
(*      "closedguard" - add_worker / attach raise on a closed pool                        *)
(* What-if switches (must be rejected): ReuseKeys (restart keeps the id), NoReinit (run   *)
(* does not reset retries), NoRekey (restart_workers leaves a worker under its old id),   *)
(* EarlyFlag (_close sets _pool_closed before the clean-up instead of at its very end).   *)
(* StickyGuard (a BaseException raised inside run leaves _map_guard set: the code resets   *)
(* it in a finally clause), EarlyUnreg (restart_workers drops a worker's registry entry    *)
(* before restarting it instead of after).                                                 *)
(* ClosedOnlyWait (_close only waits for - never terminates - a worker whose end a run has  *)
(* already recorded), StaleOverwrite (the count of in-flight answers of abandoned runs is   *)
(* overwritten instead of accumulated).                                                     *)
(* plan.retry = "F": Pool(retry=False) - the input of a worker that dies is not handed to   *)
(* another one: a poison input kills ONE worker and the run goes on with the others.        *)
(* NoDeadSkip: first_enqueue no longer skips the workers whose death an earlier run has      *)
(* recorded; with retry off every later run silently loses one input per such worker.        *)
(* "runpd": a poison run (one worker able to take work) abandoned by an exception the     *)
(* worker_callback raises at the 'died' event.  LateClosed (must be rejected): the pool      *)
(* records the death in _closed only AFTER the callback - an exception there makes it forget *)
(* the death; with retry off the next run loses the input it hands to that worker.           *)
(* PDFree: explore runpd in Free mode too (off in the path dumps that are replayed).         *)
(* plan.ctimeout = "none": Pool(close_timeout=None) - clean-up waits as long as it takes   *)
(* (no history with a stuck or lingering worker is generated for it: its close would not    *)
(* return).  NoneTimeoutRejected: the constructor refuses close_timeout=None.               *)
(* "runl": a run whose poison input makes the target leave a non-daemon thread behind and   *)
(* then fail: the worker reports its end (its id goes to _closed) while its PROCESS lingers *)
(* (modelled as stuck /\ key \in closedIds: it needs terminate to go away).  "runabort":    *)
(* run() abandoned by an exception from the worker_callback at the first 'enqueued' event:  *)
(* one input is in flight, its answer arrives later; `ans` = <<answers of abandoned runs     *)
(* still to come, what the pool's _stale bookkeeping says>> for the first worker.           *)
(* "runint": run() left through a BaseException raised while it executes (KeyboardInterrupt *)
(* from the worker_callback); the with-block is then left: only close / terminate / exc    *)
(* follow.  "restartg": restart_workers(timeout, force=False) - a worker stuck in an        *)
(* uncooperative target cannot be stopped, RuntimeError('Could not stop a worker!').        *)
(* "closeint" / "termint": a close / terminate (with-exit) that is cut short by an         *)
(* exception raised in the closing thread while it joins the clean-up threads              *)
(* (KeyboardInterrupt, a signal handler raising): the bare except raises SystemExit in     *)
(* the clean-up threads still running and re-raises; _pool_closed is NOT set (it is set    *)
(* at the very end of _close), so a later close()/terminate() does the clean-up again.     *)
EXTENDS Naturals, Sequences, FiniteSets, TLC, PoolLifeProps

CONSTANTS Fix, MaxOps, MaxW, Kinds, Plans, Free, ReuseKeys, NoReinit, NoRekey, EarlyFlag, StickyGuard, EarlyUnreg, ClosedOnlyWait, StaleOverwrite, NoneTimeoutRejected, NoDeadSkip, LateClosed, PDFree, Hist

VARIABLES plan,       \* scenario: [id, force ("none" | "false"), ops]; ops is followed when Free = FALSE
          ws,         \* workers ever created: sequence of [kind, os, stuck, key, owned]
          reg,        \* pool._workers: set of <<key, wid>>
          closedIds,  \* pool._closed (ids of workers that died during a run; never reset)
          retries,    \* inputs left in pool._retries: set of run numbers they belong to
          poolClosed, nextKey, nrun,
          restarted,  \* wids restarted since the previous run
          pc, todo, graceful,   \* _close in progress: workers still to clean up
          ans,        \* <<old answers still in the first worker's pipe, pool._stale for it>>
          nops, steps, h
vars == <<plan, ans, ws, reg, closedIds, retries, poolClosed, nextKey, nrun, restarted, pc, todo, graceful, nops, steps, h>>

force == plan.force
NoStuckAllowed == plan.ctimeout = "none"        \* wait(None) on a stuck worker never returns
Go(name) == Free \/ (Len(h) < Len(plan.ops) /\ plan.ops[Len(h) + 1] = name)
W == 1..Len(ws)
Keys == {kw[1] : kw \in reg}
RegW == {kw[2] : kw \in reg}
IsProcX(wsx, w) == wsx[w].kind # "thread"
IsProc(w) == IsProcX(ws, w)
Alive(w) == ws[w].os = "alive"
AliveOwnedOf(wsx) == Cardinality({w \in 1..Len(wsx) : wsx[w].owned /\ IsProcX(wsx, w) /\ wsx[w].os = "alive"})
LiveUnregOf(wsx, regx) == Cardinality({w \in 1..Len(wsx) : IsProcX(wsx, w) /\ wsx[w].os = "alive" /\ w \notin {kw[2] : kw \in regx}})
AliveOwned == AliveOwnedOf(ws)

Init == /\ plan \in Plans /\ ans = <<0, 0>> /\ ws = <<>> /\ reg = {} /\ closedIds = {} /\ retries = {} /\ poolClosed = FALSE
        /\ nextKey = 1 /\ nrun = 0 /\ restarted = {} /\ pc = "idle" /\ todo = {} /\ graceful = TRUE
        /\ nops = 0 /\ steps = <<>> /\ h = <<>>

\* the observables of a completed operation; wsx, regx = workers and registry AFTER the operation
Obs(op, outcome, closing, extra, dgw, rnw, wsx, regx) ==
   [op |-> op, outcome |-> outcome, closing |-> closing, alive_owned |-> AliveOwnedOf(wsx),
    live_unreg |-> IF LiveUnregOf(wsx, regx) > LiveUnregOf(ws, reg) THEN LiveUnregOf(wsx, regx) - LiveUnregOf(ws, reg) ELSE 0,   \* caused by THIS call
    extra |-> extra, dead_got_work |-> dgw, restarted_no_work |-> rnw, spoiled |-> 0, missing |-> 0, fresh_dead |-> 0]
Done(name, o) ==
   /\ nops' = nops + 1
   /\ steps' = IF Hist THEN Append(steps, o) ELSE <<o>>
   /\ h' = IF Hist THEN Append(h, name) ELSE h
Simple(name, op, outcome, wsx, regx) == Done(name, Obs(op, outcome, "F", 0, 0, 0, wsx, regx))
Budget == IF Free THEN nops < MaxOps ELSE Len(h) < Len(plan.ops)
Idle == pc = "idle" /\ Budget
\* pc = "idleInt": at rest after a run that was left through a BaseException (guard reset, as the code does);
\* pc = "idleGuard": the same with _map_guard left set (StickyGuard).  Only closing calls follow.
RestPcs == {"idle", "idleInt", "idleGuard"}
NewW(kind, key, owned) == [kind |-> kind, os |-> "alive", stuck |-> FALSE, key |-> key, regkey |-> key, owned |-> owned, told |-> FALSE]

AddLike(name, op, kind) ==
  /\ Idle /\ Go(name) /\ Len(ws) < MaxW
  /\ IF poolClosed /\ "closedguard" \in Fix
     THEN UNCHANGED <<ws, reg, nextKey>> /\ Simple(name, op, "raised", ws, reg)
     ELSE LET wsx == Append(ws, NewW(kind, nextKey, TRUE))
              regx == reg \cup {<<nextKey, Len(ws) + 1>>} IN
          /\ ws' = wsx /\ reg' = regx /\ nextKey' = nextKey + 1
          /\ Simple(name, op, "ok", wsx, regx)
  /\ UNCHANGED <<plan, ans, closedIds, retries, poolClosed, nrun, restarted, pc, todo, graceful>>
AddOk(kind) == AddLike("add:" \o kind, "add", kind)
Attach(kind) == AddLike("attach:" \o kind, "attach", kind)
AddFail ==                                  \* the constructor raises: nothing exists, nothing is registered
  /\ Idle /\ Go("addfail")
  /\ Simple("addfail", "addfail", "raised", ws, reg)
  /\ UNCHANGED <<plan, ans, ws, reg, closedIds, retries, poolClosed, nextKey, nrun, restarted, pc, todo, graceful>>
AddDup(o) ==                                \* the new worker's id collides with registered worker o
  /\ Idle /\ Go("dup:" \o ToString(o)) /\ Len(ws) < MaxW /\ o \in RegW
  /\ LET wsx == Append(ws, [NewW(ws[o].kind, ws[o].key, FALSE) EXCEPT !.os = "dead"])      \* never created (closed pool) or worker.terminate() in the except branch
         regx == IF "dupguard" \in Fix \/ (poolClosed /\ "closedguard" \in Fix) THEN reg
                 ELSE {kw \in reg : kw[1] # ws[o].key}                                     \* pops *the id*: the original's entry
     IN ws' = wsx /\ reg' = regx /\ Simple("dup:" \o ToString(o), "dup", "raised", wsx, regx)
  /\ UNCHANGED <<plan, ans, closedIds, retries, poolClosed, nextKey, nrun, restarted, pc, todo, graceful>>

\* workers that run() would wait for forever: the harness never calls run then
Blocking == ~poolClosed /\ \E w \in RegW : Alive(w) /\ ws[w].stuck /\ ws[w].key \notin closedIds    \* (a closed pool refuses run at once)
Usable(w) == w \in RegW /\ ws[w].key \notin closedIds          \* run() looks at worker.id, the registry key only matters for results
Run(name) ==                                \* name: "run" | "runp" (poison: the worker dies) | "runl" (poison: the worker's process lingers)
  /\ Idle /\ ~Blocking /\ Go(name) /\ (name = "runl" => ~NoStuckAllowed)
  /\ IF poolClosed
     THEN /\ Done(name, Obs(name, "raised", "F", 0, 0, 0, ws, reg))
          /\ UNCHANGED <<ws, closedIds, retries, nrun, restarted, ans>>
     ELSE IF {w \in W : Usable(w)} = {}
     THEN /\ Done(name, Obs(name, "ok", "F", 0, 0, Cardinality({w \in restarted : w \in RegW /\ Alive(w)}), ws, reg))
          /\ UNCHANGED <<ws, closedIds, retries, nrun, restarted, ans>>     \* "no workers": returns None before touching the bookkeeping
     ELSE LET poison == name # "run"
              noretry == plan.retry = "F"
              got    == {w \in W : Usable(w) /\ Alive(w)}          \* workers that are handed inputs
              deadw  == {w \in W : Usable(w) /\ ~Alive(w)}         \* found dead at the first enqueue
              stale  == IF NoReinit THEN retries ELSE {}            \* run re-initialises _retries (pool.py:242)
              rnw    == Cardinality({w \in restarted : w \in RegW /\ Alive(w) /\ w \notin got})
              pz     == poison \/ stale # {}                       \* a stale poison input is retried first and kills like a fresh one
              misfiled == \E w \in got : ws[w].regkey # ws[w].key      \* results arrive under an id the registry does not know: assert fails
              old    == IF got # {} /\ ans[1] > ans[2] THEN ans[1] - ans[2] ELSE 0   \* old answers the pool does not know about are taken for new ones
              forgot == {w \in deadw : ws[w].told}                 \* its 'died' was reported by an earlier run, yet _closed does not have it (LateClosed)
              lost   == (IF NoDeadSkip /\ noretry /\ name = "run" /\ got # {}       \* an input offered to a worker recorded dead is dropped
                         THEN Cardinality({w \in RegW : ws[w].key \in closedIds}) ELSE 0)
                        + (IF noretry /\ name = "run" /\ got # {} THEN Cardinality(forgot) ELSE 0)
          IN \E hit \in SUBSET got :            \* the workers that take the poison: all of them in turn with retry, exactly one without
             /\ hit = (IF ~pz THEN {} ELSE IF noretry /\ got # {} THEN hit ELSE got)
             /\ (pz /\ noretry /\ got # {}) => Cardinality(hit) = 1
             /\ LET wsx == [w \in W |-> IF w \notin hit THEN ws[w]
                                       ELSE IF name = "runl" /\ ws[w].kind # "thread" THEN [ws[w] EXCEPT !.stuck = TRUE]   \* reported its end, process lingers
                                       ELSE [ws[w] EXCEPT !.os = "dead"]]
                    allgone == hit = got
                IN /\ nrun' = nrun + 1
                   /\ closedIds' = closedIds \cup {ws[w].key : w \in deadw} \cup {ws[w].key : w \in hit}
                   /\ ws' = wsx
                   /\ retries' = IF pz /\ got # {} /\ ~noretry THEN stale \cup {nrun + 1} ELSE (IF got = {} THEN stale ELSE {})
                   /\ restarted' = {}
                   /\ ans' = IF got = {} THEN ans ELSE IF pz THEN <<0, 0>> ELSE <<old, 0>>     \* as many of its own answers stay behind
                   /\ Done(name, [Obs(name, IF (pz /\ allgone) \/ got = {} \/ misfiled THEN "raised" ELSE "ok", "F", Cardinality(stale) + old, 0, rnw, wsx, reg)
                                   EXCEPT !.spoiled = IF misfiled /\ ~pz THEN 1 ELSE 0, !.missing = lost, !.fresh_dead = Cardinality(deadw \ forgot)])
  /\ UNCHANGED <<plan, reg, poolClosed, nextKey, pc, todo, graceful>>

RunAbort ==                                 \* run() abandoned by an exception raised by the worker_callback at the first 'enqueued' event
  /\ Idle /\ ~Blocking /\ Go("runabort")
  /\ IF poolClosed \/ {w \in W : Usable(w) /\ Alive(w)} = {}
     THEN /\ Done("runabort", Obs("runabort", IF poolClosed \/ {w \in W : Usable(w)} # {} THEN "raised" ELSE "ok", "F", 0, 0, 0, ws, reg))
          /\ closedIds' = IF poolClosed THEN closedIds ELSE closedIds \cup {ws[w].key : w \in {x \in W : Usable(x)}}
          /\ UNCHANGED <<nrun, restarted, ans>>
     ELSE /\ nrun' = nrun + 1 /\ restarted' = {}
          /\ closedIds' = closedIds           \* abandoned at the very first enqueue: the other workers are not even looked at
          /\ ans' = <<ans[1] + 1, IF StaleOverwrite THEN 1 ELSE ans[2] + 1>>     \* pool.py: `self._stale[wid] = self._stale.get(wid, 0) + len(workload)`
          /\ Done("runabort", Obs("runabort", "raised", "F", 0, 0, 0, ws, reg))
  /\ UNCHANGED <<plan, ws, reg, retries, poolClosed, nextKey, pc, todo, graceful>>

RunPD ==                                    \* "runpd": a poison run in a pool with exactly ONE worker that can take work, abandoned by an exception
  /\ Idle /\ ~Blocking /\ Go("runpd")        \* the worker_callback raises at that worker's 'died' event (pool.py handle_death: _closed.add BEFORE the callback)
  /\ (Free => PDFree) /\ ~poolClosed /\ ans = <<0, 0>>
  /\ LET got   == {w \in W : Usable(w) /\ Alive(w)}
         deadw == {w \in W : Usable(w) /\ ~Alive(w)} IN
     /\ Cardinality(got) = 1 /\ deadw = {}
     /\ LET v == CHOOSE w \in got : TRUE
            wsx == [ws EXCEPT ![v] = [@ EXCEPT !.os = "dead", !.told = TRUE]] IN
        /\ ws' = wsx /\ nrun' = nrun + 1 /\ restarted' = {}
        /\ closedIds' = IF LateClosed THEN closedIds ELSE closedIds \cup {ws[v].key}
        /\ retries' = IF plan.retry = "F" THEN {} ELSE {nrun + 1}
        /\ Done("runpd", Obs("runpd", "raised", "F", 0, 0, 0, wsx, reg))
  /\ UNCHANGED <<plan, ans, reg, poolClosed, nextKey, pc, todo, graceful>>

RunInt ==                                   \* run() is left through a BaseException raised by the worker_callback at the first result
  /\ Idle /\ ~Blocking /\ Go("runint")
  /\ IF poolClosed \/ {w \in W : Usable(w) /\ Alive(w)} = {}
     THEN /\ Done("runint", Obs("runint", IF poolClosed \/ {w \in W : Usable(w)} # {} THEN "raised" ELSE "ok", "F", 0, 0, 0, ws, reg))
          /\ closedIds' = IF poolClosed THEN closedIds ELSE closedIds \cup {ws[w].key : w \in {x \in W : Usable(x)}}
          /\ UNCHANGED <<nrun, restarted, pc>>            \* no result ever arrives: RuntimeError / returns None / PoolError as a plain run
     ELSE /\ nrun' = nrun + 1 /\ restarted' = {}
          /\ closedIds' = closedIds \cup {ws[w].key : w \in {x \in W : Usable(x) /\ ~Alive(x)}}
          /\ pc' = (IF StickyGuard THEN "idleGuard" ELSE "idleInt")       \* pool.py: `finally: self._map_guard = False`
          /\ Done("runint", Obs("runint", "raised", "F", 0, 0, 0, ws, reg))
  /\ UNCHANGED <<plan, ans, ws, reg, retries, poolClosed, nextKey, todo, graceful>>

\* restart_workers: every registered worker, in dict order; a stuck thread worker cannot be stopped -> RuntimeError, the rest is skipped
RECURSIVE RestartAll(_, _, _, _, _)
RestartAll(ks, wsx, regx, nk, gentle) ==
  IF ks = <<>> THEN [ws |-> wsx, reg |-> regx, nk |-> nk, ok |-> TRUE, done |-> {}]
  ELSE LET k == Head(ks)
           w == (CHOOSE kw \in regx : kw[1] = k)[2] IN
       IF wsx[w].stuck /\ wsx[w].os = "alive" /\ (gentle \/ wsx[w].kind = "thread")      \* 'Could not stop a worker!'
       THEN [ws |-> wsx, reg |-> IF EarlyUnreg THEN regx \ {<<k, w>>} ELSE regx,          \* the entry is only replaced AFTER a successful restart
             nk |-> nk, ok |-> FALSE, done |-> {}]
       ELSE LET newk == IF ReuseKeys THEN k ELSE nk
                r == RestartAll(Tail(ks), [wsx EXCEPT ![w] = [@ EXCEPT !.os = "alive", !.stuck = FALSE, !.told = FALSE, !.key = newk,
                                                                               !.regkey = IF NoRekey THEN @ ELSE newk]],
                                IF NoRekey THEN regx ELSE (regx \ {<<k, w>>}) \cup {<<newk, w>>}, nk + 1, gentle)
            IN [r EXCEPT !.done = @ \cup {w}]
RECURSIVE SortedKeys(_)
SortedKeys(S) == IF S = {} THEN <<>> ELSE LET m == CHOOSE x \in S : \A y \in S : x <= y IN <<m>> \o SortedKeys(S \ {m})
RestartOp(name, gentle) ==                  \* gentle: restart_workers(timeout, force=False)
  /\ Idle /\ Go(name)
  /\ IF poolClosed THEN UNCHANGED <<ws, reg, nextKey, restarted, ans>> /\ Simple(name, name, "raised", ws, reg)
     ELSE LET r == RestartAll(SortedKeys(Keys), ws, reg, nextKey, gentle) IN
          /\ ans' = <<0, 0>>                  \* restarted workers have new ids and new pipes
          /\ ws' = r.ws /\ reg' = r.reg /\ nextKey' = r.nk /\ restarted' = restarted \cup r.done
          /\ Simple(name, name, IF r.ok THEN "ok" ELSE "raised", r.ws, r.reg)
  /\ UNCHANGED <<plan, closedIds, retries, poolClosed, nrun, pc, todo, graceful>>
Restart == RestartOp("restart", FALSE) \/ RestartOp("restartg", TRUE)

Kill(w) ==                                  \* external SIGKILL (no-op on a dead worker)
  /\ Idle /\ Go("kill:" \o ToString(w)) /\ w \in W /\ IsProc(w) /\ ws[w].owned /\ (Free => Alive(w))
  /\ LET wsx == [ws EXCEPT ![w].os = "dead"] IN ws' = wsx /\ ans' = <<0, 0>> /\ Simple("kill:" \o ToString(w), "kill", "ok", wsx, reg)
  /\ UNCHANGED <<plan, reg, closedIds, retries, poolClosed, nextKey, nrun, restarted, pc, todo, graceful>>
Stick(w) ==                                 \* the user enqueues a never-ending input directly; a dead worker refuses it
  /\ Idle /\ Go("stick:" \o ToString(w)) /\ ~NoStuckAllowed /\ w \in RegW /\ (Free => (Alive(w) /\ ~ws[w].stuck /\ ~poolClosed))
  /\ LET wsx == IF Alive(w) THEN [ws EXCEPT ![w].stuck = TRUE] ELSE ws IN
     ws' = wsx /\ Simple("stick:" \o ToString(w), "stick", IF Alive(w) THEN "ok" ELSE "raised", wsx, reg)
  /\ UNCHANGED <<plan, ans, reg, closedIds, retries, poolClosed, nextKey, nrun, restarted, pc, todo, graceful>>

\* close / terminate / exception in the with-body
Closing == pc \in {"closing", "closingI"}
CloseBegin(name) ==
  /\ pc \in RestPcs /\ Budget /\ Go(name)
  /\ (pc # "idle" => name \in {"close", "terminate", "exc"})
  /\ IF poolClosed
     THEN /\ Done(name, Obs(name, "ok", "T", 0, 0, 0, ws, reg)) /\ UNCHANGED <<pc, todo, graceful, poolClosed>>   \* _close returns at once
     ELSE IF pc = "idleGuard"
     THEN /\ Done(name, Obs(name, "raised", "T", 0, 0, 0, ws, reg)) /\ UNCHANGED <<pc, todo, graceful, poolClosed>>  \* RuntimeError('... still processing workload')
     ELSE /\ pc' = (IF name \in {"closeint", "termint"} THEN "closingI" ELSE "closing")
          /\ todo' = RegW /\ graceful' = (name \in {"close", "closeint"})
          /\ poolClosed' = EarlyFlag                      \* the code sets the flag at the END of _close (CloseEnd)
          /\ h' = IF Hist THEN Append(h, name) ELSE h
          /\ UNCHANGED <<nops, steps>>
  /\ UNCHANGED <<plan, ans, ws, reg, closedIds, retries, nextKey, nrun, restarted>>
CleanupWorker(w) ==                         \* one thread per worker: close -> wait(timeout) -> terminate(timeout, force)
  /\ Closing /\ w \in todo
  /\ todo' = todo \ {w}
  /\ ws' = [ws EXCEPT ![w].os = IF ~Alive(w) THEN "dead"
                                ELSE IF ClosedOnlyWait /\ ws[w].key \in closedIds THEN (IF ws[w].stuck THEN "alive" ELSE "dead")   \* only waited for
                                ELSE IF ~ws[w].stuck THEN "dead"                              \* closes down on its own
                                ELSE IF ws[w].kind = "thread" THEN "alive"                      \* never forced
                                ELSE IF force = "false" THEN "alive"                            \* no terminate / terminate(force=False)
                                ELSE "dead"]                                                    \* terminate(timeout) with the kind's default force=True
  /\ UNCHANGED <<plan, ans, reg, closedIds, retries, poolClosed, nextKey, nrun, restarted, pc, graceful, nops, steps, h>>
CloseEnd ==
  /\ Closing /\ todo = {}
  /\ pc' = "idle" /\ poolClosed' = TRUE
  /\ nops' = nops + 1
  /\ LET o == Obs(IF graceful THEN "close" ELSE "terminate", "ok", "T", 0, 0, 0, ws, reg) IN
     steps' = IF Hist THEN Append(steps, o) ELSE <<o>>
  /\ UNCHANGED <<plan, ans, ws, reg, closedIds, retries, nextKey, nrun, restarted, todo, graceful, h>>
\* an exception reaches the closing thread while it joins the clean-up threads (pool.py:198-206): the clean-up threads
\* that are still running are aborted (SystemExit).  A worker whose thread had already close()d it ends on its own; one
\* whose thread was aborted earlier (it had not been scheduled yet on a loaded machine) or that is slow to exit is still
\* alive, idle, after the call; a stuck one has not been terminated yet.  The exception propagates; the flag is left as
\* it is, so the next close()/terminate() cleans up whatever is left.
Interrupt ==
  /\ pc = "closingI" /\ todo # {}
  /\ pc' = "idle" /\ todo' = {}
  /\ \E A \in SUBSET todo :                  \* A = clean-up threads that are aborted; the others run to completion on their own
       LET wsx == [w \in W |-> IF w \notin todo \/ ~Alive(w) THEN ws[w]
                              ELSE IF ~ws[w].stuck THEN (IF w \in A THEN ws[w]               \* aborted before it got to close() the worker
                                                         ELSE [ws[w] EXCEPT !.os = "dead"])   \* (or the worker is slow to exit): still alive; else close()d, ends
                              ELSE IF w \in A \/ ws[w].kind = "thread" \/ force = "false" THEN ws[w]
                              ELSE [ws[w] EXCEPT !.os = "dead"]] IN                           \* its thread went on to terminate()
       /\ ws' = wsx
       /\ nops' = nops + 1
       /\ LET o == Obs(IF graceful THEN "closeint" ELSE "termint", "raised", "T", 0, 0, 0, wsx, reg) IN
          steps' = IF Hist THEN Append(steps, o) ELSE <<o>>
  /\ UNCHANGED <<plan, ans, reg, closedIds, retries, poolClosed, nextKey, nrun, restarted, graceful, h>>

Next == \/ \E k \in Kinds : AddOk(k) \/ Attach(k)
        \/ AddFail \/ (\E o \in W : AddDup(o) \/ Kill(o) \/ Stick(o))
        \/ Run("run") \/ Run("runp") \/ Run("runl") \/ RunAbort \/ RunInt \/ RunPD \/ Restart
        \/ CloseBegin("close") \/ CloseBegin("terminate") \/ CloseBegin("exc")
        \/ CloseBegin("closeint") \/ CloseBegin("termint")
        \/ (\E w \in W : CleanupWorker(w)) \/ CloseEnd \/ Interrupt
Spec == Init /\ [][Next]_vars

R0 == [scn |-> [force |-> force, ctimeout |-> plan.ctimeout, retry |-> plan.retry],
       obs |-> [created |-> IF NoneTimeoutRejected /\ plan.ctimeout = "none" THEN "raised" ELSE "ok", steps |-> steps]]
AtRest == pc \in RestPcs
TypeOK == /\ \A kw \in reg : kw[2] \in W
          /\ \A k \in Keys : Cardinality({kw \in reg : kw[1] = k}) = 1
          /\ nops <= MaxOps
Inv_AllDead          == AtRest => C09_AllDead(R0)
Inv_RunIsolated      == AtRest => C09_RunIsolated(R0)
Inv_NoWorkToDead     == AtRest => C09_NoWorkToDead(R0)
Inv_RestartedGetWork == AtRest => C09_RestartedGetWork(R0)
Inv_NoLeak           == AtRest => C09_NoLeak(R0)
Inv_Configurable     == C09_Configurable(R0)

\* ---- witnesses (expected violated) ----
W_ClosedWithStuck == ~(poolClosed /\ \E w \in W : ws[w].stuck /\ IsProc(w) /\ w \in RegW)
W_RestartAfterDeath == ~(restarted # {} /\ closedIds # {} /\ nrun >= 1)
W_DupRaised == ~(steps # <<>> /\ steps[Len(steps)].op = "dup")
W_RunAfterPoison == ~(nrun >= 2 /\ closedIds # {} /\ steps # <<>> /\ steps[Len(steps)].op = "run" /\ steps[Len(steps)].outcome = "ok")
W_InterruptedStuck == ~(AtRest /\ ~poolClosed /\ steps # <<>> /\ steps[Len(steps)].outcome = "raised" /\ steps[Len(steps)].closing = "T"
                        /\ \E w \in RegW : Alive(w) /\ ws[w].stuck /\ IsProc(w))
W_LingerAfterFailure == ~(AtRest /\ ~poolClosed /\ \E w \in RegW : Alive(w) /\ ws[w].stuck /\ ws[w].key \in closedIds /\ IsProc(w))
W_TwoAbandonedRuns == ~(ans[1] >= 2)
W_RunInterrupted == ~(pc = "idleInt" /\ AliveOwned > 0)
W_GentleRestartFails == ~(AtRest /\ steps # <<>> /\ steps[Len(steps)].op = "restartg" /\ steps[Len(steps)].outcome = "raised" /\ ~poolClosed)
W_ForceFalseSurvivor == ~(poolClosed /\ force = "false" /\ AliveOwned > 0)

\* ---- complete histories for replay (Hist = TRUE) ----
RECURSIVE Join(_, _)
Join(s, k) == IF k > Len(s) THEN "" ELSE s[k] \o (IF k < Len(s) THEN " " ELSE "") \o Join(s, k + 1)
RECURSIVE Outs(_, _)
Outs(s, k) == IF k > Len(s) THEN "" ELSE s[k].outcome \o "/" \o ToString(s[k].alive_owned) \o "/" \o ToString(s[k].live_unreg)
                                         \o (IF k < Len(s) THEN " " ELSE "") \o Outs(s, k + 1)
PathDump == (AtRest /\ (IF Free THEN nops = MaxOps ELSE Len(h) = Len(plan.ops))) => PrintT(<<"PATH", plan.id, force, Join(h, 1), Outs(steps, 1)>>)
=============================================================================
