"""Module-defined (importable) values, exception classes and targets for C02."""
import datetime
import decimal


class Point:
    def __init__(self, x, y):
        self.x, self.y = x, y

    def __eq__(self, o):
        return type(o) is type(self) and (o.x, o.y) == (self.x, self.y)


class ModErr(Exception):
    pass


class Gauge:
    """holds a lock: picklable only through the reducer registered below with copyreg - at import time of THIS module, which a
    worker's child process imports after pyworkers itself"""
    def __init__(self, level):
        import threading
        self.level = level
        self.lock = threading.Lock()

    def __eq__(self, o):
        return type(o) is type(self) and o.level == self.level


def _reduce_gauge(g):
    return (Gauge, (g.level,))


import copyreg  # noqa: E402
copyreg.pickle(Gauge, _reduce_gauge)


class LateGauge(Gauge):
    """its reducer is registered only when a value is first made - in a worker's child that is long after pyworkers was imported"""


def _reduce_late(g):
    return (LateGauge, (g.level,))


class SlowRebuild:
    """a value that takes a while to rebuild wherever it is unpickled (the parent of a process / remote worker)"""
    def __init__(self, x):
        self.x = x

    def __eq__(self, o):
        return type(o) is type(self) and o.x == self.x

    def __getstate__(self):
        return {'x': self.x}

    def __setstate__(self, st):
        import time
        time.sleep(1.5)
        self.__dict__.update(st)


class SlowRebuildErr(Exception):
    def __init__(self, *a):
        super().__init__(*a)

    def __reduce__(self):
        return (_rebuild_slow_err, self.args)


def _rebuild_slow_err(*args):
    import time
    time.sleep(1.5)
    return SlowRebuildErr(*args)


SIZES = {'b0': 0, 'b1': 1, 'b4k': 4096, 'b64k-1': 65535, 'b64k': 65536, 'b64k+1': 65537, 'b256k': 262144, 'b1m': 1 << 20, 'b4m': 4 << 20}


def make_value(key):
    if key == 'copyreg_late':
        copyreg.pickle(LateGauge, _reduce_late)
        return LateGauge(9)
    if key in SIZES:
        n = SIZES[key]
        return bytes((i * 31 + 7) % 251 for i in range(min(n, 4096))) * (n // 4096) + bytes(n % 4096) if n else b''
    return {
        'none': None, 'zero': 0, 'false': False, 'empty_str': '', 'empty_list': [], 'empty_dict': {}, 'float': 0.0,
        'int': 12345678901234567890, 'str': 'héllo', 'tuple': (1, (2, 3), 'x'),
        'nested': {'a': [1, 2, {'b': (None, False)}], 'c': {1, 2}, 'd': b'\x00\xff'},
        'point': Point(1, [2, 3]), 'points': [Point(0, 0), Point(1, 1)], 'slowreb': SlowRebuild(5), 'copyreg': Gauge(3), 'copyreg_nested': {'g': [Gauge(1), Gauge(2)]},
        'datetime': datetime.datetime(2020, 1, 2, 3, 4, 5), 'decimal': decimal.Decimal('1.50'),
    }[key]


def mod_value(key):
    return make_value(key)


def mod_raise(key):
    if key == 'slowreb_err':
        raise SlowRebuildErr('slow', 7)
    if key == 'value_err':
        raise ValueError('a', 1)
    if key == 'key_err':
        raise KeyError('k')
    if key == 'mod_err':
        raise ModErr(1, 'b')
    if key == 'noargs':
        raise RuntimeError()
    if key == 'os_err':
        raise OSError(2, 'nope')
    raise ZeroDivisionError('x')


def mod_echo(*args, **kwargs):
    return (args, kwargs)


def mod_slow(x, delay):
    """a call that takes a while (longer than any connect/handshake timeout a worker could leave behind)"""
    import time
    time.sleep(delay)
    return ('slow', x * x)


def mod_slow_raise(x, delay):
    import time
    time.sleep(delay)
    raise ModErr(x, 'too late')
