SPECIFICATION Spec
CONSTANTS
  ReadExact = TRUE
  Hist = FALSE
  ChunkAll = TRUE
  LensSet <- Lens_small
INVARIANT TypeOK
INVARIANT Inv_Roundtrip
INVARIANT Inv_NoPartial
INVARIANT Inv_Detects
INVARIANT Inv_Prompt
INVARIANT Inv_Position
PROPERTY Live_Prompt
CHECK_DEADLOCK FALSE
