"""Server side of the remote protocol: C11 (the server survives every client failure),
C18 (remote contexts), C12 (stopping the server).

spec/Server.tla (+ ServerCtx.tla, ServerStop.tla) are model-checked by TLC; the fault
placements / request histories TLC enumerates are replayed against a REAL server process
by scripted raw-socket clients and real RemoteWorker / RemoteContext calls
(vf/drivers/_server_replay.py); every real execution is projected to a (scn, obs) record,
judged by TLC with the operators of spec/ServerProps.tla (ServerJudge.tla) and compared
with the model's outcome for the same scenario (conformance -> DRIFT)."""
import collections
import json
import os
import random
import threading

from .. import tlc
from ..common import MachineryError, Timer, seed, sub_scratch
from ..report import Evidence, Violation, finish
from . import _server_lib as L
from . import _server_replay as R

CHECKS = {
    'C11': dict(
        engine='Server',
        technique='TLA+ spec Server.tla (single-threaded accept loop with its exception policy, server side of the worker handshake S3a-S3g, context branches, clients vanishing with FIN/RST at every protocol step) model-checked with TLC; TLC-enumerated fault placements replayed against a real server process by raw-socket clients that replay a tapped well-formed byte stream cut at the offsets of each step; TLC judges every real execution (ServerJudge) and the real outcome is compared with the model outcome',
        text='Exhaustive TLC model checking of the accept loop and handshake (fixed algorithm: invariants ServerAlive/OthersUndisturbed/Serves over all interleavings of 2 faulty clients x 62 fault plans and a late healthy client, liveness Serves for 1; the algorithm as written is rejected, as is each proposed fix left out). Every single-fault plan TLC enumerates is executed on a real server (first/middle/last byte offset of each step, FIN and RST, with/without the control connect; every byte offset in the thorough tier), plus sampled multi-fault sequences; after each fault: OS liveness of the server, a fresh RemoteWorker round trip (5 s hang bound) and the outcome of two healthy workers that were running.',
        note='Trusted: TLC, the kernel TCP stack on loopback (FIN = close(), RST = SO_LINGER 0), the tap (recorded bytes re-targeted to the replay server port, self-validated). The model treats client writes as atomic up to the next read (TCP buffering) and payloads as opaque. Sequences of >= 2 faults are sampled, not exhaustive.',
        design_ref='6/C11'),
}

MODEL_REQ = {'pworker': 'worker'}


# ----------------------------------------------------------------------------- TLC helpers

def _cfg(nf, fixes, plans='Plans_all', late='FALSE', inv=(), prop=None):
    s = 'SPECIFICATION Spec\nCONSTANTS\n  NF = %d\n  Fixes <- %s\n  PlanSet <- %s\n  LateAfter = %s\n' % (nf, fixes, plans, late)
    for i in inv:
        s += 'INVARIANT %s\n' % i
    if prop:
        s += 'PROPERTY %s\n' % prop
    return s + 'CHECK_DEADLOCK FALSE\n'


def _allowed(r):
    """PATH lines -> {faults-json: set((srv_alive, fresh, others_err))}"""
    out = collections.defaultdict(set)
    for f, a, g, e in r.tags.get('PATH', []):
        key = json.dumps([[x['req'], x['step'], x['mode']] for x in json.loads(f)])
        out[key].add((a, g, e))
    return out


def _key(faults):
    return json.dumps([[MODEL_REQ.get(f['req'], f['req']), f['step'], f['mode']] for f in faults])


class Jobs:
    """Run several TLC jobs concurrently (threads; each job is its own JVM)."""

    def __init__(self):
        self.res, self.err, self.th = {}, {}, []

    def start(self, name, fn):
        def go():
            try:
                self.res[name] = fn()
            except BaseException as e:  # noqa
                self.err[name] = e
        t = threading.Thread(target=go, daemon=True)
        t.start()
        self.th.append(t)

    def wait(self):
        for t in self.th:
            t.join()
        self.th = []
        for n, e in self.err.items():
            raise e if isinstance(e, MachineryError) else MachineryError('%s: %r' % (n, e))
        return self.res


# ----------------------------------------------------------------------------- recording

def record(logdir):
    """Tap one well-formed client per request type (twice, against two servers: the difference
    locates the port bytes, so that the stream can be re-targeted to any replay server)."""
    L.setup_env()
    a, b = R.Srv(logdir, 'rec'), R.Srv(logdir, 'rec')
    try:
        res = L.bounded(lambda: (L.record_streams(a.addr), L.record_streams(b.addr)), 90)
        if res[0] != 'ok':
            raise MachineryError('recording the well-formed client streams failed: %r' % (res,))
        ra, rb = res[1]
        pos = L.retarget_positions(ra, a.addr[1], rb, b.addr[1])
    finally:
        a.destroy()
        b.destroy()
    return ({t: [f.hex() for f in ra[t]] for t in ra}, {t: [list(p) for p in pos[t]] for t in pos},
            {t: [len(f) for f in ra[t]] for t in ra})


# ----------------------------------------------------------------------------- C11

def _offsets(step, hdr, pay, every):
    """Byte offsets (of header+payload) that realise a model step."""
    tot = hdr + pay
    if step == 'connect':
        return [0]
    if step == 'hdr':
        return [hdr]
    if step == 'pay':
        return [tot]
    lo, hi = (1, hdr - 1) if step == 'midhdr' else (hdr + 1, tot - 1)
    if every:
        return list(range(lo, hi + 1, every))
    return sorted(set([lo, (lo + hi) // 2, hi]))


def c11_singles(plans, lens, tier):
    """Expand TLC's single-fault plans to concrete replay faults."""
    out = []
    for req, step, mode in plans:
        types = ['worker', 'pworker'] if req == 'worker' else [req]
        for t in types:
            hdr, pay = lens[t]
            if step in ('connect', 'midhdr', 'hdr', 'midpay', 'pay'):
                every = None
                if tier == 'thorough':
                    every = 1 if t in ('worker', 'ctxcreate', 'ctxdelete') else 8
                for cut in _offsets(step, hdr, pay, every):
                    out.append([dict(req=t, step=step, cut=cut, mode=mode, split=False)])
            else:
                out.append([dict(req=t, step=step, cut=hdr + pay, mode=mode, split=False)])
                if step == 'ctrl' or (step == 'run' and tier == 'thorough'):
                    out.append([dict(req=t, step=step, cut=hdr + pay, mode=mode, split=True)])
    return out


def c11_concrete(plan, lens, rng):
    req, step, mode = plan
    t = rng.choice(['worker', 'pworker']) if req == 'worker' else req
    hdr, pay = lens[t]
    if step in ('connect', 'midhdr', 'hdr', 'midpay', 'pay'):
        cut = rng.choice(_offsets(step, hdr, pay, None))
    else:
        cut = hdr + pay
    return dict(req=t, step=step, cut=cut, mode=mode, split=False)


def c11_signature(rec, clauses):
    f = rec['faults_full'][-1] if rec['faults_full'] else {'req': '-', 'step': '-', 'mode': '-'}
    o = rec['obs']
    if o['srv_alive'] != 'T':
        effect = 'crashed'
    elif any(x['got'] != x['want'] for x in o['fresh']):
        effect = 'blocked'
    else:
        effect = 'disturbed'
    return 'C11|req=%s|step=%s%s|mode=%s|effect=%s' % (f['req'], f['step'], '+split' if f.get('split') else '', f['mode'], effect)


def c11_summary(rec):
    o = rec['obs']
    return (o['srv_alive'], 'v:1' if all(x['got'] == x['want'] for x in o['fresh']) else 'hang',
            'F' if all(x['got'] == x['want'] and x['err'] == 'F' for x in o['others']) else 'T')


def run_c11(tier, replay):
    T = Timer()
    ev = Evidence('C11', tier)
    rng = random.Random(seed())
    logdir = sub_scratch('c11-logs')
    violations, drift = [], []

    if replay is not None:
        streams, pos, lens = record(logdir)
        rec = R.scenario_c11(dict(id='replay', faults=replay['replay']['faults'], streams=streams, pos=pos, logdir=logdir))
        fails, _ = tlc.judge('ServerJudge', [rec], name='replay')
        print('replayed:', json.dumps({'scn': rec['scn'], 'obs': rec['obs'], 'notes': rec['notes']}))
        for _, clause in fails:
            print('VIOLATION property=C11 replay=(given) clause=%s signature=%s' % (clause, c11_signature(rec, [clause])))
        return 1 if fails else 0

    # 0. the design, concurrently with everything else: exhaustive model checking of the proposed
    #    algorithm, liveness, witnesses, rejection of the algorithm as written / of each fix left out
    invs = ('TypeOK', 'Inv_ServerAlive', 'Inv_Others', 'Inv_Serves', 'Inv_HealthyNotAborted')
    wit = ['W_NoBlockedAccept', 'W_NoDeadBackend', 'W_NoCtrlSendFail', 'W_NoPeerNameFail', 'W_NoOrphanHelper',
           'W_NoUnknownCtx', 'W_NoHelperFault', 'W_LateNeverDone']
    fixsets = ('Fix_none', 'Fix_no_hdr', 'Fix_no_ctx', 'Fix_no_peer', 'Fix_no_accept', 'Fix_no_info')
    design = Jobs()
    design.start('mc2', lambda: tlc.run('ServerMC', 'Server_mc.cfg', workers=8, name='mc2', timeout=1500))
    design.start('live', lambda: tlc.run('ServerMC', 'Server_live.cfg', workers=2, name='live', timeout=900))
    if tier == 'thorough':
        design.start('mc3', lambda: tlc.run('ServerMC', cfg_text=_cfg(3, 'Fix_all', 'Plans_core', inv=invs), workers=8, name='mc3', timeout=3000))
    design.start('wits', lambda: {w: tlc.run('ServerMC', cfg_text=_cfg(2, 'Fix_all', inv=(w,)), workers=1, name=w,
                                             must_complete=False, timeout=600) for w in wit})
    design.start('rejs', lambda: {fx: tlc.run('ServerMC', cfg_text=_cfg(1, fx, inv=invs, prop='Live_Serves'), workers=1,
                                              name='rej' + fx, must_complete=False, timeout=600) for fx in fixsets})

    # 1. TLC enumerates the fault placements (path dumps = relation Allowed: scenario -> outcomes),
    #    for the algorithm as proposed (all fixes) and as written (no fix); the tap records the streams
    jobs = Jobs()
    jobs.start('rec', lambda: record(logdir))
    for nf in (1, 2):
        for fx in ('Fix_all', 'Fix_none'):
            jobs.start('paths%d%s' % (nf, fx), lambda nf=nf, fx=fx: tlc.run(
                'ServerMC', cfg_text=_cfg(nf, fx, late='TRUE', inv=('PathDump',)), workers=6, name='paths%d%s' % (nf, fx), timeout=900))
    res = jobs.wait()
    streams, pos, lens = res['rec']
    allowed = {'Fix_all': {}, 'Fix_none': {}}
    for nf in (1, 2):
        for fx in ('Fix_all', 'Fix_none'):
            r = res['paths%d%s' % (nf, fx)]
            if r.error or not r.tags.get('PATH'):
                raise MachineryError('path dump NF=%d %s failed: %s\n%s' % (nf, fx, r.error, r.stdout[-1500:]))
            ev.add_tlc('path dump NF=%d %s (late client after the faults): scenario -> outcomes' % (nf, fx), r)
            allowed[fx].update(_allowed(r))
    plans1 = sorted(tuple(json.loads(k)[0]) for k in allowed['Fix_all'] if len(json.loads(k)) == 1)
    pairs = sorted(k for k in allowed['Fix_none'] if len(json.loads(k)) == 2)

    # 2. scenarios: every single-fault plan at its byte offsets; sampled sequences of 2-3 faults
    #    (half of them chosen among those the algorithm as written survives up to the last fault)
    scen = c11_singles(plans1, lens, tier)
    nseq = 16 if tier == 'quick' else 160
    harmless = [p for p in plans1 if allowed['Fix_none'][json.dumps([list(p)])] == {('T', 'v:1', 'F')}]
    for n in range(nseq):
        k = 2 if n % 2 == 0 else 3
        if n % 4 < 2 and harmless:
            seq = [rng.choice(harmless) for _ in range(k - 1)] + [rng.choice(plans1)]
        else:
            seq = [tuple(x) for x in json.loads(rng.choice(pairs))] + ([rng.choice(plans1)] if k == 3 else [])
        scen.append([c11_concrete(p, lens, rng) for p in seq])
    tasks = [dict(id='s%d' % i, faults=f, streams=streams, pos=pos, logdir=logdir) for i, f in enumerate(scen)]
    box = {}

    def replay_all():
        try:
            box['recs'] = R.pool_map('scenario_c11', tasks, logdir, nproc=12)
        except BaseException as e:  # noqa
            box['err'] = e
    rt = threading.Thread(target=replay_all, daemon=True)
    rt.start()

    # 3. collect the design runs
    dres = design.wait()
    r = dres['mc2']
    ev.add_tlc('exhaustive NF=2, all fault plans, late healthy client at any moment (proposed algorithm)', r)
    if r.error:
        raise MachineryError('Server.tla (all fixes) violates its own properties: %s\n%s' % (r.error, '\n'.join(r.trace[:80])))
    r = dres['live']
    ev.add_tlc('NF=1 with PROPERTY Live_Serves under weak fairness (proposed algorithm)', r)
    if r.error:
        raise MachineryError('Server.tla (all fixes) violates liveness: %s\n%s' % (r.error, '\n'.join(r.trace[:80])))
    if tier == 'thorough':
        r = dres['mc3']
        ev.add_tlc('exhaustive NF=3, core fault plans (proposed algorithm)', r)
        if r.error:
            raise MachineryError('Server.tla NF=3 violates its own properties: %s' % r.error)
    for w in wit:
        if dres['wits'][w].error != 'invariant:' + w:
            raise MachineryError('witness %s not reachable (vacuous model): %s' % (w, dres['wits'][w].error))
    ev.cov['witnesses'] = {w: 'reached' for w in wit}
    rejected, cex = {}, []
    for fx in fixsets:
        rp = dres['rejs'][fx]
        if not (rp.error or '').startswith(('invariant:', 'temporal')):
            raise MachineryError('the algorithm with %s is not rejected by the model checker (%s)' % (fx, rp.error))
        rejected[fx] = rp.error
        if fx == 'Fix_none':
            cex = [l for l in rp.trace if l.startswith(('State', '/\\ spc', '/\\ cpc', '/\\ dopen'))][:40]
    ev.cov['prefix_models_rejected'] = rejected

    rt.join()
    if 'err' in box:
        raise box['err'] if isinstance(box['err'], MachineryError) else MachineryError('replay failed: %r' % (box['err'],))
    recs = box['recs']

    # 4. TLC judges every real execution with the C11 operators
    jrecs = [{'id': x['id'], 'prop': 'C11', 'scn': x['scn'], 'obs': x['obs']} for x in recs]
    fails, rj = tlc.judge('ServerJudge', jrecs, name='judge11')
    ev.add_tlc('judge: C11 operators on %d real executions' % len(recs), rj, role='judge')
    byid = collections.defaultdict(list)
    for rid, clause in fails:
        byid[rid].append(clause)
    recmap = {x['id']: x for x in recs}
    for rid, clauses in byid.items():
        x = recmap[rid]
        sig = c11_signature(x, clauses)
        f = x['faults_full'][-1] if x['faults_full'] else {}
        what = ('%s violated: faulty client(s) %s; after the last one: server process alive=%s, fresh RemoteWorker round trip(s) %s, '
                'healthy workers %s%s' % (
                    ','.join(sorted(clauses)),
                    ' then '.join('%s@%s(%s,%s%s)' % (g['req'], g['step'], 'byte %d' % g['cut'], g['mode'], ',ctrl first' if g.get('split') else '') for g in x['faults_full']),
                    x['obs']['srv_alive'], [y['got'] for y in x['obs']['fresh']],
                    [(y['kind'], y['got'], 'err=' + y['err']) for y in x['obs']['others']],
                    ('; server log: ' + x['notes']['server_error']) if x['notes'].get('server_error') else ''))
        violations.append(Violation('C11', sig, what, {'kind': 'C11', 'faults': x['faults_full']}))

    # 5. conformance: the real outcome must be an outcome of the model for that scenario
    #    (of the proposed algorithm, or - where a known finding applies - of the algorithm as written)
    conf = collections.Counter()
    for x in recs:
        key = _key(x['faults_full'])
        s = c11_summary(x)
        if key not in allowed['Fix_all']:
            conf['not-enumerated'] += 1
            continue
        if s in allowed['Fix_all'][key]:
            conf['as-proposed'] += 1
        elif s in allowed['Fix_none'][key]:
            conf['as-written'] += 1
        else:
            conf['drift'] += 1
            if len(drift) < 4:
                drift.append('real server deviates from Server.tla: faults=%s real outcome (alive, fresh, others-err)=%s, model allows %s (proposed) / %s (as written)'
                             % (key, s, sorted(allowed['Fix_all'][key]), sorted(allowed['Fix_none'][key])))
    landed = set()
    for x in recs:
        for f, lg in zip(x['faults_full'], x['notes']['client_logs']):
            if 'connected' in lg and any(str(e).startswith('gone') for e in lg) and not any(str(e).startswith('client-error') for e in lg):
                landed.add((f['req'], f['step'], f['cut'], f['mode'], bool(f.get('split'))))
    ev.cov['traces_validated_against_impl'] = conf['as-proposed'] + conf['as-written']
    ev.cov['evaluations'] = len(recs)
    ev.cov['distinct_nontrivial'] = len(landed)
    ev.cov['rule'] = ('each case = sequence of faulty clients (request type, protocol step, byte offset, FIN/RST, ctrl-first) on its own real server; '
                      'single faults: every plan of TLC\'s NF=1 path dump (%d plans) at first/middle/last offset of the step%s; sequences: %d sampled from the NF=2 dump (+1); '
                      'non-trivial = the scripted client reached its step and vanished there as planned (distinct (type, step, offset, mode) counted)'
                      % (len(plans1), ' (every offset for worker/ctxcreate/ctxdelete, every 8th otherwise)' if tier == 'thorough' else '', nseq))
    ev.cov['exhaustive'] = False
    ev.cov['conformance_counts'] = dict(conf)
    ev.cov['single_fault_plans'] = len(plans1)
    ev.cov['scenarios'] = len(recs)
    for x in recs[:2] + recs[len(recs) // 2:len(recs) // 2 + 1] + recs[-2:]:
        ev.sample({'scn': x['faults_full'], 'obs': x['obs']})
    if rejected.get('Fix_none'):
        ev.sample({'tlc_counterexample_of_the_algorithm_as_written': cex})
    ev.assumptions += ['client writes are atomic up to the client\'s next read (TCP buffers them); payloads are opaque to the model',
                       'FIN = close() of a socket without unread data, RST = SO_LINGER 0 + close(); loopback only',
                       'time-outs in the proposed algorithm only fire for clients that are gone (a well-behaved client connects the control channel in time)',
                       'sequences of >= 2 faulty clients are sampled (seeded), not exhaustive; model NF<=2 exhaustive (NF=3 core plans in the thorough tier)']
    return finish(ev, violations, T.s(), drift)


def run(prop, tier, replay=None):
    if prop == 'C11':
        return run_c11(tier, replay)
    raise MachineryError('unknown property for this driver: ' + prop)
