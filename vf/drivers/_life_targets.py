"""Targets for children spawned by the lifecycle / clientstart / poollife drivers.
Must be importable by `spawn` children and by the remote server's backends
(PYTHONPATH contains REPO and /verif)."""
import os
import time


def coop_loop():
    """cooperative: a Python-level loop; an asynchronous exception surfaces within ~1 ms"""
    while True:
        time.sleep(0.001)


def swallow_loop():
    """the suite's malicious_loop: catches Exception (hence WorkerTerminatedError) and continues"""
    while True:
        try:
            while True:
                time.sleep(0.001)
        except Exception:
            pass


def sleep_block():
    """blocked in one long system call (async exceptions surface only when bytecode resumes)"""
    time.sleep(600)


def frozen_c(flag_path=None):
    """interpreter lock held inside C: no Python thread of this process (incl. the control
    thread) gets to run until the builtin returns (hours)"""
    if flag_path:
        with open(flag_path, 'w') as f:
            f.write(str(os.getpid()))
    return sum(range(10 ** 13))


def quick_ret():
    return 7


def exit_early():
    os._exit(3)


# ---- pool targets -------------------------------------------------------------------------
def sq(x):
    return x * x


def sq_or_stick(x):
    """x >= 1000: never returns and swallows every Exception (stuck, uncooperative)"""
    if x >= 1000:
        while True:
            try:
                while True:
                    time.sleep(0.001)
            except Exception:
                pass
    return x * x


def sq_or_sleep(x):
    if x >= 1000:
        time.sleep(600)
    return x * x
