#!/bin/bash
# usage: tools/confirm_seeded.sh <src-dir with patch.diff demo.py notes.md> <seed-id> <property> "<pytest files>" "<checks to run>"
# Confirms in a scratch copy of /repo: demo passes on clean code, fails with the patch, existing tests pass with the patch;
# then runs the named checks against the patched copy; writes /verif/seeded/<seed-id>/{patch.diff,demo.py,notes.md,meta.json}.
set -u
src=$(readlink -f "$1"); id=$2; prop=$3; tests=$4; checks=$5
d=$(mktemp -d /tmp/seed-XXXXXX); cp -r /repo/. "$d"/
cd "$d"
if [ -n "${BASE_COMMIT:-}" ]; then git checkout -q "$BASE_COMMIT" -- pyworkers || { echo "cannot check out $BASE_COMMIT"; rm -rf "$d"; exit 3; }; fi
mkdir -p "$d/seeded/x"; cp "$src/demo.py" "$d/seeded/x/demo.py"     # demos may locate the library relative to their own path
PYTHONPATH="$d" timeout 180 /venv/bin/python "$d/seeded/x/demo.py" > "$d/demo_clean.log" 2>&1; rc_clean=$?
git apply "$src/patch.diff" || { echo "PATCH DOES NOT APPLY"; rm -rf "$d"; exit 3; }
PYTHONPATH="$d" timeout 180 /venv/bin/python "$d/seeded/x/demo.py" > "$d/demo_mut.log" 2>&1; rc_mut=$?
timeout 2400 /venv/bin/python -m pytest -q -p no:cacheprovider --timeout=300 $tests -k "not test_fun and not test_loop and not test_fn" > "$d/tests.log" 2>&1; rc_tests=$?
tests_summary=$(tail -1 "$d/tests.log")
demo_msg=$(grep -v '^\s*$' "$d/demo_mut.log" | tail -3 | cut -c1-300 | tr '\n' ' ')
caught=""
cd /verif
for c in $checks; do
  out=$(VERIF_REPO="$d" timeout 1800 ./check "$c" 2>&1); rc=$?
  v=$(echo "$out" | grep -c '^VIOLATION')
  first=$(echo "$out" | grep -A1 '^VIOLATION' | grep 'what:' | head -1 | cut -c1-260)
  caught="$caught$c:rc=$rc:violations=$v;"
  echo "  check $c rc=$rc violations=$v :: $first"
done
git -C /verif checkout -- evidence 2>/dev/null
mkdir -p /verif/seeded/$id
if [ "$src" != "/verif/seeded/$id" ]; then
  cp "$src/patch.diff" "$src/demo.py" /verif/seeded/$id/
  [ -f "$src/notes.md" ] && cp "$src/notes.md" /verif/seeded/$id/
fi
python3 - "$id" "$prop" "$rc_clean" "$rc_mut" "$rc_tests" "$tests_summary" "$tests" "$caught" "$demo_msg" <<'PY'
import json,sys
id_,prop,rc_clean,rc_mut,rc_tests,ts,tests,caught,msg=sys.argv[1:10]
notes=''
try: notes=open('/verif/seeded/%s/notes.md'%id_).read()
except OSError: pass
meta={'id':id_,'breaks_property':prop,
 'needs_to_manifest':'see notes.md (written by the sub-agent that produced the change)',
 'confirmed':{'demo_on_clean_code_exit':int(rc_clean),'demo_with_change_exit':int(rc_mut),'demo_with_change_output':msg,
              'existing_tests_with_change':{'files':tests,'exit':int(rc_tests),'summary':ts}},
 'checks_run_against_change':caught,
 'base_commit': __import__('os').environ.get('BASE_COMMIT') or 'HEAD of /repo at the time',
 'how':'tools/confirm_seeded.sh: scratch copy of /repo HEAD under /tmp (removed afterwards); demo run before/after git apply; pytest on the listed files with the change; ./check with VERIF_REPO=<copy>'}
json.dump(meta,open('/verif/seeded/%s/meta.json'%id_,'w'),indent=1)
print('  demo clean rc=%s, with change rc=%s; tests rc=%s (%s)'%(rc_clean,rc_mut,rc_tests,ts))
PY
rm -rf "$d"
