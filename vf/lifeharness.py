"""Executes one life-cycle case on a REAL worker with the in-child tracer and projects what
the public API showed into a (scn, obs) record of tagged strings (TLC's Json reader has no
null and TLC cannot compare values of different types)."""
import json
import os
import queue
import signal
import socket
import sys
import tempfile
import threading
import time

from .common import REPO, VERIF, ensure_repo_on_path

AGENT_DIR = os.path.join(VERIF, 'agent')
TARGETS_FILE = os.path.join(VERIF, 'vf', 'targets.py')

ARM_TEXT = {
    'thread': ['self._startup_sync.set()'],
    'process': ['self._comms.child_end.put((self._pid, self._tid, self._ident))'],
    'remote': ['unused_sync = self._comms.child_end.recv()'],
}


_ARM_LINES = {}


def arm_lines(kind):
    """Line(s) of the child's run loop after which the parent's constructor can have returned: the statement that
    matches ARM_TEXT in the CURRENT source; if the text is gone (refactoring), fall back to the structure: thread = the
    last statement before the try block, process = the first statement of the try body, remote = the third statement of
    the inner try body (runtime info sent and acknowledged)."""
    import ast
    if kind in _ARM_LINES:
        return _ARM_LINES[kind]
    fn = {'thread': 'thread.py', 'process': 'process.py', 'remote': 'remote.py'}[kind]
    name = '_run_backend' if kind == 'remote' else '_run'
    src = open(os.path.join(REPO, 'pyworkers', fn)).read()
    tree = ast.parse(src)
    f = [n for n in ast.walk(tree) if isinstance(n, ast.FunctionDef) and n.name == name][0]
    lines = src.splitlines()
    out = [i for i in range(f.lineno, f.end_lineno + 1) if any(t in lines[i - 1] for t in ARM_TEXT[kind])]
    if not out:
        outer = [n for n in f.body if isinstance(n, ast.Try)][0]
        if kind == 'thread':
            prev = [n for n in f.body if n.end_lineno < outer.lineno]
            out = [prev[-1].end_lineno] if prev else [outer.lineno]
        elif kind == 'process':
            out = [outer.body[0].end_lineno]
        else:
            inner = [n for n in outer.body if isinstance(n, ast.Try)][0]
            out = [inner.body[min(2, len(inner.body) - 1)].end_lineno]
    _ARM_LINES[kind] = out
    return out


def _env_for_children(plan_path):
    os.environ['PYWORKERS_VERIF'] = '1'
    os.environ['PYWORKERS_VERIF_PLAN'] = plan_path
    pp = [AGENT_DIR, VERIF, REPO] + [p for p in os.environ.get('PYTHONPATH', '').split(':') if p and p not in (AGENT_DIR, VERIF, REPO)]
    os.environ['PYTHONPATH'] = ':'.join(pp)


class Harness:
    """One per harness process: scratch dir, report socket, plan file, lazily started server."""

    def __init__(self):
        ensure_repo_on_path()
        for p in (VERIF, AGENT_DIR):
            if p not in sys.path:
                sys.path.insert(0, p)
        import logging
        logging.disable(logging.CRITICAL)
        threading.excepthook = lambda a: None
        self.dir = tempfile.mkdtemp(prefix='vf-life-')
        self.plan_path = os.path.join(self.dir, 'plan.json')
        self.sock_path = os.path.join(self.dir, 'report.sock')
        self.reports = queue.Queue()
        self.lsock = socket.socket(socket.AF_UNIX, socket.SOCK_STREAM)
        self.lsock.bind(self.sock_path)
        self.lsock.listen(16)
        threading.Thread(target=self._accept, daemon=True).start()
        self._write_plan({})
        _env_for_children(self.plan_path)
        self.server = None
        self.case_no = 0

    def _accept(self):
        while True:
            try:
                c, _ = self.lsock.accept()
            except OSError:
                return
            try:
                data = b''
                while not data.endswith(b'\n'):
                    ch = c.recv(65536)
                    if not ch:
                        break
                    data += ch
                if data:
                    self.reports.put(json.loads(data.decode()))
            except (OSError, ValueError):
                pass
            finally:
                c.close()

    def _write_plan(self, plan):
        with open(self.plan_path + '.tmp', 'w') as f:
            json.dump(plan, f)
        os.replace(self.plan_path + '.tmp', self.plan_path)

    def get_server(self):
        from pyworkers.remote_server import spawn_server
        if self.server is not None and self.server.is_alive():
            return self.server
        self.server = spawn_server(('127.0.0.1', 0))
        return self.server

    def close(self):
        import shutil
        if self.server is not None:
            try:
                self.server.terminate(timeout=2)
            except Exception:
                pass
            _kill_pid(getattr(self.server, 'pid', None))
        try:
            self.lsock.close()
        except OSError:
            pass
        shutil.rmtree(self.dir, ignore_errors=True)

    # ------------------------------------------------------------------------------------------
    def run_case(self, case, bound=40):
        box = {}
        t_start = time.time()

        def body():
            try:
                box['rec'] = self._run_case(case)
                box['rec']['wall'] = round(time.time() - t_start, 2)
            except BaseException:  # noqa
                import traceback
                box['exc'] = traceback.format_exc()
        t = threading.Thread(target=body, daemon=True)
        t.start()
        t.join(bound)
        if 'exc' in box:
            raise RuntimeError('case %s failed in the harness:\n%s' % (case, box['exc']))
        if 'rec' in box:
            return box['rec']
        rec = {'scn': _scn(case, None), 'obs': _hung_obs()}
        _kill_pid(box.get('pid'))
        return rec

    def _restart_chain(self, case):
        """persistent stateful worker: work, end (wait or target exception), restart() WITHOUT touching result/error/has_error
        in between, and look at the state the new incarnation starts from; repeated case['restart_chain'] times"""
        from vf import targets as T
        self.case_no += 1
        kind = case['kind']
        cdir = os.path.join(self.dir, 'c%d' % self.case_no)
        os.makedirs(cdir)
        mpath = os.path.join(cdir, 'marker')
        self._write_plan({})
        kw = {'init_state': 0}
        if kind == 'remote':
            kw['host'] = self.get_server().addr
        target = T.p_item_raise3 if case.get('ending') == 'exc' else T.p_item
        w = T.CLASSES[(kind, True)](target, args=[mpath], **kw)
        seen = []
        try:
            for inc in range(case.get('restart_chain', 2)):
                items = 3 if case.get('ending') == 'exc' else 2
                for k in range(1, items + 1):
                    try:
                        w.enqueue(k=k)
                    except Exception:  # noqa
                        break
                if not w.wait(timeout=10):
                    seen.append('notdead')
                    break
                us = [m for m in _marks(mpath) if m.startswith('us_post')]
                expected = int(us[-1].split()[1]) if us else 0
                w.restart(timeout=5)
                v = w.user_state
                seen.append('last' if v == expected else 'init' if v == 0 else 'other')
        except BaseException as e:  # noqa
            seen.append('raised')
        finally:
            pid = w.pid if kind != 'thread' else None
            try:
                w.terminate(timeout=1, force=(kind != 'thread'))
            except BaseException:  # noqa
                pass
            if pid and pid != os.getpid():
                _kill_pid(pid)
        obs = _hung_obs()
        obs.update(dead_observed='F', term_ret='na', restart_from=('last' if seen and all(x == 'last' for x in seen) else (seen and [x for x in seen if x != 'last'][0]) or 'na'))
        rec = {'scn': _scn(dict(case, persistent=True), None), 'obs': obs, 'events_total': 0, 'events': [], 'where': None}
        rec['restart_seen'] = seen
        return rec

    def _run_case(self, case):
        if case.get('restart_chain'):
            return self._restart_chain(case)
        from pyworkers.worker import WorkerTerminatedError
        from vf import targets as T
        import vfagent
        self.case_no += 1
        kind, pers = case['kind'], bool(case.get('persistent'))
        cdir = os.path.join(self.dir, 'c%d' % self.case_no)
        os.makedirs(cdir)
        mpath = os.path.join(cdir, 'marker')
        while not self.reports.empty():
            self.reports.get_nowait()
        cls = T.CLASSES[(kind, pers)] if case.get('stateful') else _plain(kind, pers)
        plan = {'cls': cls.__name__, 'n': case.get('n', 0), 'fault': case.get('fault', 'none'),
                'arm_text': ARM_TEXT[kind], 'arm_lines': arm_lines(kind), 'repo': REPO, 'target_files': [TARGETS_FILE],
                'out_dir': cdir, 'sock': self.sock_path, 'pause_bound': 15,
                'granularity': case.get('granularity', 'line')}
        if case.get('raise_delay'):
            plan['raise_delay'] = case['raise_delay']
        self._write_plan(plan)
        kw = {'init_state': case.get('init_state', 0)}
        if kind == 'remote':
            kw['host'] = self.get_server().addr
        if pers and case.get('consumer') == 'poolstyle':
            from pyworkers.utils import Pipe
            kw['results_pipe'] = Pipe()          # what Pool.add_worker passes: a real pipe that the pool multiplexes
        if pers:
            target = (T.p_item_raise3 if case.get('ending') == 'exc' else T.p_item_big if case.get('ending') == 'big'
                      else T.p_item_stubborn if case.get('ending') == 'stubborn' else T.p_item)
            args = (mpath,)
        else:
            target = T.TARGETS[case['ending']]
            args = (mpath, 96 if case.get('us_inplace') else 99 if case.get('us_none') else 98 if case.get('us_zero') else 97 if case.get('us_slow') else case.get('loop', 2))
        st = None
        ffault = fault_is_frontend = case.get('fault') == 'fpause'
        if ffault:
            # the fault is placed in the PARENT-side forwarding thread: pause it at line event n, SIGKILL the backend, resume it
            self._write_plan({})                 # no tracer in the backend
            plan = dict(plan, anchor='_run_frontend', fault='pause', arm_text=['self._startup_sync.set()'], arm_lines=[])
            st = vfagent.install(plan)
        if kind == 'thread':
            st = vfagent.install(plan)
        t0 = time.time()
        ctx = None
        try:
            if case.get('in_context') and kind == 'remote':
                # the worker is created within a remote context: target and arguments come from the context,
                # everything else (init_state included) from the worker itself
                from pyworkers.remote_context import RemoteContext
                ctx = RemoteContext('c16-%d-%d' % (os.getpid(), self.case_no), host=kw['host'], target=target, args=args)
                w = cls(None, context=ctx.context_id, **kw)
            else:
                w = cls(target, args=args, **kw)
        finally:
            if kind == 'thread' or ffault:
                sys.settrace(None)          # keep tracing new threads only (threading.settrace stays)
        obs = {'ctor_s': round(time.time() - t0, 3)}
        pid = w.pid if kind != 'thread' else None
        items = case.get('items', 0)
        enq_raised = 'None'
        if pers:
            for k in range(1, items + 1):
                try:
                    if k == 2 and case.get('slowarg'):
                        w.enqueue(k=k, arg=T.SlowArg())  # rebuilding this argument in the child runs Python code
                    elif k == 1:
                        w.enqueue(k=k, bump=1000)     # calls of differing shape: defaults must be pristine for every call
                    else:
                        w.enqueue(k=k)
                except Exception as e:  # noqa
                    enq_raised = 'raised:' + type(e).__name__
        consumer = None
        if pers and case.get('consumer') == 'blocked':
            consumer = _Consumer(w, items)       # a consumer already blocked in next_result() when the fault happens
        if pers and case.get('consumer') == 'poolstyle':
            consumer = _PoolStyleConsumer(w, items)
        fault = case.get('fault', 'none')
        report = None
        term_ret = 'na'
        us_alive = 'na'
        closed_early = False
        if fault == 'fpause':
            try:
                # (a close() request left unread by a backend that is then killed turns the FIN into a RST: when the point
                # lies inside a long transfer the harness waits for it instead of closing early)
                report = self.reports.get(timeout=case.get('fpause_wait', 0.6))
            except queue.Empty:
                w.close()
                closed_early = True
                try:
                    report = self.reports.get(timeout=3)
                except queue.Empty:
                    report = None
            if report is not None:
                us_alive = _us(w, case)
                _kill_pid(pid)                  # the backend is gone while the frontend sits at that line
                time.sleep(0.1)
                report = dict(report, type='fpaused')
            if st is not None:
                st.go.set()
        if fault in ('pause', 'stop'):
            try:
                if pers:
                    # points before the child blocks waiting for input are reached at once; later ones only after close()
                    try:
                        report = self.reports.get(timeout=0.15 if kind == 'thread' else 0.6)
                    except queue.Empty:
                        w.close()
                        closed_early = True
                        report = self.reports.get(timeout=case.get('report_bound', 3))
                else:
                    report = self.reports.get(timeout=case.get('report_bound', 3))
            except queue.Empty:
                report = None
        if fault == 'bigkill' and pid:
            t1 = time.time()
            while 'ret' not in _marks(mpath) and time.time() - t1 < 8:
                time.sleep(0.02)
            time.sleep(0.4)                 # the child is now blocked writing a result larger than the pipe buffer
            wchan = ''
            try:
                with open('/proc/%d/wchan' % pid) as f:
                    wchan = f.read().strip()
            except OSError:
                pass
            report = {'file': 'process.py' if kind == 'process' else 'remote.py', 'func': 'blocked_in_send', 'line': 0, 'stack': [], 'wchan': wchan}
            _kill_pid(pid)
        if report is not None and report.get('type') == 'paused':
            us_alive = _us(w, case)
            try:
                if case.get('double'):
                    # a first request that does not wait, then a second one: the second exception lands wherever the child is by then
                    try:
                        w.terminate(timeout=0, force=False)
                    except BaseException as e:  # noqa
                        obs['first_term_raised'] = type(e).__name__
                    if st is not None:
                        st.go.set()
                    time.sleep(case.get('double_gap', 0.0))
                tkw = {'timeout': case.get('term_timeout', 3)}
                if case.get('remote_timeout') and kind == 'remote':
                    tkw['remote_timeout'] = case['remote_timeout']
                r = w.terminate(**tkw)
                term_ret = 'T' if r is True else 'F' if r is False else 'other'
            except BaseException as e:  # noqa
                term_ret = 'raised:' + type(e).__name__
            if st is not None:
                st.go.set()
        if term_ret == 'T' and isinstance(consumer, _PoolStyleConsumer):
            # terminate() has just reported the worker dead: a consumer of the raw results endpoint (the Pool) must get its
            # end-of-stream message or EOF without anybody calling wait()/is_alive()/next_result() on the worker
            consumer.settle(4)
        bystander = 'na'
        if fault == 'term_after_finish':
            # the target has finished on its own and nobody has looked at the worker since; other threads come and go
            t1 = time.time()
            while 'ret' not in _marks(mpath) and time.time() - t1 < 5:
                time.sleep(0.01)
            time.sleep(0.3)
            from pyworkers.thread import ThreadWorker
            others = [ThreadWorker(T.t_sleep, args=(None,)) for _ in range(3)]
            try:
                r = w.terminate(timeout=1)
                term_ret = 'T' if r is True else 'F' if r is False else 'other'
            except BaseException as e:  # noqa
                term_ret = 'raised:' + type(e).__name__
            time.sleep(0.2)
            bystander = 'ok' if all(o.is_alive() for o in others) else 'killed'
            for o in others:
                try:
                    o.terminate(timeout=2)
                except BaseException:  # noqa
                    pass
            report = {'file': 'none', 'func': 'after_finish', 'line': 0, 'stack': []}
        if fault == 'term_stubborn':
            # the worker is inside a target that swallows the request: the caller insists (force=True) after a short grace
            t1 = time.time()
            while 'item 2 start' not in _marks(mpath) and time.time() - t1 < 8:
                time.sleep(0.01)
            time.sleep(0.2)
            try:
                r = w.terminate(timeout=0.5, force=True)
                term_ret = 'T' if r is True else 'F' if r is False else 'other'
            except BaseException as e:  # noqa
                term_ret = 'raised:' + type(e).__name__
            report = {'file': 'targets.py', 'func': 'p_item_stubborn', 'line': 0, 'stack': [['persistent.py', 'do_work', 0], ['targets.py', 'p_item_stubborn', 0]]}
        if fault == 'term_idle':
            # a persistent worker that has answered everything and sits in its blocking receive; the caller is patient
            # (timeout=None): the request must still reach the child and end it
            t1 = time.time()
            while 'item %d ret' % items not in _marks(mpath) and time.time() - t1 < 8:
                time.sleep(0.01)
            time.sleep(0.5)
            box = {}

            def _term():
                try:
                    box['r'] = w.terminate(timeout=case.get('idle_timeout'))
                except BaseException as e:  # noqa
                    box['e'] = type(e).__name__
            th = threading.Thread(target=_term, daemon=True)
            t1 = time.time()
            th.start()
            th.join(10)
            obs['term_s'] = round(time.time() - t1, 2)
            if th.is_alive():
                term_ret = 'hung'
                _kill_pid(pid)
                th.join(5)
            elif 'e' in box:
                term_ret = 'raised:' + box['e']
            else:
                term_ret = 'T' if box['r'] is True else 'F' if box['r'] is False else 'other'
            report = {'file': 'persistent.py', 'func': 'idle_in_recv', 'line': 0, 'stack': [['persistent.py', 'do_work', 0]]}
        obs['bystander'] = bystander
        early_stream = None
        if pers and case.get('consumer') == 'nowait':
            # a consumer that only reads the stream: nobody has called wait()/is_alive()/terminate() on the worker yet
            early_stream = _drain_unobserved(w, items)
        linger = 'na'
        if case.get('ending') == 'linger':
            try:
                r1 = w.wait(timeout=1.0)
                a1 = w.is_alive()
                u1 = _us(w, case)
                linger = ('init' if u1 == 'init' else 'changed') if (r1 is False and a1 is True) else 'na'
            except BaseException as e:  # noqa
                linger = 'na'
        obs['linger'] = linger
        if case.get('linger_term') and linger != 'na':
            # the caller does not wait for the lingering child: it is force-terminated - after it has reported
            try:
                r = w.terminate(timeout=0, force=True)       # no patience at all: the forced branch runs
                term_ret = 'T' if r is True else 'F' if r is False else 'other'
            except BaseException as e:  # noqa
                term_ret = 'raised:' + type(e).__name__
        # let it end
        dead = False
        polled = case.get('observe') == 'poll'
        try:
            if pers and fault == 'none' and not closed_early:
                w.close()
            if case.get('observe') == 'alive':
                t1 = time.time()
                while time.time() - t1 < 12 and not dead:
                    dead = w.is_alive() is False
                    time.sleep(0.01)
            elif polled:
                # a caller polling with short waits and is_alive(): "dead" is whatever the API says first
                t1 = time.time()
                while time.time() - t1 < 12 and not dead:
                    if w.wait(timeout=0.05) is True or w.is_alive() is False:
                        dead = True
            else:
                dead = bool(w.wait(timeout=case.get('wait_timeout', 10)))
        except BaseException as e:  # noqa
            obs['wait_raised'] = type(e).__name__
        if st is not None:
            st.go.set()
        if not dead:
            try:
                dead = not w.is_alive()
            except BaseException:  # noqa
                pass
        obs['dead_observed'] = 'T' if dead else 'F'
        # the state the parent sees at the very moment the worker is reported dead (later reads may find it synchronised by then)
        early_us = _us_end(w, _marks(mpath), case) if (dead and case.get('stateful')) else None
        reads = []
        if dead:
            for i in range(3):
                if i < 2:
                    reads.append(_read(w, case, WorkerTerminatedError))
                else:
                    reads.append(_read_fresh(w, case, WorkerTerminatedError, reads[0]))
                if polled and i == 0:
                    time.sleep(2.5)
                try:
                    if i == 0:
                        w.wait(0)
                    elif i == 1 and kind != 'thread':
                        w.terminate(timeout=0)
                    elif i == 1:
                        w.terminate(timeout=0, force=False)
                except BaseException as e:  # noqa
                    reads.append({'alive': 'raised', 'has_error': 'raised', 'result': 'raised', 'result_n': 0, 'error': 'raised',
                                  'detail': 'repeated wait/terminate after death raised %s' % type(e).__name__})
        obs['reads'] = reads
        obs['term_ret'] = term_ret
        obs['us_alive'] = us_alive
        obs['enq_raised'] = enq_raised
        marks = _marks(mpath)
        obs['fin_done'] = 'T' if 'fin_done' in marks else 'F'
        obs['fin_enter'] = 'T' if 'fin_enter' in marks else 'F'
        obs['us_end'] = early_us if early_us not in (None, 'last') else _us_end(w, marks, case)
        obs['setter'] = _setter(w)
        obs['restart_from'] = 'na'
        if early_stream is not None:
            obs['stream'] = early_stream
        elif consumer is not None:
            obs['stream'] = consumer.finish(w)
        else:
            obs['stream'] = _stream(w, items) if pers else {'got': [], 'end': 'na', 'again': 'na'}
        if kind == 'thread' or ffault:
            vfagent.uninstall()
        ev = _events(cdir)
        if not dead:
            _kill_pid(pid)
            try:
                w.terminate(timeout=1, force=(kind != 'thread'))
            except BaseException:  # noqa
                pass
        if pid is not None:
            obs['os_alive'] = 'T' if _pid_alive(pid) else 'F'
        else:
            obs['os_alive'] = 'T' if (hasattr(w, '_child') and w._child.is_alive()) else 'F'
        if ctx is not None:
            try:
                ctx.close()
            except BaseException:  # noqa
                pass
        where = (ev or {}).get('fired') or report
        rec = {'scn': _scn(case, where, marks, ev), 'obs': obs}
        rec['events_total'] = (ev or {}).get('count', 0)
        rec['events'] = (ev or {}).get('events')
        rec['where'] = where
        return rec


def _plain(kind, pers):
    import importlib
    mod = importlib.import_module('pyworkers.' + ('persistent_' if pers else '') + kind)
    return getattr(mod, ('Persistent' if pers else '') + kind.capitalize() + 'Worker')


_REGIONS = {}


def target_region(func, line):
    """'pre' | 'try' | 'finally' | 'post' for a line of a target function of vf/targets.py (from its AST)"""
    import ast
    if not _REGIONS:
        tree = ast.parse(open(TARGETS_FILE).read())
        for node in tree.body:
            if isinstance(node, ast.FunctionDef):
                tr = [n for n in node.body if isinstance(n, ast.Try)]
                if tr:
                    t = tr[0]
                    _REGIONS[node.name] = (t.body[0].lineno, t.body[-1].end_lineno, t.finalbody[0].lineno, t.finalbody[-1].end_lineno)
    r = _REGIONS.get(func)
    if not r:
        return 'none'
    if line < r[0] - 1:
        return 'pre'
    if line <= r[1]:
        return 'try' if line >= r[0] else 'pre'
    if r[2] <= line <= r[3]:
        return 'finally'
    return 'post' if line > r[3] else 'try'


def _pid_alive(pid):
    try:
        with open('/proc/%d/stat' % pid) as f:
            st = f.read().rsplit(')', 1)[1].split()[0]
        return st not in ('Z', 'X')
    except (OSError, IndexError):
        return False


def _kill_pid(pid):
    """SIGKILL a child of THIS harness.  Process ids are recycled within minutes when several checks run side by side
    (pid_max is 32768): the target must carry this harness' plan file in its environment, or nothing is sent."""
    if not pid or pid == os.getpid():
        return
    mine = os.environ.get('PYWORKERS_VERIF_PLAN')
    try:
        with open('/proc/%d/environ' % pid, 'rb') as f:
            env = f.read().split(b'\0')
    except OSError:
        return
    if mine and ('PYWORKERS_VERIF_PLAN=' + mine).encode() not in env:
        return
    try:
        os.kill(pid, signal.SIGKILL)
    except OSError:
        pass


def _marks(mpath):
    try:
        with open(mpath) as f:
            return [l.strip() for l in f if l.strip()]
    except OSError:
        return []


def _events(cdir):
    best = None
    try:
        for fn in os.listdir(cdir):
            if fn.startswith('events-') and fn.endswith('.json'):
                with open(os.path.join(cdir, fn)) as f:
                    e = json.load(f)
                if best is None or e.get('count', 0) > best.get('count', 0):
                    best = e
    except (OSError, ValueError):
        pass
    return best


def _tag_value(v):
    """-> (tag, n): tag in None|own|count|other"""
    if v is None:
        return 'None', 0
    if isinstance(v, tuple) and len(v) == 2 and v[0] == 'own':
        return 'own', 0
    if type(v).__name__ in ('BadState', 'Slow') and type(v).__module__ == 'vf.targets':
        return 'own', 0
    if isinstance(v, (bytes, bytearray)) and len(v) == 3 * 1024 * 1024 and v[:1] == b'x':
        return 'own', 0
    if isinstance(v, int) and not isinstance(v, bool) and 0 <= v < 10 ** 6:
        return 'count', v
    return 'other', 0


def _tag_error(e, WTE):
    from vf import targets as T
    if e is None:
        return 'None'
    if isinstance(e, WTE):
        return 'WTE'
    if type(e) is ValueError and e.args[:1] == ('own',):
        return 'own'
    if isinstance(e, (T.OwnBase, T.NeedArgs, T.QuotaError)):
        return 'own'
    return 'other'


def _read(w, case, WTE, alive_first=False):
    """has_error / result / error / is_alive of a worker already observed dead.  The accessors are read BEFORE is_alive()
    unless alive_first: wait() returning True is an observation of death on its own."""
    out = {'result_n': 0, 'detail': ''}

    def alive():
        try:
            a = w.is_alive()
            out['alive'] = 'T' if a is True else 'F' if a is False else 'other'
        except BaseException as e:  # noqa
            out['alive'] = 'raised'
            out['detail'] += ' is_alive raised %s;' % type(e).__name__
    if alive_first:
        alive()
    try:
        h = w.has_error
        out['has_error'] = 'T' if h is True else 'F' if h is False else 'None' if h is None else 'other'
    except BaseException as e:  # noqa
        out['has_error'] = 'raised'
        out['detail'] += ' has_error raised %s;' % type(e).__name__
    try:
        out['result'], out['result_n'] = _tag_value(w.result)
    except BaseException as e:  # noqa
        out['result'] = 'raised'
        out['detail'] += ' result raised %s;' % type(e).__name__
    try:
        err = w.error
        out['error'] = _tag_error(err, WTE)
        if out['error'] == 'other':
            out['detail'] += ' error is %s;' % type(err).__name__
    except BaseException as e:  # noqa
        out['error'] = 'raised'
        out['detail'] += ' error raised %s;' % type(e).__name__
    if not alive_first:
        alive()
    return out


def _read_fresh(w, case, WTE, first):
    """the same reads made by threads started AFTER the worker died (thread idents are recycled: a new thread may be
    handed the ident of the dead worker's thread); returns the first read that differs from `first`, else the last one"""
    import threading
    got = None
    for _ in range(6):
        box = []

        def body():
            r = _read(w, case, WTE, alive_first=True)
            try:
                w.wait(0)
            except BaseException as e:  # noqa
                r['alive'] = 'raised'
                r['detail'] += ' wait(0) from a new thread raised %s;' % type(e).__name__
            box.append(r)
        t = threading.Thread(target=body)
        t.start()
        t.join(20)
        if not box:
            return {'alive': 'raised', 'has_error': 'raised', 'result': 'raised', 'result_n': 0, 'error': 'raised', 'detail': 'reads from a new thread hung'}
        got = box[0]
        if any(got[k] != first[k] for k in ('alive', 'has_error', 'result', 'result_n', 'error')):
            return got
    return got


def _us(w, case):
    try:
        v = w.user_state
    except BaseException as e:  # noqa
        return 'raised:' + type(e).__name__
    init = case.get('init_state', 0)
    return 'init' if v == init else 'v:%s' % (v,)


def _us_end(w, marks, case):
    """parent's user_state after the end vs what the child assigned: 'last' | 'init' | 'stale' | 'other'.
    The child logs us_pre k before and us_post k after assigning k; if the last entry is us_pre k
    both k-1 and k count as 'last' (the fault may have landed between assignment and log)."""
    try:
        v = w.user_state
    except BaseException as e:  # noqa
        return 'raised:' + type(e).__name__
    if type(v).__name__ == 'SlowState':
        v = v.k
    init = case.get('init_state', 0)
    if case.get('us_inplace'):           # a list updated in place k times stands for the integer k (init_state [] for 0)
        if not isinstance(v, list) or v != list(range(1, len(v) + 1)):
            return 'other'
        v, init = len(v), len(init)
    us = [m for m in marks if m.startswith('us_')]
    if not us:
        return 'last' if v == init else 'other'
    kind_, k = us[-1].split()
    if k == 'none':
        prev = [int(m.split()[1]) for m in us[:-1] if m.split()[1] != 'none']
        allowed = {None} if kind_ == 'us_post' else {None, prev[-1] if prev else init}
        return 'last' if v in allowed else ('init' if v == init else 'stale')
    k = int(k)
    allowed = {k} if kind_ == 'us_post' else {k, k - 1 if k - 1 > init else init}
    if v in allowed:
        return 'last'
    if v == init:
        return 'init'
    return 'stale' if isinstance(v, int) and v < k else 'other'


def _setter(w):
    try:
        w.user_state = 12345
    except RuntimeError:
        return 'rejected'
    except BaseException as e:  # noqa
        return 'raised:' + type(e).__name__
    return 'accepted'


def _item_of(v, pos):
    """which item a delivered value is the result of (0 = none / foreign / not in its place)"""
    from vf import targets as T
    if isinstance(v, tuple) and len(v) == 3 and v[0] == 'own' and v[2] == b'p' * (32 * 1024 * 1024):
        v = v[:2]                               # the padded item of p_item_big, delivered intact
    if not (isinstance(v, tuple) and len(v) == 2 and v[0] == 'own' and isinstance(v[1], int)):
        return 0
    if v[1] == T.expected_value(pos):
        return pos
    for k in range(1, 12):
        if T.expected_value(k) == v[1]:
            return k
    return 0


class _Consumer:
    def __init__(self, w, items):
        self.got, self.end, self.items = [], None, items

        def drain():
            try:
                for v in w.results_iter():
                    self.got.append(_item_of(v, len(self.got) + 1))
                    if len(self.got) > items + 5:
                        break
                self.end = 'ended'
            except BaseException as e:  # noqa
                self.end = 'raised'
        self.t = threading.Thread(target=drain, daemon=True)
        self.t.start()

    def finish(self, w):
        self.t.join(5)
        if self.t.is_alive():
            return {'got': list(self.got), 'end': 'blocked', 'again': 'na'}
        again = 'na'
        try:
            w.next_result(block=False)
            again = 'value'
        except queue.Empty:
            again = 'Empty'
        except BaseException:  # noqa
            again = 'raised'
        return {'got': list(self.got), 'end': self.end, 'again': again}


class _PoolStyleConsumer:
    """multiplexes the raw results endpoint like Pool.run: connection.wait + recv until the end marker or EOF"""

    def __init__(self, w, items):
        import multiprocessing.connection as mpc
        self.got, self.end = [], None
        ep = w.results_endpoint

        def loop():
            t0 = time.time()
            while time.time() - t0 < 25:
                try:
                    if not mpc.wait([ep], 0.5):
                        continue
                    msg = ep.recv()
                except (EOFError, OSError):
                    self.end = 'ended'          # EOF
                    return
                if not msg[1]:
                    self.end = 'ended'          # end-of-results message
                    return
                self.got.append(_item_of(msg[2], len(self.got) + 1))
        self.t = threading.Thread(target=loop, daemon=True)
        self.t.start()

    def settle(self, timeout):
        self.t.join(timeout)
        self.settled = self.end or 'blocked'

    def finish(self, w):
        self.t.join(6)
        end = getattr(self, 'settled', None) or self.end or 'blocked'
        return {'got': list(self.got), 'end': end, 'again': 'Empty' if end == 'ended' else 'na'}


def _drain_unobserved(w, items):
    """results_iter() until it stops, then one more BLOCKING next_result(): both with hang bounds"""
    box = {'got': []}

    def drain():
        try:
            for v in w.results_iter():
                box['got'].append(_item_of(v, len(box['got']) + 1))
                if len(box['got']) > items + 5:
                    break
            box['end'] = 'ended'
        except BaseException:  # noqa
            box['end'] = 'raised'
    t = threading.Thread(target=drain, daemon=True)
    t.start()
    t.join(10)
    if t.is_alive():
        return {'got': list(box['got']), 'end': 'blocked', 'again': 'na'}
    res = {}

    def again():
        try:
            w.next_result()
            res['r'] = 'value'
        except queue.Empty:
            res['r'] = 'Empty'
        except BaseException:  # noqa
            res['r'] = 'raised'
    t2 = threading.Thread(target=again, daemon=True)
    t2.start()
    t2.join(4)
    return {'got': list(box['got']), 'end': box.get('end', 'ended'), 'again': res.get('r', 'blocked')}


def _stream(w, items):
    """drain the result stream after death with a hang bound: list of item numbers, then how it ended"""
    box = {}

    def drain():
        got = []
        try:
            for v in w.results_iter():
                got.append(_item_of(v, len(got) + 1))
                if len(got) > items + 5:
                    break
            box['end'] = 'ended'
        except BaseException as e:  # noqa
            box['end'] = 'raised'
        box['got'] = got
    t = threading.Thread(target=drain, daemon=True)
    t.start()
    t.join(5)
    if t.is_alive():
        return {'got': box.get('got', []), 'end': 'blocked', 'again': 'na'}
    again = 'na'
    try:
        w.next_result(block=False)
        again = 'value'
    except queue.Empty:
        again = 'Empty'
    except BaseException as e:  # noqa
        again = 'raised'
    return {'got': box['got'], 'end': box['end'], 'again': again}


def _hung_obs():
    return {'dead_observed': 'hung', 'reads': [], 'term_ret': 'hung', 'us_alive': 'na', 'enq_raised': 'None',
            'fin_done': 'F', 'fin_enter': 'F', 'us_end': 'na', 'setter': 'na', 'os_alive': 'na', 'linger': 'na', 'restart_from': 'na', 'bystander': 'na',
            'stream': {'got': [], 'end': 'na', 'again': 'na'}}


def _scn(case, where, marks=(), ev=None):
    """scenario incl. where the fault actually landed (from the agent, not from a guess)"""
    s = {'kind': case['kind'], 'persistent': 'T' if case.get('persistent') else 'F', 'ending': case.get('ending', 'ret'),
         'fault': case.get('fault', 'none'), 'n': case.get('n', 0), 'items': case.get('items', 0),
         'landed': 'F', 'in_target': 'F', 'file': 'none', 'func': 'none', 'line': 0,
         'target_started': 'T' if any(m == 'start' or m.endswith(' start') for m in marks) else 'F',
         'target_finished': 'T' if any(m in ('ret', 'raise') for m in marks) else 'F',
         'in_finally': 'F', 'in_try': 'F', 'in_work': 'F', 'region': 'none', 'has_finally': 'T' if (not case.get('persistent') and case.get('ending') in ('ret', 'exc', 'slowfin')) else 'F'}
    s['ending'] = {'slow': 'ret', 'slowfin': 'ret', 'linger': 'ret', 'unreb2': 'unreb', 'stubborn': 'ret'}.get(s['ending'], s['ending'])
    if s['fault'] == 'term_stubborn':
        s['fault'] = 'sigterm'                 # ended by force: nothing can be reported by the child
    if s['fault'] == 'term_idle':
        s['fault'] = 'pause'                   # a graceful request that reaches a child blocked in its receive
    if where:
        s['landed'] = 'T'
        s['file'], s['func'], s['line'] = where.get('file', 'none'), where.get('func', 'none'), where.get('line', 0)
        stack = where.get('stack') or []
        tf = [f for f in stack if f[0] == 'targets.py' and f[1].startswith(('t_', 'p_'))]
        s['in_target'] = 'T' if tf else 'F'
        s['in_work'] = 'T' if any(f[1] == 'do_work' for f in stack) else 'F'
        reg = target_region(tf[0][1], tf[0][2]) if tf else 'none'
        s['region'] = reg
        s['in_try'] = 'T' if reg == 'try' else 'F'
        if case.get('granularity') == 'opcode' and reg == 'try' and tf and tf[0][2] == _REGIONS.get(tf[0][1], (0,))[0]:
            # the loop-header line also carries the loop-exit instructions, which lie outside the protected range
            s['in_try'] = 'F'
        s['in_finally'] = 'T' if reg == 'finally' else 'F'
        if s['in_target'] == 'T':
            s['target_finished'] = 'F'          # its frame is still on the stack
    return s
