---------------------------- MODULE ClientStartMC ----------------------------
EXTENDS ClientStart
AllScenarios == {[kind |-> "remote", step |-> st, how |-> "na", pers |-> "F"] :
                    st \in {"healthy", "refuse_data", "unknown_ctx", "conn", "kill_hdr", "kill_self", "kill_addr", "kill_spawn", "kill_window", "kill_info", "bk_baseexc"}}
                \cup {[kind |-> "remote", step |-> st, how |-> h, pers |-> "F"] :
                    st \in {"hdr", "self", "addr0", "addrM", "addrL", "info0", "infoM", "infoL"}, h \in {"fin", "rst"}}
                \cup {[kind |-> "remote", step |-> st, how |-> h, pers |-> pe] :
                    st \in {"rinfo0", "rinfoM", "rinfoL"}, h \in {"fin", "rst"}, pe \in {"F", "T"}}
                \cup {[kind |-> "process", step |-> st, how |-> "na", pers |-> "F"] : st \in {"healthy", "exit_early"}}
\* known finding: a one-shot backend whose target does not end by itself (pers = "L") never looks at the data connection
LongOneShot == {[kind |-> "remote", step |-> st, how |-> h, pers |-> "L"] : st \in {"rinfo0", "rinfoM", "rinfoL"}, h \in {"fin", "rst"}}
FixAll == {"report", "srvclose", "sentinelraise", "basereport"}
FixNone == {}
FixNoReport == {"srvclose", "sentinelraise", "basereport"}
FixNoSrv == {"report", "sentinelraise", "basereport"}
FixOnlySentinel == {"sentinelraise", "basereport"}             \* before the two handshake fixes
FixNoBase == {"report", "srvclose", "sentinelraise"}      \* the tree as it is: a BaseException during the backend's start-up is not reported
FixNoSentinel == {"report", "srvclose", "basereport"}        \* the tree as it is now
=============================================================================
