------------------------------ MODULE OneShot ------------------------------
(* One life of one worker: the child's run loop by region, Python's exception routing, *)
(* the result protocol of each kind, the asynchronous WorkerTerminatedError landing at  *)
(* any label, SIGKILL at any label (incl. part-way through a big result), and what the  *)
(* parent can observe after death.                                                      *)
(*                                                                                      *)
(* THREAD  (thread.py _run):  t_try | try: t_init t_work t_store | except BaseException:*)
(*          h_log h_store | finally: f_cleanup | exit.   _result is shared memory.      *)
(* PROCESS (process.py _run): try: c_init c_work c_put (begin/end) | except Exception:  *)
(*          h_log h_put | finally: f_cleanup f_rel f_close | exit.  Frames on the comms *)
(*          pipe ((ok, value), user_state); parent keeps the LAST complete frame.       *)
(* REMOTE  (remote.py _run_backend): outer try: inner try: b_init b_work b_wrap |       *)
(*          inner except Exception: ih_log ih_store | inner finally: if_rel | outer     *)
(*          except Exception: oh_store oh_resend | outer finally: of_cleanup of_send     *)
(*          of_sendus of_close | exit.  Frontend F reads one result frame then the      *)
(*          user_state frame; connection closed first => (False, None).                 *)
(* Persistent = TRUE replaces *_work by the loop  l_recv l_run l_inc l_send  (Items     *)
(* inputs) and makes cleanup write the end-of-results marker.                           *)
(*                                                                                      *)
(* Fixed = TRUE is the current code (parent-side fallbacks: a dead worker without a     *)
(* recorded outcome reports (False, None); broken / un-rebuildable frames are dropped;  *)
(* the backend's result variable starts as (False, None)).  Fixed = FALSE is the code   *)
(* before the fixes and must be rejected by TLC.                                        *)
EXTENDS Naturals, Sequences, FiniteSets, TLC, LifeProps

CONSTANTS Kind,        \* "thread" | "process" | "remote"
          Persistent,  \* BOOLEAN
          Ending,      \* "ret" | "exc" | "bexc" | "unreb" | "big"
          Items,       \* inputs enqueued (persistent)
          MaxTerm,     \* terminate() calls by the parent (0 or 1)
          MaxKill,     \* SIGKILLs (0 or 1; not for threads)
          Fixed

VARIABLES cpc,         \* child label
          curExc,      \* exception being handled / propagating ("none" | "E" | "WTE" | "BE" | "UNREB")
          prop,        \* TRUE: curExc is propagating out (no handler will see it)
          asyncPend,   \* WorkerTerminatedError set in the child's thread state, not yet raised
          nterm, nkill,
          os,          \* "run" | "dead"
          tres,        \* THREAD: _result  ("unset" | "ok" | exception class)
          frames,      \* PROCESS/REMOTE: result frames written (each <<what, user_state>>)
          partial,     \* PROCESS: the last frame was cut by a kill
          bres,        \* REMOTE: the backend's local `result`
          usc,         \* child's user_state ("init" | "last")
          usframe,     \* REMOTE: user_state frame sent
          done,        \* items processed (persistent)
          outq,        \* persistent: result stream written by the child (item numbers, then "end")
          started, finished, findone,       \* target progress (for scn)
          landedAt, landedInTarget, landedFinished, landedInWork, usAlive,
          fi, fsig, pq, fres, fpc,     \* persistent REMOTE: the parent-side forwarding thread F (_fetch_results): position on the
                       \* wire, end-marker forwarded?, what it put into the parent's results pipe, final result, "loop" | "done"
          ctrlAlive,   \* PROCESS/REMOTE: the child's control thread can still deliver a graceful request
          noCounter,   \* persistent: the request landed before _init_child created _counter (cleanup will fail)
          observed     \* parent's reads after death ("none" or the record d)
vars == <<cpc, curExc, prop, asyncPend, nterm, nkill, os, tres, frames, partial, bres, usc, usframe, done, outq,
          started, finished, findone, landedAt, landedInTarget, landedFinished, landedInWork, usAlive, fi, fsig, pq, fres, fpc, ctrlAlive, noCounter, observed>>
fvars == <<fi, fsig, pq, fres, fpc>>

IsException(x) == x \in {"E", "WTE", "UNREB"}       \* subclasses of Exception; "BE" is not
\* remote: the OUTER handler of _run_backend is `except BaseException` in the current code (a SystemExit raised while the backend
\* starts up must still be reported to the server, which waits for the runtime info); it was `except Exception` before
OuterCatches(x) == IsException(x) \/ Fixed
OwnExc == CASE Ending = "exc" -> "E" [] Ending = "bexc" -> "BE" [] Ending = "unreb" -> "UNREB" [] OTHER -> "none"

HasF == Kind = "remote" /\ Persistent          \* the parent-side forwarding thread F is modelled step by step
\* thread: the start-up synchronisation (after which the parent can call terminate()) is the first statement INSIDE the try
\* statement in the current code; before the fix it preceded it, so a request could land on the `try:` line (t_try), outside
First == CASE Kind = "thread" -> (IF Fixed THEN "t_init" ELSE "t_try") [] Kind = "process" -> "c_init" [] Kind = "remote" -> "b_init"
Work  == IF Persistent THEN "l_recv" ELSE "work"
InWorkLabels == {"work", "l_recv", "l_run", "l_inc", "l_send"}
TargetLabels == {"work", "l_run"}

Init == /\ cpc = First /\ curExc = "none" /\ prop = FALSE /\ asyncPend = FALSE /\ nterm = 0 /\ nkill = 0
        /\ os = "run" /\ tres = "unset" /\ frames = <<>> /\ partial = FALSE
        /\ bres = (IF Fixed THEN "ErrNone" ELSE "None") /\ usc = "init" /\ usframe = "none"
        /\ done = 0 /\ outq = <<>> /\ started = FALSE /\ finished = FALSE /\ findone = FALSE
        /\ landedAt = "none" /\ landedInTarget = FALSE /\ landedFinished = FALSE /\ landedInWork = FALSE
        /\ fi = 0 /\ fsig = FALSE /\ pq = <<>> /\ fres = "unset" /\ fpc = "loop"
        /\ usAlive = "na" /\ ctrlAlive = TRUE /\ noCounter = FALSE /\ observed = "none"

\* ---------------------------------------------------------------------------------------------
\* exception routing: exception x surfaces at label cpc
\* ---------------------------------------------------------------------------------------------
ThreadTry == {"t_init", "work", "t_store", "l_recv", "l_run", "l_inc", "l_send"}
ProcTry   == {"c_init", "work", "c_put", "c_put2", "l_recv", "l_run", "l_inc", "l_send"}
RemInner  == {"b_init", "work", "b_wrap", "l_recv", "l_run", "l_inc", "l_send"}

Die == os' = "dead" /\ cpc' = "exit"

Route(x) ==
  /\ findone' = (findone \/ cpc \in TargetLabels)
  /\ finished' = (finished \/ (cpc \in TargetLabels /\ ~Persistent /\ x # "WTE"))
  /\ CASE Kind = "thread" ->
            IF cpc \in ThreadTry THEN cpc' = "h_log" /\ curExc' = x /\ prop' = FALSE /\ UNCHANGED os
            ELSE IF cpc \in {"h_log", "h_store"} THEN cpc' = "f_cleanup" /\ curExc' = x /\ prop' = TRUE /\ UNCHANGED os
            ELSE Die /\ curExc' = x /\ prop' = TRUE                       \* on the try: line or inside finally
       [] Kind = "process" ->
            IF cpc \in ProcTry /\ IsException(x) THEN cpc' = "h_log" /\ curExc' = x /\ prop' = FALSE /\ UNCHANGED os
            ELSE IF cpc \in ProcTry \cup {"h_log", "h_put"} THEN cpc' = "f_cleanup" /\ curExc' = x /\ prop' = TRUE /\ UNCHANGED os
            ELSE Die /\ curExc' = x /\ prop' = TRUE
       [] Kind = "remote" ->
            IF cpc \in RemInner /\ IsException(x) THEN cpc' = "ih_log" /\ curExc' = x /\ prop' = FALSE /\ UNCHANGED os
            ELSE IF cpc \in RemInner \cup {"ih_log", "ih_store"} THEN cpc' = "if_rel" /\ curExc' = x /\ prop' = TRUE /\ UNCHANGED os
            ELSE IF cpc \in {"if_rel", "if_join"} THEN
                 (IF OuterCatches(x) THEN cpc' = "oh_store" /\ prop' = FALSE ELSE cpc' = "of_cleanup" /\ prop' = TRUE) /\ curExc' = x /\ UNCHANGED os
            ELSE IF cpc \in {"oh_store", "oh_resend"} THEN cpc' = "of_cleanup" /\ curExc' = x /\ prop' = TRUE /\ UNCHANGED os
            ELSE Die /\ curExc' = x /\ prop' = TRUE

\* the asynchronous exception lands at the current label
Land == /\ os = "run" /\ asyncPend /\ cpc # "exit"
        /\ asyncPend' = FALSE
        /\ landedAt' = cpc /\ landedInTarget' = (cpc \in TargetLabels) /\ landedFinished' = finished
        /\ landedInWork' = (cpc \in InWorkLabels \cup {"b_wrap", "t_store"})
        /\ usAlive' = (IF Kind = "thread" THEN "na" ELSE "init")     \* parent copy is untouched while the child lives
        \* before the fix _cleanup() read self._counter, which only exists once _init_child ran
        /\ noCounter' \in (IF ~Fixed /\ Persistent /\ cpc \in {"t_init", "c_init", "b_init"} THEN BOOLEAN ELSE {FALSE})
        /\ Route("WTE")
        /\ UNCHANGED <<nterm, nkill, tres, frames, partial, bres, usc, usframe, done, outq, started, ctrlAlive, observed, fvars>>

Terminate == /\ nterm < MaxTerm /\ nkill = 0 /\ os = "run" /\ cpc # "exit" /\ ~asyncPend /\ landedAt = "none"
             /\ (Kind = "thread" \/ ctrlAlive)
             /\ nterm' = nterm + 1 /\ asyncPend' = TRUE
             /\ UNCHANGED <<cpc, curExc, prop, nkill, os, tres, frames, partial, bres, usc, usframe, done, outq, started, finished,
                            findone, landedAt, landedInTarget, landedFinished, landedInWork, usAlive, ctrlAlive, noCounter, observed, fvars>>

\* the control thread has already been released: nobody raises the exception; after the timeout the child is
\* SIGTERMed (process: Process.terminate(); remote: the server kills the backend and writes (False, None) itself)
ForcedTerminate ==
             /\ nterm < MaxTerm /\ nkill = 0 /\ os = "run" /\ cpc # "exit" /\ ~asyncPend /\ landedAt = "none"
             /\ Kind # "thread" /\ ~ctrlAlive
             /\ nterm' = nterm + 1 /\ Die
             /\ frames' = (IF Kind = "remote" THEN Append(frames, <<"ErrNone", "na">>) ELSE frames)
             /\ landedAt' = cpc /\ landedInTarget' = FALSE /\ landedFinished' = finished /\ landedInWork' = FALSE
             /\ usAlive' = "init"
             /\ UNCHANGED <<curExc, prop, asyncPend, nkill, tres, partial, bres, usc, usframe, done, outq, started, finished, findone,
                            ctrlAlive, noCounter, observed, fvars>>

Kill == /\ Kind # "thread" /\ nkill < MaxKill /\ nterm = 0 /\ os = "run" /\ cpc # "exit"
        /\ nkill' = nkill + 1 /\ Die
        /\ partial' = (cpc = "c_put2")                \* killed between the two halves of a big frame
        /\ landedAt' = cpc /\ landedInTarget' = (cpc \in TargetLabels) /\ landedFinished' = finished
        /\ landedInWork' = (cpc \in InWorkLabels)
        /\ UNCHANGED <<curExc, prop, asyncPend, nterm, tres, frames, bres, usc, usframe, done, outq, started, finished, findone, usAlive,
                       ctrlAlive, noCounter, observed, fvars>>

\* ---------------------------------------------------------------------------------------------
\* the child's own steps
\* ---------------------------------------------------------------------------------------------
Goto(l) == cpc' = l /\ UNCHANGED <<curExc, prop, os, findone, finished>>
Frame(what) == <<what, usc>>
EndMarker == IF Persistent THEN outq' = Append(outq, 0) ELSE UNCHANGED outq     \* 0 = end-of-results marker

ChildStep ==
  /\ os = "run" /\ cpc # "exit"
  /\ UNCHANGED <<asyncPend, nterm, nkill, partial, landedAt, landedInTarget, landedFinished, landedInWork, usAlive, noCounter, observed, fvars>>
  /\ ctrlAlive' = (ctrlAlive /\ cpc \notin {"f_rel", "if_rel"})      \* releasing = send None to the control thread, then join it
  /\ CASE \* ---- work: one-shot target, or the persistent loop
          cpc \in {"t_try", "t_init", "c_init", "b_init"} ->
             /\ Goto(IF cpc = "t_try" THEN "t_init" ELSE Work)
             /\ UNCHANGED <<tres, frames, bres, usc, usframe, done, outq, started>>
       [] cpc = "work" ->
             /\ started' = TRUE /\ usc' = "last"
             /\ IF Ending \in {"ret", "big"}
                THEN /\ cpc' = (CASE Kind = "thread" -> "t_store" [] Kind = "process" -> "c_put" [] OTHER -> "b_wrap")
                     /\ finished' = TRUE /\ findone' = TRUE /\ UNCHANGED <<curExc, prop, os>>
                ELSE Route(OwnExc)
             /\ UNCHANGED <<tres, frames, bres, usframe, done, outq>>
       [] cpc = "l_recv" ->
             /\ IF done < Items THEN Goto("l_run")
                ELSE /\ cpc' = (CASE Kind = "thread" -> "t_store" [] Kind = "process" -> "c_put" [] OTHER -> "b_wrap")
                     /\ finished' = TRUE /\ UNCHANGED <<curExc, prop, os, findone>>
             /\ UNCHANGED <<tres, frames, bres, usc, usframe, done, outq, started>>
       [] cpc = "l_run" ->
             /\ started' = TRUE /\ usc' = "last"
             /\ IF Ending = "exc" /\ done = 2 THEN Route("E") ELSE Goto("l_inc")
             /\ UNCHANGED <<tres, frames, bres, usframe, done, outq>>
       [] cpc = "l_inc" -> Goto("l_send") /\ done' = done + 1 /\ UNCHANGED <<tres, frames, bres, usc, usframe, outq, started>>
       [] cpc = "l_send" -> Goto("l_recv") /\ outq' = Append(outq, done) /\ UNCHANGED <<tres, frames, bres, usc, usframe, done, started>>
          \* ---- THREAD
       [] cpc = "t_store" -> Goto("f_cleanup") /\ tres' = "ok" /\ UNCHANGED <<frames, bres, usc, usframe, done, outq, started>>
       [] cpc = "h_log" -> Goto(IF Kind = "thread" THEN "h_store" ELSE "h_put") /\ UNCHANGED <<tres, frames, bres, usc, usframe, done, outq, started>>
       [] cpc = "h_store" -> Goto("f_cleanup") /\ tres' = curExc /\ UNCHANGED <<frames, bres, usc, usframe, done, outq, started>>
          \* ---- PROCESS
       [] cpc = "c_put" -> /\ IF Ending = "big" THEN Goto("c_put2") /\ UNCHANGED frames
                              ELSE Goto("f_cleanup") /\ frames' = Append(frames, Frame("ok"))
                           /\ UNCHANGED <<tres, bres, usc, usframe, done, outq, started>>
       [] cpc = "c_put2" -> Goto("f_cleanup") /\ frames' = Append(frames, Frame("ok")) /\ UNCHANGED <<tres, bres, usc, usframe, done, outq, started>>
       [] cpc = "h_put" -> Goto("f_cleanup") /\ frames' = Append(frames, Frame(curExc)) /\ UNCHANGED <<tres, bres, usc, usframe, done, outq, started>>
       [] cpc = "f_cleanup" /\ noCounter ->
             Die /\ UNCHANGED <<curExc, prop, findone, finished, tres, frames, bres, usc, usframe, done, outq, started>>
       [] cpc = "f_cleanup" /\ ~noCounter ->  \* _cleanup(): persistent kinds write the end-of-results marker
             /\ EndMarker
             /\ IF Kind = "thread" THEN (IF prop THEN Die /\ UNCHANGED <<curExc, prop, findone, finished>> ELSE Goto("exit"))
                ELSE Goto("f_rel")
             /\ UNCHANGED <<tres, frames, bres, usc, usframe, done, started>>
       [] cpc = "f_rel" -> Goto("f_close") /\ UNCHANGED <<tres, frames, bres, usc, usframe, done, outq, started>>
       [] cpc = "f_close" -> Die /\ UNCHANGED <<curExc, prop, findone, finished, tres, frames, bres, usc, usframe, done, outq, started>>
          \* ---- REMOTE
       [] cpc = "b_wrap" -> Goto("if_rel") /\ bres' = "ok" /\ UNCHANGED <<tres, frames, usc, usframe, done, outq, started>>
       [] cpc = "ih_log" -> Goto("ih_store") /\ UNCHANGED <<tres, frames, bres, usc, usframe, done, outq, started>>
       [] cpc = "ih_store" -> Goto("if_rel") /\ bres' = curExc /\ UNCHANGED <<tres, frames, usc, usframe, done, outq, started>>
       [] cpc = "if_rel" -> Goto("if_join") /\ UNCHANGED <<tres, frames, bres, usc, usframe, done, outq, started>>
       [] cpc = "if_join" ->            \* join the local control thread, then leave the inner try statement
             /\ IF prop THEN (IF OuterCatches(curExc) THEN cpc' = "oh_store" /\ prop' = FALSE ELSE cpc' = "of_cleanup" /\ prop' = TRUE)
                             /\ UNCHANGED <<curExc, os, findone, finished>>
                ELSE Goto("of_cleanup")
             /\ UNCHANGED <<tres, frames, bres, usc, usframe, done, outq, started>>
       [] cpc = "oh_store" -> Goto("oh_resend") /\ bres' = curExc /\ UNCHANGED <<tres, frames, usc, usframe, done, outq, started>>
       [] cpc = "oh_resend" ->          \* comms.child_end was closed long ago: send() raises OSError inside the handler
             /\ cpc' = "of_cleanup" /\ prop' = TRUE /\ curExc' = "E" /\ UNCHANGED <<os, findone, finished>>
             /\ UNCHANGED <<tres, frames, bres, usc, usframe, done, outq, started>>
       [] cpc = "of_cleanup" /\ noCounter ->      \* _cleanup() reads self._counter: AttributeError inside the final finally
             Die /\ UNCHANGED <<curExc, prop, findone, finished, tres, frames, bres, usc, usframe, done, outq, started>>
       [] cpc = "of_cleanup" /\ ~noCounter -> Goto("of_send") /\ EndMarker /\ UNCHANGED <<tres, frames, bres, usc, usframe, done, started>>
       [] cpc = "of_send" -> Goto("of_sendus") /\ frames' = Append(frames, <<bres, "na">>) /\ UNCHANGED <<tres, bres, usc, usframe, done, outq, started>>
       [] cpc = "of_sendus" -> Goto("of_close") /\ usframe' = usc /\ UNCHANGED <<tres, frames, bres, usc, done, outq, started>>
       [] cpc = "of_close" -> Die /\ UNCHANGED <<curExc, prop, findone, finished, tres, frames, bres, usc, usframe, done, outq, started>>

\* ---------------------------------------------------------------------------------------------
\* the parent observes a dead worker (has_error, result, error) - repeated reads give the same answer
\* ---------------------------------------------------------------------------------------------
Shape(w) == CASE w = "ok" -> [alive |-> "F", has_error |-> "F", result |-> IF Persistent THEN "count" ELSE "own", result_n |-> done, error |-> "None"]
              [] w = "WTE" -> [alive |-> "F", has_error |-> "T", result |-> "None", result_n |-> 0, error |-> "WTE"]
              [] w \in {"E", "BE"} -> [alive |-> "F", has_error |-> "T", result |-> "None", result_n |-> 0, error |-> "own"]
              [] w = "ErrNone" -> [alive |-> "F", has_error |-> "T", result |-> "None", result_n |-> 0, error |-> "None"]
              [] w \in {"None", "unset"} -> [alive |-> "F", has_error |-> "None", result |-> "None", result_n |-> 0, error |-> "None"]
              [] w = "RAISES" -> [alive |-> "F", has_error |-> "raised", result |-> "raised", result_n |-> 0, error |-> "raised"]
              [] w = "UNREB" -> [alive |-> "F", has_error |-> "T", result |-> "None", result_n |-> 0, error |-> "own"]
Seen ==
  CASE Kind = "thread" -> IF tres = "unset" THEN (IF Fixed THEN "ErrNone" ELSE "None") ELSE tres
    [] Kind = "process" ->
         IF partial THEN (IF Fixed THEN "ErrNone" ELSE "RAISES")      \* OSError: got end of file during message
         ELSE IF frames = <<>> THEN "ErrNone"
         ELSE IF frames[Len(frames)][1] = "UNREB" THEN (IF Fixed THEN "ErrNone" ELSE "RAISES")
         ELSE frames[Len(frames)][1]
    [] Kind = "remote" ->
         IF HasF THEN fres
         ELSE IF frames = <<>> THEN "ErrNone"
         ELSE IF frames[1][1] = "UNREB" THEN (IF Fixed THEN "ErrNone" ELSE "None")
         ELSE frames[1][1]
UsEnd == CASE Kind = "thread" -> usc
           [] Kind = "process" -> IF partial \/ frames = <<>> \/ Seen \in {"ErrNone", "RAISES"} THEN "init" ELSE frames[Len(frames)][2]
           [] Kind = "remote" -> IF usframe = "none" /\ Len(frames) >= 2 THEN "other"     \* F reads the server's (False, None) as user_state
                                 ELSE IF usframe = "none" \/ (Seen = "ErrNone" /\ frames # <<>> /\ frames[1][1] = "UNREB") THEN "init" ELSE usframe

Observe == /\ os = "dead" /\ observed = "none" /\ (HasF => fpc = "done")
           /\ observed' = "yes"
           /\ UNCHANGED <<cpc, curExc, prop, asyncPend, nterm, nkill, os, tres, frames, partial, bres, usc, usframe, done, outq,
                          started, finished, findone, landedAt, landedInTarget, landedFinished, landedInWork, usAlive, ctrlAlive, noCounter, fvars>>

ThreadExit == Kind = "thread" /\ cpc = "exit" /\ os = "run" /\ os' = "dead"
              /\ UNCHANGED <<cpc, curExc, prop, asyncPend, nterm, nkill, tres, frames, partial, bres, usc, usframe, done, outq,
                             started, finished, findone, landedAt, landedInTarget, landedFinished, landedInWork, usAlive, ctrlAlive, noCounter, observed, fvars>>

\* ---------------------------------------------------------------------------------------------
\* persistent REMOTE: the parent-side forwarding thread (PersistentRemoteWorker._fetch_results).  The wire carries, in
\* order, what the backend wrote: partial results and the end-of-results marker (outq), then the final result frame(s)
\* (frames; the server may append its own (False, None) after killing the backend).  F forwards results and the marker
\* into the parent's results pipe, and - current code - writes the marker itself if the stream ends without one.
\* ---------------------------------------------------------------------------------------------
WireLen == Len(outq) + Len(frames)
FStep == /\ HasF /\ fpc = "loop"
         /\ IF fi < Len(outq)
            THEN /\ pq' = Append(pq, outq[fi + 1]) /\ fsig' = (fsig \/ outq[fi + 1] = 0)
                 /\ fi' = fi + 1 /\ UNCHANGED <<fres, fpc>>
            ELSE IF fi < WireLen
            THEN /\ fres' = frames[fi - Len(outq) + 1][1] /\ fi' = fi + 1 /\ fpc' = "done"
                 /\ pq' = (IF Fixed /\ ~fsig THEN Append(pq, 0) ELSE pq) /\ fsig' = (fsig \/ Fixed)
            ELSE /\ os = "dead"                                  \* ConnectionClosedError: the backend is gone
                 /\ fres' = "ErrNone" /\ fpc' = "done" /\ UNCHANGED fi
                 /\ pq' = (IF ~fsig THEN Append(pq, 0) ELSE pq) /\ fsig' = TRUE
         /\ UNCHANGED <<cpc, curExc, prop, asyncPend, nterm, nkill, os, tres, frames, partial, bres, usc, usframe, done, outq,
                        started, finished, findone, landedAt, landedInTarget, landedFinished, landedInWork, usAlive, ctrlAlive, noCounter, observed>>

Next == Land \/ Terminate \/ ForcedTerminate \/ Kill \/ ChildStep \/ ThreadExit \/ FStep \/ Observe
Spec == Init /\ [][Next]_vars /\ WF_vars(ChildStep) /\ WF_vars(Land) /\ WF_vars(ThreadExit) /\ WF_vars(FStep) /\ WF_vars(Observe)

\* ---------------------------------------------------------------------------------------------
\* projection to the observable record and the properties (operators of LifeProps)
\* ---------------------------------------------------------------------------------------------
B(x) == IF x THEN "T" ELSE "F"
Terminal == observed = "yes"
\* what a consumer of the result stream gets: thread/process read what the child wrote (outq); persistent remote reads
\* what F forwarded (pq).  A consumer already blocked in next_result() is released by the end marker, by EOF on a real
\* pipe (process kind), or - thread kind, current code - by the parent finishing the dead child's clean up.
Chan == IF HasF THEN pq ELSE outq
HasMarker == \E k \in 1..Len(Chan) : Chan[k] = 0
Stream == LET nums == SelectSeq(Chan, LAMBDA x : x # 0) IN
          [got |-> nums,
           end |-> IF ~Persistent THEN "na"
                   ELSE IF HasMarker \/ Kind = "process" \/ (Kind = "thread" /\ Fixed) THEN "ended" ELSE "blocked",
           again |-> IF Persistent THEN "Empty" ELSE "na"]
Rec == [scn |-> [kind |-> Kind, persistent |-> B(Persistent), ending |-> Ending, items |-> Items,
                 fault |-> IF landedAt = "none" THEN "none" ELSE IF nkill > 0 THEN "sigkill" ELSE "pause",
                 landed |-> B(landedAt # "none"), in_target |-> B(landedInTarget), in_try |-> B(landedInTarget),
                 in_finally |-> "F", in_work |-> B(landedInWork), has_finally |-> "T",
                 target_started |-> B(started), target_finished |-> B(landedFinished /\ ~landedInTarget)],
        obs |-> [dead_observed |-> "T", term_ret |-> IF nterm > 0 THEN "T" ELSE "na",
                 reads |-> <<Shape(Seen), Shape(Seen), Shape(Seen)>>, fin_done |-> B(findone),
                 linger |-> "na", restart_from |-> "na", bystander |-> "na", us_alive |-> usAlive, us_end |-> IF UsEnd = usc THEN "last" ELSE IF UsEnd = "other" THEN "other" ELSE "init", setter |-> "rejected",
                 stream |-> Stream]]

\* known finding F03: a request landing after the work has finished (in the result store/send, the handler, the final
\* cleanup) cannot be told apart by the child; those landings are excluded here and listed in known_findings.json
LateLanding == landedAt \notin (InWorkLabels \cup {"none", "t_try", "t_init", "c_init", "b_init"})
Inv_C01_Definite    == Terminal => C01_Definite(Rec)
Inv_C01_Shape       == Terminal => C01_Shape(Rec)
Inv_C01_Undisturbed == Terminal => C01_Undisturbed(Rec)
Inv_C03_Reported    == Terminal => C03_Reported(Rec)
Inv_C03_NothingElse == Terminal => C03_NothingElse(Rec)
Inv_C03_NothingElse_KF == (Terminal /\ ~LateLanding) => C03_NothingElse(Rec)
Inv_C03_OwnOutcome  == Terminal => C03_OwnOutcome(Rec)
Inv_C03_BeforeStart == Terminal => C03_BeforeStart(Rec)
Inv_C06_Prefix      == C06_Prefix(Rec)
Inv_C06_Ends        == Terminal => C06_Ends(Rec)
Inv_C06_All         == Terminal => C06_All(Rec)
\* late landings (after the work finished) can lose the state in the design as it is: known findings, judged on real runs
Inv_C16_Synced      == (Terminal /\ ~LateLanding) => C16_SyncedAtEnd(Rec)
Inv_C16_Initial     == Terminal => C16_InitialWhileAlive(Rec)
Live_Dies           == <>Terminal
\* what the model allows per landing label (conformance table for the replay driver)
AllowedDump == Terminal => PrintT(<<"ALLOWED", Kind, B(Persistent), Ending, Rec.scn.fault, landedAt, Seen, Rec.obs.us_end, Stream.end>>)
\* witnesses
W_NeverLandsInHandler == ~(landedAt \in {"h_log", "h_store", "h_put", "ih_log", "ih_store", "oh_store"})
W_NeverLandsInFinally == ~(landedAt \in {"f_cleanup", "f_rel", "f_close", "if_rel", "if_join", "of_cleanup", "of_send", "of_sendus", "of_close"})
W_NeverWTE == ~(Terminal /\ Seen = "WTE")
=============================================================================
