"""Scenario executors of the server-side checks.  Each scenario owns a real server process
(spawn_server(('127.0.0.1', 0))) and runs inside a pool worker process; it returns a plain
(scn, obs) record - what was asked and what was observed - and never judges anything."""
import multiprocessing as mp
import os
import queue
import signal
import sys
import time
import traceback

from . import _server_lib as L
from . import _server_targets as tg
from ..common import MachineryError

HANG = 5.0          # hang bound of every client-side call (seconds)


# ----------------------------------------------------------------------------- process pool

def worker_main(tq, rq, logdir):
    L.setup_env()
    try:
        log = open(os.path.join(logdir, 'worker-%d.log' % os.getpid()), 'ab', buffering=0)
        os.dup2(log.fileno(), 2)
        os.dup2(log.fileno(), 1)
    except OSError:
        pass
    parent = os.getppid()
    while True:
        try:
            item = tq.get(timeout=1.0)
        except queue.Empty:
            if os.getppid() != parent:      # the check process is gone: do not linger
                os._exit(0)
            continue
        if item is None:
            break
        i, fn, arg = item
        try:
            res = ('ok', globals()[fn](arg))
        except BaseException:  # noqa
            res = ('error', traceback.format_exc())
        rq.put((i, res))


def pool_map(fn, tasks, logdir, nproc=12, task_timeout=150):
    """Run globals()[fn](task) for every task in `nproc` spawn'ed processes; results in task order."""
    if not tasks:
        return []
    L.setup_env()
    ctx = mp.get_context('spawn')
    tq, rq = ctx.Queue(), ctx.Queue()
    n = min(nproc, len(tasks))
    procs = [ctx.Process(target=worker_main, args=(tq, rq, logdir), daemon=False) for _ in range(n)]
    for p in procs:
        p.start()
    for i, t in enumerate(tasks):
        tq.put((i, fn, t))
    for _ in procs:
        tq.put(None)
    out = {}
    try:
        while len(out) < len(tasks):
            try:
                i, res = rq.get(timeout=task_timeout)
            except queue.Empty:
                raise MachineryError('replay pool: no result within %d s (%d of %d done)' % (task_timeout, len(out), len(tasks)))
            if res[0] == 'error':
                raise MachineryError('replay scenario failed inside the harness:\n' + res[1])
            out[i] = res[1]
    finally:
        t0 = time.time()
        for p in procs:
            p.join(max(0.0, 3.0 - (time.time() - t0)))
        for p in procs:
            if p.is_alive():
                L.reap_tree(p.pid)
    return [out[i] for i in range(len(tasks))]


# ----------------------------------------------------------------------------- common pieces

class Srv:
    """A real server process owned by one scenario."""

    def __init__(self, logdir=None, name='srv'):
        from pyworkers.remote_server import spawn_server
        self.errlog = None
        if logdir:
            self.errlog = os.path.join(logdir, '%s-%d-%d.err' % (name, os.getpid(), time.time_ns()))
            self._saved = os.dup(2)
            f = open(self.errlog, 'ab', buffering=0)
            os.dup2(f.fileno(), 2)
            f.close()
        try:
            res = L.bounded(lambda: spawn_server(('127.0.0.1', 0)), 20)
        finally:
            if logdir:
                os.dup2(self._saved, 2)
                os.close(self._saved)
        if res[0] != 'ok' or not res[1].addr:
            raise MachineryError('could not start a server: %r' % (res,))
        self.proc = res[1]
        self.pid = self.proc.pid
        self.addr = tuple(self.proc.addr)
        self.seen = set()

    def alive(self):
        return L.pid_alive(self.pid)

    def note_descendants(self):
        d = L.descendants(self.pid)
        self.seen.update(d)
        return d

    def last_error(self):
        """Last exception line the server process wrote (soft information for the 'what' text)."""
        if not self.errlog:
            return ''
        try:
            with open(self.errlog, 'rb') as f:
                txt = f.read().decode('utf-8', 'replace')
        except OSError:
            return ''
        k = txt.rfind('Error occurred in the remote server')
        if k < 0:
            return ''
        last = ''
        for x in txt[k:].splitlines()[1:]:
            if x and not x.startswith(' ') and ('Error' in x or 'Empty' in x or 'Exception' in x):
                last = x
        return last.strip()[:160]

    def destroy(self):
        self.note_descendants()
        left = L.reap_tree(self.pid, self.seen)
        return left


def fresh_round_trip(srv, tok):
    """A fresh well-behaved client: RemoteWorker(ident, tok) -> wait -> result, hang-bounded.
    Cut short (not 'hang') when the server process is gone and the client still has not returned."""
    from pyworkers.remote import RemoteWorker
    box = {}

    def go():
        w = RemoteWorker(tg.ident, args=(tok,), host=srv.addr, main_path=L.TARGETS_PATH)
        box['w'] = w
        if not w.wait(HANG):
            return 'unfinished'
        return w.result

    import threading
    res = {}

    def run():
        try:
            res['v'] = ('ok', go())
        except BaseException as e:  # noqa
            res['v'] = ('raised', e)

    t = threading.Thread(target=run, daemon=True)
    t0 = time.time()
    t.start()
    dead_since = None
    while t.is_alive() and time.time() - t0 < HANG:
        t.join(0.05)
        if not srv.alive():
            dead_since = dead_since or time.time()
            if time.time() - dead_since > 0.7:
                break
    if t.is_alive():
        got = 'hang' if dead_since is None else 'unserved:server-gone'
    else:
        got = L.tag(res['v'])
    return {'got': got, 'want': 'v:%s' % tok}


# ----------------------------------------------------------------------------- C11

def fault_client(srv, frames, f):
    """Play one faulty client: f = {req, step, cut, mode, split}."""
    c = L.RawClient(srv.addr, frames, timeout=HANG)
    step = f['step']
    if step in ('connect', 'midhdr', 'hdr', 'midpay', 'pay'):
        log = c.run('bytes', f['cut'], f['mode'])
    elif f.get('split'):
        log = c.run(step, 0, f['mode'], hold=True)
        L.vanish([c.ctrl], f['mode'])        # the control connection breaks first ...
        c.ctrl = None
        time.sleep(0.6)
        c.vanish(f['mode'])                  # ... the data connection follows
    else:
        log = c.run(step, 0, f['mode'])
    return log


def scenario_c11(scn):
    """scn: {id, faults: [{req, step, cut, mode, split}], streams: {req: frames(hex)}, pos: {req: [[k, j]]}, logdir}"""
    from pyworkers.remote import RemoteWorker
    from pyworkers.persistent_remote import PersistentRemoteWorker
    from pyworkers.remote_context import RemoteContext
    L.setup_env()
    srv = Srv(scn.get('logdir'))
    obs = {'srv_alive': 'F', 'fresh': [], 'others': []}
    notes = {'client_logs': [], 'server_error': '', 'failed_at': 0}
    release = os.path.join(scn['logdir'], 'release-%d-%d' % (os.getpid(), time.time_ns()))
    done = []
    try:
        # the healthy party: a context, a persistent worker that has already produced a result,
        # a one-shot worker in the middle of its target
        def setup():
            ctx = RemoteContext(L.REC_CTX_ID, host=srv.addr, target=tg.ctx_fun, kwargs={'tok': 5})
            hp = PersistentRemoteWorker(tg.ident, host=srv.addr, main_path=L.TARGETS_PATH)
            hp.enqueue(41)
            first = hp.next_result(timeout=HANG)
            ho = RemoteWorker(tg.wait_file, args=(release, 77), host=srv.addr, main_path=L.TARGETS_PATH)
            return ctx, hp, first, ho
        r = L.bounded(setup, 20)
        if r[0] != 'ok' or r[1][2] != 41:
            raise MachineryError('C11 set-up (healthy clients on a fresh server) failed: %r' % (r,))
        ctx, hp, _, ho = r[1]
        srv.note_descendants()
        for k, f in enumerate(scn['faults']):
            frames = L.retarget([bytes.fromhex(x) for x in scn['streams'][f['req']]], [tuple(p) for p in scn['pos'][f['req']]], srv.addr[1])
            notes['client_logs'].append(fault_client(srv, frames, f))
            done.append(f)
            fr = fresh_round_trip(srv, 100 + k)
            obs['fresh'].append(fr)
            srv.note_descendants()
            if fr['got'] != fr['want'] or not srv.alive():
                notes['failed_at'] = k + 1
                break
        # a server whose run() has raised is still busy in its `finally` (terminating children) for a
        # few seconds: 'alive' is only claimed for a process that is still there after the settle time
        if notes['failed_at']:
            t0 = time.time()
            while srv.alive() and time.time() - t0 < HANG:
                time.sleep(0.05)
            notes['settle_s'] = round(time.time() - t0, 2)
        # the healthy party afterwards
        def others():
            out = []
            def p():
                hp.enqueue(42)
                v = hp.next_result(timeout=HANG)
                if not hp.wait(HANG):
                    return 'unfinished'
                return 'v:%s/%s' % (v, hp.result)
            rp = L.bounded(p, 2 * HANG + 1)
            got = rp[1] if rp[0] == 'ok' else L.tag(rp)
            he = L.bounded(lambda: hp.has_error, HANG)
            out.append({'kind': 'persistent', 'got': got, 'want': 'v:42/2', 'err': L.tag(he)})
            with open(release, 'w'):
                pass
            def o():
                if not ho.wait(HANG):
                    return 'unfinished'
                return ho.result
            ro = L.bounded(o, HANG + 1)
            he = L.bounded(lambda: ho.has_error, HANG)
            out.append({'kind': 'oneshot', 'got': L.tag(ro), 'want': 'v:77', 'err': L.tag(he)})
            return out
        obs['others'] = others()
        time.sleep(0.05)
        obs['srv_alive'] = 'T' if srv.alive() else 'F'
        notes['server_error'] = srv.last_error()
        notes['descendants_at_end'] = len(L.descendants(srv.pid)) if srv.alive() else 0
    finally:
        try:
            os.unlink(release)
        except OSError:
            pass
        left = srv.destroy()
        notes['unkillable'] = left
    return {'id': scn['id'], 'prop': 'C11',
            'scn': {'faults': [{'req': f['req'], 'step': f['step'], 'mode': f['mode']} for f in done]},
            'obs': obs, 'notes': notes, 'faults_full': done}
