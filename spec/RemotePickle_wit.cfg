\* Vacuity control: WitDump prints a WIT line for every antecedent / fault that is reached.
INIT MCInit
NEXT Next
CONSTANTS
  Algo = "asis"
  SeedCopyreg = "live"
  InitGuard = FALSE
  CacheById = FALSE
  KwOnlyOK = TRUE
  SharedCtx = FALSE
  CtxCopy = TRUE
  Scns = {}
INVARIANT WitDump
CHECK_DEADLOCK FALSE
