SPECIFICATION Spec
CONSTANTS
  Algo = "asis"
  SeedCopyreg = FALSE
  Scns <- Scns_sel
INVARIANT TypeOK
INVARIANT Inv_FreshStart
INVARIANT Inv_C14_Once
INVARIANT Inv_C14_LoadsSucceeds
INVARIANT Inv_C14_Shape
INVARIANT Inv_C14_ViaSetstate
CHECK_DEADLOCK FALSE
