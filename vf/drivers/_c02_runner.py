"""Executed as a script (__main__) so that targets/values "defined in the main script" exist:
runs each scenario directly and in thread/process/remote workers and prints one JSON record per
scenario (field-by-field comparison with the direct call; the judgement is TLC's)."""
import json
import os
import sys
import threading

HERE = os.path.dirname(os.path.abspath(__file__))
VERIF = os.path.dirname(os.path.dirname(HERE))
REPO = os.environ.get('VERIF_REPO', '/repo')
for p in (VERIF, REPO):
    if p not in sys.path:
        sys.path.insert(0, p)

from vf.drivers import _c02_values as V   # noqa: E402   (module-defined values and targets)


class MainPoint:
    def __init__(self, x, y):
        self.x, self.y = x, y

    def __eq__(self, o):
        return type(o) is type(self) and (o.x, o.y) == (self.x, self.y)


class MainError(Exception):
    pass


def main_value(key):
    if key == 'point':
        return MainPoint(1, [2, 3])
    if key == 'nested':
        return {'p': MainPoint(0, None), 'l': [MainPoint(1, 1)] * 2}
    return V.make_value(key)


def main_raise(key):
    if key == 'main_err':
        raise MainError('m', 3)
    V.mod_raise(key)


def main_echo(*args, **kwargs):
    return (args, kwargs)


def _call(scn):
    fn = globals()[scn['target']] if scn['where'] == 'main' else getattr(V, scn['target'])
    return fn


def direct(scn):
    fn = _call(scn)
    try:
        return 'ret', fn(*scn['args'], **scn['kwargs'])
    except Exception as e:  # noqa
        return 'exc', e


def run_kind(kind, scn, host, bound=25):
    from pyworkers.worker import Worker, WorkerType
    from pyworkers.thread import ThreadWorker
    from pyworkers.process import ProcessWorker
    from pyworkers.remote import RemoteWorker
    box = {}

    def body():
        try:
            kw = {'args': list(scn['args']), 'kwargs': dict(scn['kwargs'])}
            if scn['run'] != 'none':
                kw['run'] = scn['run'] == 'true'
            if kind == 'remote':
                kw['host'] = host
            target = None if scn['target_none'] else _call(scn)
            if scn['factory'] == 'create':
                w = Worker.create({'thread': WorkerType.THREAD, 'process': WorkerType.PROCESS, 'remote': WorkerType.REMOTE}[kind], target, **kw)
            else:
                w = {'thread': ThreadWorker, 'process': ProcessWorker, 'remote': RemoteWorker}[kind](target, **kw)
            box['w'] = w
        except BaseException as e:  # noqa
            box['ctor'] = repr(e)
            return
        try:
            if scn.get('waitmode') == 'sliced':
                # a caller waiting in short slices: the first True is the observation of death
                import time
                t0 = time.time()
                box['waited'] = False
                while not box['waited'] and time.time() - t0 < bound - 5:
                    box['waited'] = w.wait(timeout=0.25)
            else:
                box['waited'] = w.wait(timeout=bound - 5)
            box['he'] = w.has_error
            box['res'] = w.result
            box['err'] = w.error
        except BaseException as e:  # noqa
            box['raised'] = repr(e)
    t = threading.Thread(target=body, daemon=True)
    t.start()
    t.join(bound)
    w = box.get('w')
    if 'ctor' in box:
        return {'done': 'ctor_raised', 'detail': box['ctor']}, None
    if t.is_alive() or not box.get('waited'):
        pid = getattr(w, 'pid', None) if kind != 'thread' else None
        if pid and pid != os.getpid():
            try:
                os.kill(pid, 9)
            except OSError:
                pass
        return {'done': 'hung', 'detail': 'wait(%d) did not report a dead worker' % (bound - 5)}, None
    if 'raised' in box:
        return {'done': 'T', 'has_error': 'raised', 'detail': box['raised']}, None
    return {'done': 'T'}, box


def project(d, box, kind_dir, val):
    he = box['he']
    d['has_error'] = 'T' if he is True else 'F' if he is False else 'None' if he is None else 'other'
    res, err = box['res'], box['err']
    d['result_none'] = 'T' if res is None else 'F'
    d['error_none'] = 'T' if err is None else 'F'
    if kind_dir == 'ret':
        try:
            d['result_eq'] = 'T' if (res == val and type(res) is type(val)) else 'F'
        except Exception:  # noqa
            d['result_eq'] = 'F'
        d['error_type_eq'] = d['error_args_eq'] = 'na'
    else:
        d['result_eq'] = 'F'
        d['error_type_eq'] = 'T' if type(err) is type(val) else 'F'
        d['error_args_eq'] = 'T' if getattr(err, 'args', None) == val.args else 'F'
    return d


def fill(d):
    for k in ('has_error', 'result_none', 'error_none', 'result_eq', 'error_type_eq', 'error_args_eq'):
        d.setdefault(k, 'na')
    return d


def main():
    import logging
    logging.disable(logging.CRITICAL)
    scns = json.load(open(sys.argv[1]))
    from pyworkers.remote_server import spawn_server
    os.environ['PYTHONPATH'] = ':'.join([VERIF, REPO] + [p for p in os.environ.get('PYTHONPATH', '').split(':') if p])
    server = spawn_server(('127.0.0.1', 0))
    out = []
    try:
        # a process that has used the persistent factory before (as every Pool does): the one-shot factory must not care
        from pyworkers.persistent import PersistentWorker
        from pyworkers.worker import WorkerType
        for wt, kw in ((WorkerType.THREAD, {}), (WorkerType.PROCESS, {}), (WorkerType.REMOTE, {'host': server.addr})):
            try:
                pw = PersistentWorker.create(wt, V.mod_echo, **kw)
                pw.wait(timeout=10)
            except Exception:  # noqa  (a broken factory shows in the scenarios that use it, judged like any other outcome)
                pass
        for scn in scns:
            if scn['target_none']:
                dkind, val = 'ret', None
            else:
                dkind, val = direct(scn)
            runs = (scn['run'] == 'true') or (scn['run'] == 'none' and not scn['target_none'])
            rec = {'id': scn['id'], 'scn': {'runs': 'T' if (runs and not scn['target_none']) else 'F', 'direct': dkind}, 'obs': {'kinds': {}}, 'meta': scn}
            for kind in scn['kinds']:
                if not server.is_alive():
                    server = spawn_server(('127.0.0.1', 0))
                d, box = run_kind(kind, scn, server.addr)
                if box is not None:
                    if rec['scn']['runs'] == 'F':
                        d['has_error'] = 'T' if box['he'] is True else 'F' if box['he'] is False else 'None'
                        d['result_none'] = 'T' if box['res'] is None else 'F'
                        d['error_none'] = 'T' if box['err'] is None else 'F'
                    else:
                        project(d, box, dkind, val)
                rec['obs']['kinds'][kind] = fill(d)
            out.append(rec)
    finally:
        try:
            server.terminate(timeout=2)
        except Exception:  # noqa
            pass
    json.dump(out, open(sys.argv[2], 'w'))


if __name__ == '__main__':
    main()
    sys.stdout.flush()
    os._exit(0)
