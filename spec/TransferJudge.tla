---------------------------- MODULE TransferJudge ----------------------------
EXTENDS TransferProps, Json, IOUtils, TLC
Recs == JsonDeserialize(IOEnv.REC_FILE)
VARIABLE i
JInit == i \in 1..Len(Recs)
JNext == UNCHANGED i
Chk(name, ok) == ok \/ PrintT(<<"FAIL", Recs[i].id, name>>)
JInv == /\ Chk("C02_Equal", C02_Equal(Recs[i]))
        /\ Chk("C02_NeverHangs", C02_NeverHangs(Recs[i]))
        /\ Chk("C02_KindsAgree", C02_KindsAgree(Recs[i]))
==============================================================================
