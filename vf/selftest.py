"""./check selftest - the machinery checks itself:
 (1) the reduction used by the Pool replay configuration (environment moves only at call-ins, canonical worker order)
     loses no observable outcome: terminal (scn, obs) sets of the reduced and the unreduced model are equal at small constants;
 (2) trace validation binds: a recorded recv() log / pool callback trace with one corrupted field or one dropped event is rejected;
 (3) every reverted fix kept under /verif/mutants/*.diff is reported as VIOLATION by its check (scratch copy, VERIF_REPO)."""
import glob
import json
import os
import re
import shutil
import subprocess
import tempfile

from . import tlc
from .common import REPO, VERIF, sub_scratch


def _pool_terms(**kw):
    from .drivers import pool
    cfg = pool.mc_cfg(Hist='FALSE', **kw)
    cfg = re.sub(r'(?m)^INVARIANT.*\n', '', cfg).replace('CHECK_DEADLOCK FALSE', 'INVARIANT TermDump\nCHECK_DEADLOCK FALSE')
    r = tlc.run('PoolMC', cfg_text=cfg, workers=1, must_complete=False, name='terms', timeout=1800)
    if r.error:
        raise RuntimeError('TLC failed: %s' % r.error)
    return set(x[0] for x in r.tags.get('TERM', []))


def reduction_check():
    bad = 0
    for kw in (dict(W='{1, 2}', N='2', Extra='1', MaxKills='1'), dict(W='{1, 2}', N='3', Extra='0', MaxKills='1', Poison='{2}'),
               dict(W='{1, 2}', N='2', Extra='1', MaxKills='2', Retry='FALSE')):
        full = _pool_terms(Reduced='FALSE', DetOrder='TRUE', **kw)
        red = _pool_terms(Reduced='TRUE', DetOrder='TRUE', **kw)
        ok = full == red
        print('reduction check %s: unreduced %d terminal (scn,obs), reduced %d -> %s' % (kw, len(full), len(red), 'equal' if ok else 'DIFFERENT'))
        if not ok:
            bad += 1
            for x in list(full - red)[:3]:
                print('   lost by the reduction:', x[:300])
    return bad


def framing_binding():
    """a recv() log with one corrupted field / one dropped call must be rejected by FramingTrace"""
    good = {'id': 'good', 'lens': [5, 4], 'cut': 17, 'endk': 'none', 'calls': [[4, 2], [2, 2], [5, 5], [4, 4], [4, 1], [3, 3]], 'outcome': 'done', 'nout': 2}
    corrupt = dict(good, id='corrupt', calls=[[4, 2], [2, 2], [5, 5], [4, 4], [4, 1], [4, 3]])
    dropped = dict(good, id='dropped', calls=[[4, 2], [2, 2], [5, 5], [4, 4], [3, 3]])
    wrongout = dict(good, id='wrongout', outcome='CCE')
    d = sub_scratch('selftest')
    tf = os.path.join(d, 'ft.json')
    json.dump([good, corrupt, dropped, wrongout], open(tf, 'w'))
    cfg = ('INIT TInit\nNEXT TNext\nINVARIANT TAccept\nCONSTANTS\n ReadExact = TRUE\n Hist = TRUE\n ChunkAll = TRUE\n LensSet = {}\nCHECK_DEADLOCK FALSE\n')
    r = tlc.run('FramingTrace', cfg_text=cfg, workers=1, env={'TRACE_FILE': tf}, name='ft')
    acc = set(x[0] for x in r.tags.get('ACCEPT', []))
    print('FramingTrace accepted:', sorted(acc))
    return 0 if acc == {'good'} else 1


def pool_binding():
    from .drivers import pool
    good = {'id': 'good', 'trace': [['enq', 1, 1], ['enq', 2, 2], ['fin', 1, 1], ['fin', 2, 2]], 'outcome': 'ok', 'ret': [1, 2]}
    corrupt = dict(good, id='corrupt', trace=[['enq', 1, 1], ['enq', 2, 2], ['fin', 1, 2], ['fin', 2, 1]], ret=[2, 1])
    dropped = dict(good, id='dropped', trace=[['enq', 1, 1], ['fin', 1, 1], ['fin', 2, 2]])
    d = sub_scratch('selftest')
    tf = os.path.join(d, 'pt.json')
    json.dump([good, corrupt, dropped], open(tf, 'w'))
    cfg = pool.TRACE_CFG % (2, '{}')
    r = tlc.run('PoolTrace', cfg_text=cfg, workers=4, env={'TRACE_FILE': tf}, name='pt', must_complete=False)
    acc = set(x[0] for x in r.tags.get('ACCEPT', []))
    print('PoolTrace accepted:', sorted(acc))
    return 0 if acc == {'good'} else 1


def reverted_fixes():
    bad = 0
    diffs = sorted(glob.glob(os.path.join(VERIF, 'mutants', '*.diff')))
    if os.environ.get('SELFTEST_MUTANTS', 'quick') != 'all':
        diffs = [d for d in diffs if os.path.basename(d).startswith(('C10_', 'C07_'))]
    for diff in diffs:
        prop = os.path.basename(diff).split('_')[0]
        d = tempfile.mkdtemp(prefix='selftest-')
        try:
            subprocess.run(['cp', '-r', REPO + '/.', d], check=True)
            p = subprocess.run(['git', 'apply', diff], cwd=d, capture_output=True, text=True)
            if p.returncode:
                print('reverted fix %s: does not apply any more (%s)' % (os.path.basename(diff), p.stderr.strip()[:100]))
                bad += 1
                continue
            env = dict(os.environ, VERIF_REPO=d)
            try:
                q = subprocess.run([os.path.join(VERIF, 'check'), prop], cwd=VERIF, env=env, capture_output=True, text=True, timeout=1800)
            except subprocess.TimeoutExpired:
                print('reverted fix %s -> check %s did not finish within 1800 s: NOT CAUGHT' % (os.path.basename(diff), prop))
                bad += 1
                continue
            caught = q.returncode == 1 and 'VIOLATION property=%s' % prop in q.stdout
            print('reverted fix %s -> check %s exit %d: %s' % (os.path.basename(diff), prop, q.returncode, 'caught' if caught else 'NOT CAUGHT'))
            bad += 0 if caught else 1
        finally:
            shutil.rmtree(d, True)
    subprocess.run(['git', 'checkout', '--', 'evidence'], cwd=VERIF)
    return bad


def main():
    bad = 0
    bad += reduction_check()
    bad += framing_binding()
    bad += pool_binding()
    bad += reverted_fixes()
    print('selftest: %s' % ('ok' if not bad else '%d problem(s)' % bad))
    return 0 if not bad else 2
