\* The corrected design (proposed_fixes/C13_*.diff, C14_C15_*.diff): private dispatch table seeded
\* from copyreg's, one patch frame per open opt-in object addressed by the serial of its holder.
\* Every property operator is a strict invariant.
INIT MCInit
NEXT Next
CONSTANTS
  Algo = "fixed"
  SeedCopyreg = "live"
  InitGuard = FALSE
  CacheById = FALSE
  KwOnlyOK = TRUE
  SharedCtx = FALSE
  CtxCopy = TRUE
  Scns = {}
INVARIANT TypeOK
INVARIANT Inv_FreshStart
INVARIANT Inv_C13_NonOptInEqualsPickle
INVARIANT Inv_C13_RemoteFalseIsStd
INVARIANT Inv_C13_StdKeepsPlainGetstate
INVARIANT Inv_C13_InconsistentRejected
INVARIANT Inv_C13_SamePath
INVARIANT Inv_C14_Once
INVARIANT Inv_C14_LoadsSucceeds
INVARIANT Inv_C14_Shape
INVARIANT Inv_C14_ViaSetstate
INVARIANT Inv_C15_Delivery
INVARIANT Inv_C15_OnlyAddressed
INVARIANT Inv_C15_Independent
INVARIANT Inv_C15_NoResidue
CHECK_DEADLOCK FALSE
