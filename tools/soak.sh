#!/bin/bash
# usage: tools/soak.sh <tier> <seeds> <checks...> : run checks repeatedly with different seeds, report any non-zero exit / VIOLATION
tier=$1; shift; seeds=$1; shift
for s in $seeds; do
  for c in "$@"; do
    out=$(VERIF_SEED=$s timeout 7200 ./check $c --tier $tier 2>&1); rc=$?
    echo "seed=$s $c rc=$rc $(echo "$out" | grep -c '^VIOLATION') violations, $(echo "$out" | grep -c '^DRIFT') drift lines, $(echo "$out" | grep -c '^KNOWN-FINDING') known"
    if [ $rc -ne 0 ]; then echo "$out" | grep -E -A2 '^(VIOLATION|MACHINERY)' | cut -c1-400 | head -30; fi
    echo "$out" | grep '^DRIFT' | cut -c1-300 | head -3
  done
done
