SPECIFICATION Spec
CONSTANTS
  Fix <- FixAll
  MaxOps = 4
  Free = TRUE
  ReportMeansDead = FALSE
  RemDeadMeansDead = FALSE
  CacheDeadOnFalse = FALSE
  RebuildRaises = FALSE
  StaleAliveAfterKill = FALSE
  HiddenDeadline = FALSE
  Hist = FALSE
  Cases <- FreeCases
INVARIANT TypeOK
INVARIANT Inv_Truthful
INVARIANT Inv_DeadFast
INVARIANT Inv_Force
INVARIANT Inv_Stable
INVARIANT Inv_Returns
INVARIANT Inv_NoSelfKill
PROPERTY Live_Returns
CHECK_DEADLOCK FALSE
