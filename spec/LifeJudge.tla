------------------------------ MODULE LifeJudge ------------------------------
(* TLC as the judge of real worker lives (C01, C03, C06, C16 operators of LifeProps). *)
EXTENDS LifeProps, Json, IOUtils, TLC
Recs == JsonDeserialize(IOEnv.REC_FILE)
VARIABLE i
JInit == i \in 1..Len(Recs)
JNext == UNCHANGED i
Chk(name, ok) == ok \/ PrintT(<<"FAIL", Recs[i].id, name>>)
JInv == /\ Chk("C01_Definite", C01_Definite(Recs[i]))
        /\ Chk("C01_Shape", C01_Shape(Recs[i]))
        /\ Chk("C01_Stable", C01_Stable(Recs[i]))
        /\ Chk("C01_Undisturbed", C01_Undisturbed(Recs[i]))
        /\ Chk("C03_DeadInTime", C03_DeadInTime(Recs[i]))
        /\ Chk("C03_Reported", C03_Reported(Recs[i]))
        /\ Chk("C03_OwnOutcome", C03_OwnOutcome(Recs[i]))
        /\ Chk("C03_NothingElse", C03_NothingElse(Recs[i]))
        /\ Chk("C03_AfterFinish", C03_AfterFinish(Recs[i]))
        /\ Chk("C03_BeforeStart", C03_BeforeStart(Recs[i]))
        /\ Chk("C06_Prefix", C06_Prefix(Recs[i]))
        /\ Chk("C06_Ends", C06_Ends(Recs[i]))
        /\ Chk("C06_All", C06_All(Recs[i]))
        /\ Chk("C16_SyncedAtEnd", C16_SyncedAtEnd(Recs[i]))
        /\ Chk("C16_InitialWhileAlive", C16_InitialWhileAlive(Recs[i]))
        /\ Chk("C16_SetterRejected", C16_SetterRejected(Recs[i]))
        /\ Chk("C16_InitialWhileLingering", C16_InitialWhileLingering(Recs[i]))
        /\ Chk("C16_RestartFrom", C16_RestartFrom(Recs[i]))
==============================================================================
