SPECIFICATION Spec
CONSTANTS
  MaxKids = 3
  KidStates <- States_all
  Racers <- Racers_all
  CtxTerm = TRUE
  DupTerm = TRUE
  ParentKill = TRUE
  ClearFirst = FALSE
  NarrowExcept = FALSE
  NoAckWait = FALSE
  CacheDead = FALSE
INVARIANT TypeOK
PROPERTY Live_Reaped
CHECK_DEADLOCK FALSE
