#!/bin/bash
# usage: tools/try_mutant.sh <patch.diff> <Cxx> [<Cyy> ...]   - run checks against a scratch copy of /repo with the patch applied
set -u
patch=$(readlink -f "$1"); shift
d=$(mktemp -d /tmp/mut-XXXXXX)
cp -r /repo/. "$d"/ && cd "$d" && git apply "$patch" || { echo "PATCH DOES NOT APPLY"; rm -rf "$d"; exit 3; }
cd /verif
for c in "$@"; do
  echo "== $c on mutant $(basename $patch)"
  VERIF_REPO="$d" timeout 1500 ./check "$c" 2>&1 | grep -E '^(VIOLATION|  what|KNOWN|DRIFT|MACHINERY)' | cut -c1-300 | head -12
  echo "rc=${PIPESTATUS[0]}"
done
rm -rf "$d"
git -C /verif checkout -- evidence 2>/dev/null
