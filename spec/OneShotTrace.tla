---------------------------- MODULE OneShotTrace ----------------------------
(* code -> spec: the control flow of the REAL child run loops (thread.py _run, process.py _run, remote.py         *)
(* _run_backend) is recorded by the in-child agent as line events, projected (from the AST of the current tree,     *)
(* never from line numbers) to the tokens                                                                            *)
(*    "work"      the run loop calls do_work()            "handler" / "finally"    it enters the except / finally     *)
(*    "ohandler" / "ofinally"   (remote) the outer except / finally block                                            *)
(*    "LAND"      the asynchronous WorkerTerminatedError surfaces here      "KILL"   SIGKILL here                    *)
(* and every recorded token sequence must be produced by some behaviour of OneShot.tla for the same (Kind,           *)
(* Persistent, Ending, Items): the label-to-label moves of ChildStep / Land / Kill emit the same tokens.  Tracing   *)
(* stops at LAND / KILL (an exception leaving the trace function switches tracing off), so a trace with a fault is   *)
(* a prefix; a trace without one runs to the child's exit.                                                           *)
EXTENDS OneShot, Json, IOUtils
Traces == JsonDeserialize(IOEnv.TRACE_FILE)
VARIABLES tid, l, stopped
T == Traces[tid].toks

InitLabels == {"t_try", "t_init", "c_init", "b_init"}
Emit(a, b) == IF a = b THEN <<>>
              ELSE IF b \in {"work", "l_recv"} /\ a \in InitLabels THEN <<"work">>
              ELSE IF b \in {"h_log", "ih_log"} THEN <<"handler">>
              ELSE IF b \in {"f_cleanup", "if_rel"} /\ a \notin {"f_cleanup", "if_rel"} THEN <<"finally">>
              ELSE IF b = "oh_store" THEN <<"ohandler">>
              ELSE IF b = "of_cleanup" THEN <<"ofinally">>
              ELSE <<>>
IsLand == asyncPend /\ ~asyncPend'
IsKill == nkill' > nkill
Toks == IF IsLand THEN <<"LAND">> ELSE IF IsKill THEN <<"KILL">> ELSE Emit(cpc, cpc')

TInit == Init /\ tid \in 1..Len(Traces) /\ l = 1 /\ stopped = FALSE
TNext == /\ Next
         /\ UNCHANGED tid
         /\ IF stopped THEN UNCHANGED <<l, stopped>>
            ELSE /\ l + Len(Toks) - 1 <= Len(T)
                 /\ \A k \in 1..Len(Toks) : T[l + k - 1] = Toks[k]
                 /\ l' = l + Len(Toks)
                 /\ stopped' = (IsLand \/ IsKill)
\* the whole recorded sequence was produced; without a fault the child also reached its exit
Accepted == /\ l = Len(T) + 1
            /\ (stopped \/ cpc = "exit")
            /\ (Traces[tid].fault = "none" => ~stopped)
TAccept == Accepted => PrintT(<<"ACCEPT", Traces[tid].id>>)
=============================================================================
