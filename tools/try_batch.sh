#!/bin/bash
# usage: tools/try_batch.sh <worktree-prefix e.g. /tmp/wt3-> <Cxx> [<Cyy> ...]  - both seeded changes of each property against its check (4 in parallel)
pre=$1; shift
run() { p=$1; n=$2; /verif/tools/try_mutant.sh ${pre}$p/seeded/$n/patch.diff $p > /tmp/try.$p.$n.log 2>&1; v=$(grep -c '^VIOLATION' /tmp/try.$p.$n.log); rc=$(grep -o 'rc=[0-9]*' /tmp/try.$p.$n.log | tail -1); echo "$p-$n $rc violations=$v $(grep -m1 -E 'MACHINERY|DOES NOT APPLY' /tmp/try.$p.$n.log | cut -c1-200)"; }
export -f run; export pre
for p in "$@"; do for n in 1 2; do echo "$p $n"; done; done | xargs -P 4 -n 2 bash -c 'run $0 $1'
