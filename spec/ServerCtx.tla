----------------------------- MODULE ServerCtx -----------------------------
(* The context table of pyworkers.remote_server.RemoteServer.run and its helper processes *)
(* (pyworkers.remote_context), driven by a sequential client that plays a history of       *)
(* requests; one action per critical section of the server:                                 *)
(*   create  : the context object - and with it a NEW helper process - is built by          *)
(*             unpickling the request (CreateUnpickle) BEFORE the duplicate test            *)
(*             (CreateCheck); duplicate => reply False (client: ValueError), the helper     *)
(*             just built is an orphan outside the table                                    *)
(*   delete  : contexts.pop(id) (DeletePop); unknown => reply True; otherwise wait 5 s      *)
(*             for the helper, else terminate it (DeleteWait): the helper's clean-up        *)
(*             terminates the workers it started; reply True                                *)
(*   start   : worker request naming a context: lookup (StartLookup); unknown =>            *)
(*             `continue` - no reply (the socket is closed since 6c35f4a); known => the socket is *)
(*             forwarded to the helper, which unpickles the worker with ITS target /         *)
(*             args / kwargs patched in and runs the handshake (StartForward)               *)
(*   call    : enqueue + next_result on a worker (WCall);  wait : close + wait (WWait)      *)
(*   busy    : enqueue a job that is ONE long blocking call (WBusy): the worker does not see  *)
(*             a termination request until it returns - it has to be waited out and killed    *)
(* Delete has two paths.  The helper's clean-up terminates its workers one by one and spends   *)
(* 1 s on every busy one; the server waits 5 s for the helper (`Patience` busy workers fit in)  *)
(* and then terminates it (SIGTERM): the helper's SIGTERM handler kills the workers it has not  *)
(* reached yet (DeleteForced).  Mutant switch HandlerKills = FALSE (TLC must reject it): the     *)
(* handler kills nothing - the workers after the cut outlive the deleted context.                *)
(* Profile = "manybusy" scripts the history create, MaxW x start, MaxW x busy, delete (then free) *)
(* so that the forced path is reached with the real Patience (4) and 7 workers.                  *)
(* The abstract side (dict, aw) is the dictionary model of the property; `want` is the      *)
(* reply the dictionary model gives to the current request.  Refinement invariants compare  *)
(* the two after every request; with Hist = TRUE the history is kept and the record          *)
(* operators of ServerProps are evaluated on Rec (and histories are dumped for replay).      *)
(* Mutant switches (TLC must reject them): PopOnDelete = FALSE (delete forgets the pop),    *)
(* DupCheck = FALSE (a duplicate registration overwrites the first).                         *)
EXTENDS Naturals, Sequences, FiniteSets, TLC, ServerProps

CONSTANTS Ids,          \* context ids used by the client (subset of 1..3)
          MaxLen,       \* length of the request history
          MaxW,         \* number of workers the client may start
          Hist,         \* keep the history (path dump / record operators)
          PopOnDelete, DupCheck,
          Patience,     \* busy workers the helper can wait out before the server gives up on it
          HandlerKills, \* the helper's SIGTERM handler kills the workers of the context
          Profile,      \* "free" | "manybusy"
          AliasDefaults,\* mutant (TLC must reject it): the worker updates ONE dict of defaults for every input, so a per-input
                        \* keyword sticks to all later inputs
          CutDeletes,   \* mutant (TLC must reject it): a context request whose connection is dropped after the header is taken for
                        \* a delete of that id
          ShutdownFirst \* mutant (TLC must reject it): the unknown-context branch calls shutdown() before close(): OSError(ENOTCONN)
                        \* out of the accept loop when that client has already been reset

VARIABLES n, phase, req, rep, want, cur,
          table,        \* id -> helper index (0 = not registered)       [server: self.contexts]
          hp, nh,       \* helper processes ever built: index -> [id, tok, st]
          wk, nw,       \* workers: index -> [h, st, tok]   st: "none" "alive" "busy" "dead" "done"
          gen,          \* id -> number of create requests so far (tokens are 10*id + gen: unique)
          dict, aw,     \* the dictionary model: id -> tok in force; worker -> [tok, live]
          srv,          \* "up" | "crashed"
          hist, reps, lives
vars == <<n, phase, req, rep, want, cur, table, hp, nh, wk, nw, gen, dict, aw, srv, hist, reps, lives>>

Workers == 1..MaxW
NoReq == [op |-> "none", id |-> 0, tok |-> 0, w |-> 0, x |-> 0, k |-> "-"]

Init == /\ n = 0 /\ phase = "idle" /\ req = NoReq /\ rep = "-" /\ want = "-" /\ cur = 0
        /\ table = [i \in 1..3 |-> 0]
        /\ hp = [h \in 1..MaxLen |-> [id |-> 0, tok |-> 0, st |-> "none"]] /\ nh = 0
        /\ wk = [w \in Workers |-> [h |-> 0, st |-> "none", tok |-> 0, ovr |-> 0]] /\ nw = 0
        /\ gen = [i \in 1..3 |-> 0]
        /\ dict = [i \in 1..3 |-> NoTok]
        /\ aw = [w \in Workers |-> [tok |-> NoTok, live |-> FALSE, ctx |-> 0]]
        /\ srv = "up" /\ hist = <<>> /\ reps = <<>> /\ lives = <<>>

-----------------------------------------------------------------------------
(* the client issues the next request of the history; `want` = the dictionary model's reply *)
Known(i) == IF table[i] # 0 THEN "T" ELSE "F"
Requests ==
   {[op |-> "create", id |-> i, tok |-> 10 * i + gen[i] + 1, w |-> 0, x |-> 0, k |-> Known(i)] : i \in Ids}
   \cup {[op |-> "delete", id |-> i, tok |-> 0, w |-> 0, x |-> 0, k |-> Known(i)] : i \in Ids}
   \cup {[op |-> "start", id |-> i, tok |-> 0, w |-> nw + 1, x |-> 0, k |-> Known(i)] : i \in {j \in Ids : nw < MaxW}}
   \cup {[op |-> o, id |-> 0, tok |-> 0, w |-> w, x |-> w + n, k |-> "-"] : o \in {"call", "wait"}, w \in {v \in Workers : wk[v].st \in {"alive", "dead"}}}
   \cup {[op |-> "busy", id |-> 0, tok |-> 0, w |-> w, x |-> 0, k |-> "-"] : w \in {v \in Workers : wk[v].st = "alive"}}
   \cup {[op |-> "callk", id |-> 0, tok |-> 0, w |-> w, x |-> w + n, k |-> "-"] : w \in {v \in Workers : wk[v].st = "alive"}}
   \cup {[op |-> "rstart", id |-> i, tok |-> 0, w |-> 0, x |-> 0, k |-> Known(i)] : i \in Ids}
   \cup {[op |-> "cut", id |-> i, tok |-> 0, w |-> 0, x |-> 0, k |-> Known(i)] : i \in Ids}
Lowest(S) == CHOOSE w \in S : \A v \in S : w <= v
Idlers == {v \in Workers : wk[v].st = "alive"}
Scripted ==
   IF n = 0 THEN {[op |-> "create", id |-> 1, tok |-> 11, w |-> 0, x |-> 0, k |-> "F"]}
   ELSE IF table[1] # 0 /\ gen[1] = 1 /\ nw < MaxW THEN {[op |-> "start", id |-> 1, tok |-> 0, w |-> nw + 1, x |-> 0, k |-> "T"]}
   ELSE IF table[1] # 0 /\ gen[1] = 1 /\ Idlers # {} THEN {[op |-> "busy", id |-> 0, tok |-> 0, w |-> Lowest(Idlers), x |-> 0, k |-> "-"]}
   ELSE IF table[1] # 0 /\ gen[1] = 1 THEN {[op |-> "delete", id |-> 1, tok |-> 0, w |-> 0, x |-> 0, k |-> "T"]}
   ELSE Requests
AbstractReply(q) ==
   CASE q.op = "create" -> IF dict[q.id] = NoTok THEN "ok" ELSE "ValueError"
     [] q.op = "delete" -> "T"
     [] q.op = "start"  -> IF dict[q.id] = NoTok THEN "nostart" ELSE "started"
     [] q.op = "call"   -> IF aw[q.w].live THEN Val(CtxTarget(q.x, aw[q.w].tok)) ELSE "dead"
     [] q.op = "callk"  -> IF aw[q.w].live THEN Val(CtxTarget(q.x, OverrideTok)) ELSE "dead"
     [] q.op = "rstart" -> "nostart"
     [] q.op = "cut"    -> "dropped"
     [] q.op = "busy"   -> "queued"
     [] OTHER           -> "T"
FirstPhase(q) == CASE q.op = "create" -> "c_unpickle" [] q.op = "delete" -> "d_pop" [] q.op = "start" -> "s_lookup"
                   [] q.op = "call" -> "w_call" [] q.op = "busy" -> "w_busy" [] q.op = "callk" -> "w_callk"
                   [] q.op = "rstart" -> "r_lookup" [] q.op = "cut" -> "x_cut" [] OTHER -> "w_wait"
Issue == /\ phase = "idle" /\ n < MaxLen /\ srv = "up"
         /\ \E q \in (IF Profile = "manybusy" THEN Scripted ELSE Requests) : req' = q /\ want' = AbstractReply(q) /\ phase' = FirstPhase(q)
         /\ UNCHANGED <<n, rep, cur, table, hp, nh, wk, nw, gen, dict, aw, srv, hist, reps, lives>>

\* the request completes with reply v; the dictionary model takes its step; history kept if Hist
AliveSeq(wkn) == SelectSeq([k \in Workers |-> k], LAMBDA k : wkn[k].st \in {"alive", "busy"})
Reply(v, wkn) ==
   /\ rep' = v /\ phase' = "idle" /\ n' = n + 1
   /\ dict' = IF req.op = "create" /\ dict[req.id] = NoTok THEN [dict EXCEPT ![req.id] = req.tok]
              ELSE IF req.op = "delete" THEN [dict EXCEPT ![req.id] = NoTok] ELSE dict
   /\ aw' = CASE req.op = "start" /\ dict[req.id] # NoTok -> [aw EXCEPT ![req.w] = [tok |-> dict[req.id], live |-> TRUE, ctx |-> req.id]]
              [] req.op = "wait" -> [aw EXCEPT ![req.w].live = FALSE]
              [] req.op = "delete" -> [w \in Workers |-> IF aw[w].ctx = req.id THEN [aw[w] EXCEPT !.live = FALSE] ELSE aw[w]]
              [] OTHER -> aw
   /\ IF Hist
      THEN /\ hist' = Append(hist, req) /\ reps' = Append(reps, v)
           /\ lives' = Append(lives, IF req.op = "delete" THEN AliveSeq(wkn) ELSE <<>>)
      ELSE UNCHANGED <<hist, reps, lives>>

CreateUnpickle ==
   /\ phase = "c_unpickle"
   /\ nh' = nh + 1 /\ hp' = [hp EXCEPT ![nh + 1] = [id |-> req.id, tok |-> req.tok, st |-> "alive"]]
   /\ gen' = [gen EXCEPT ![req.id] = @ + 1]
   /\ phase' = "c_check"
   /\ UNCHANGED <<n, req, rep, want, cur, table, wk, nw, dict, aw, srv, hist, reps, lives>>
CreateCheck ==
   /\ phase = "c_check"
   /\ IF DupCheck /\ table[req.id] # 0
      THEN Reply("ValueError", wk) /\ UNCHANGED table            \* helper nh stays behind as an orphan
      ELSE table' = [table EXCEPT ![req.id] = nh] /\ Reply("ok", wk)
   /\ UNCHANGED <<req, want, cur, hp, nh, wk, nw, gen, srv>>

DeletePop ==
   /\ phase = "d_pop"
   /\ cur' = table[req.id]
   /\ table' = IF PopOnDelete THEN [table EXCEPT ![req.id] = 0] ELSE table
   /\ IF table[req.id] = 0 THEN Reply("T", wk)
      ELSE phase' = "d_wait" /\ UNCHANGED <<n, rep, dict, aw, hist, reps, lives>>
   /\ UNCHANGED <<req, want, hp, nh, wk, nw, gen, srv>>
Running(w) == wk[w].st \in {"alive", "busy"}
EndWorkersOf(h) == [w \in Workers |-> IF wk[w].h = h /\ Running(w) THEN [wk[w] EXCEPT !.st = "dead"] ELSE wk[w]]
BusyOf(h) == {w \in Workers : wk[w].h = h /\ wk[w].st = "busy"}
Forced(h) == Cardinality(BusyOf(h)) > Patience
\* the busy worker the helper is waiting for when the server's patience ends
CutW(h) == CHOOSE w \in BusyOf(h) : Cardinality({v \in BusyOf(h) : v < w}) = Patience
DeleteWait ==          \* the helper is released and finishes its clean-up within the server's 5 s: every worker terminated
   /\ phase = "d_wait" /\ ~Forced(cur)
   /\ hp' = [hp EXCEPT ![cur].st = "dead"]
   /\ wk' = EndWorkersOf(cur)
   /\ Reply("T", EndWorkersOf(cur))
   /\ UNCHANGED <<req, want, cur, table, nh, nw, gen, srv>>
\* the clean-up overruns: the workers before the cut are terminated by the clean-up, then the server SIGTERMs the
\* helper, whose handler kills the rest
AfterForced(h) == [w \in Workers |-> IF wk[w].h = h /\ Running(w) /\ (HandlerKills \/ w < CutW(h))
                                      THEN [wk[w] EXCEPT !.st = "dead"] ELSE wk[w]]
DeleteForced ==
   /\ phase = "d_wait" /\ Forced(cur)
   /\ hp' = [hp EXCEPT ![cur].st = "dead"]
   /\ wk' = AfterForced(cur)
   /\ Reply("T", AfterForced(cur))
   /\ UNCHANGED <<req, want, cur, table, nh, nw, gen, srv>>

StartLookup ==
   /\ phase = "s_lookup"
   /\ nw' = nw + 1
   /\ IF table[req.id] = 0 THEN Reply("nostart", wk)             \* `continue`: no reply, no close
      ELSE phase' = "s_forward" /\ UNCHANGED <<n, rep, dict, aw, hist, reps, lives>>
   /\ UNCHANGED <<req, want, cur, table, hp, nh, wk, gen, srv>>
StartForward ==
   /\ phase = "s_forward"
   /\ LET h == table[req.id] IN
      IF hp[h].st = "alive"
      THEN /\ wk' = [wk EXCEPT ![req.w] = [h |-> h, st |-> "alive", tok |-> hp[h].tok, ovr |-> 0]]
           /\ Reply("started", [wk EXCEPT ![req.w] = [h |-> h, st |-> "alive", tok |-> hp[h].tok, ovr |-> 0]])
           /\ UNCHANGED srv
      ELSE /\ srv' = "crashed" /\ Reply("hang", wk) /\ UNCHANGED wk    \* ctx.call on a dead helper raises in the accept loop
   /\ UNCHANGED <<req, want, cur, table, hp, nh, nw, gen>>

\* the worker merges the input into a COPY of the context's defaults (mutant: into the one dict it keeps)
DefaultOf(w) == IF wk[w].ovr # 0 THEN wk[w].ovr ELSE wk[w].tok
WCall ==
   /\ phase = "w_call"
   /\ Reply(IF wk[req.w].st = "alive" THEN Val(CtxTarget(req.x, DefaultOf(req.w))) ELSE "dead", wk)
   /\ UNCHANGED <<req, want, cur, table, hp, nh, wk, nw, gen, srv>>
WCallK ==
   /\ phase = "w_callk"
   /\ LET wkn == IF AliasDefaults /\ wk[req.w].st = "alive" THEN [wk EXCEPT ![req.w].ovr = OverrideTok] ELSE wk IN
      /\ wk' = wkn
      /\ Reply(IF wk[req.w].st = "alive" THEN Val(CtxTarget(req.x, OverrideTok)) ELSE "dead", wkn)
   /\ UNCHANGED <<req, want, cur, table, hp, nh, nw, gen, srv>>
\* a worker request whose client has been reset before the server reads it: unknown context -> close() and continue;
\* known -> the helper's handshake fails at once (no worker)
RLookup ==
   /\ phase = "r_lookup"
   /\ srv' = IF ShutdownFirst /\ table[req.id] = 0 THEN "crashed" ELSE srv
   /\ Reply("nostart", wk)
   /\ UNCHANGED <<req, want, cur, table, hp, nh, wk, nw, gen>>
\* header (id, False) of a context request, then the connection ends: ConnectionClosedError in the payload recv -> `continue`
XCut ==
   /\ phase = "x_cut"
   /\ LET h == table[req.id]  gone == CutDeletes /\ h # 0 IN
      /\ table' = IF gone THEN [table EXCEPT ![req.id] = 0] ELSE table
      /\ hp' = IF gone THEN [hp EXCEPT ![h].st = "dead"] ELSE hp
      /\ wk' = IF gone THEN EndWorkersOf(h) ELSE wk
      /\ Reply("dropped", IF gone THEN EndWorkersOf(h) ELSE wk)
   /\ UNCHANGED <<req, want, cur, nh, nw, gen, srv>>
WBusy ==               \* the job is queued and the worker enters its blocking call
   /\ phase = "w_busy"
   /\ wk' = [wk EXCEPT ![req.w].st = "busy"]
   /\ Reply("queued", [wk EXCEPT ![req.w].st = "busy"])
   /\ UNCHANGED <<req, want, cur, table, hp, nh, nw, gen, srv>>
WWait ==
   /\ phase = "w_wait"
   /\ wk' = [wk EXCEPT ![req.w].st = "done"]
   /\ Reply("T", [wk EXCEPT ![req.w].st = "done"])
   /\ UNCHANGED <<req, want, cur, table, hp, nh, nw, gen, srv>>

\* an orphan helper (built for a refused duplicate) goes away when its object is collected - if ever
Collect == /\ \E h \in 1..nh : /\ hp[h].st = "alive" /\ \A i \in 1..3 : table[i] # h
                              /\ (phase # "c_check" \/ h # nh)
                              /\ hp' = [hp EXCEPT ![h].st = "dead"]
           /\ UNCHANGED <<n, phase, req, rep, want, cur, table, nh, wk, nw, gen, dict, aw, srv, hist, reps, lives>>

Next == Issue \/ CreateUnpickle \/ CreateCheck \/ DeletePop \/ DeleteWait \/ DeleteForced \/ StartLookup \/ StartForward \/ WCall \/ WCallK \/ RLookup \/ XCut \/ WBusy \/ WWait \/ Collect
Spec == Init /\ [][Next]_vars /\ WF_vars(Next)

-----------------------------------------------------------------------------
Idle == phase = "idle"
TypeOK == /\ phase \in {"idle", "c_unpickle", "c_check", "d_pop", "d_wait", "s_lookup", "s_forward", "w_call", "w_callk", "r_lookup", "x_cut", "w_busy", "w_wait"}
          /\ n \in 0..MaxLen /\ nh \in 0..MaxLen /\ nw \in 0..MaxW /\ srv \in {"up", "crashed"}
          /\ \A i \in 1..3 : table[i] \in 0..nh
\* refinement: the implementation's table, seen through the helpers' tokens, IS the dictionary
Ref_Table == Idle => [i \in 1..3 |-> IF table[i] = 0 THEN NoTok ELSE hp[table[i]].tok] = dict
\* every reply is the dictionary model's reply
Ref_Reply == (Idle /\ n > 0) => rep = want
\* workers: alive exactly when the model says so, and they carry the token of the registration in force at their start
Ref_Workers == Idle => \A w \in Workers : /\ aw[w].live <=> wk[w].st \in {"alive", "busy"}
                                          /\ aw[w].live => aw[w].tok = wk[w].tok
Ref_ServerUp == srv = "up"
\* a registered context always has a live helper
Ref_HelperAlive == Idle => \A i \in 1..3 : table[i] # 0 => hp[table[i]].st = "alive"

Rec == [scn |-> [hist |-> hist],
        obs |-> [rep |-> reps, live |-> lives, srv_alive |-> IF srv = "up" THEN "T" ELSE "F",
                 fresh |-> << [got |-> IF srv = "up" THEN "v:1" ELSE "hang", want |-> "v:1"] >>]]
Inv_Table     == Idle => C18_Table(Rec)
Inv_Duplicate == Idle => C18_DuplicateRejected(Rec)
Inv_First     == Idle => C18_FirstIntact(Rec)
Inv_Target    == Idle => C18_WorkersRunCtxTarget(Rec)
Inv_Delete    == Idle => C18_DeleteEndsWorkers(Rec)
Inv_Reusable  == Idle => C18_Reusable(Rec)
Inv_Unknown   == Idle => C18_UnknownHarmless(Rec)

\* ---- witnesses (expected to be violated) ----
W_NoDuplicate   == ~(phase = "c_check" /\ table[req.id] # 0)
W_NoOrphan      == ~(\E h \in 1..nh : hp[h].st = "alive" /\ \A i \in 1..3 : table[i] # h /\ Idle)
W_NoReuse       == ~(phase = "c_check" /\ table[req.id] = 0 /\ gen[req.id] > 1)
W_NoUnknownStart == ~(phase = "s_lookup" /\ table[req.id] = 0)
W_NoUnknownDelete == ~(phase = "d_pop" /\ table[req.id] = 0)
W_NoDeleteWithWorkers == ~(phase = "d_wait" /\ \E w \in Workers : wk[w].h = cur /\ wk[w].st = "alive")
W_NoPlainAfterKeyword == ~(phase = "w_call" /\ wk[req.w].st = "alive" /\ \E m \in 1..Len(hist) : hist[m].op = "callk" /\ hist[m].w = req.w)
W_NoCutKnown == ~(phase = "x_cut" /\ table[req.id] # 0 /\ \E w \in Workers : wk[w].h = table[req.id] /\ wk[w].st = "alive")
W_NoResetUnknown == ~(phase = "r_lookup" /\ table[req.id] = 0)
W_NoForcedDelete == ~(phase = "d_wait" /\ Forced(cur))
W_NoBusyRegular  == ~(phase = "d_wait" /\ ~Forced(cur) /\ BusyOf(cur) # {})
W_NoCallAfterDup == ~(phase = "w_call" /\ wk[req.w].st = "alive" /\ gen[hp[wk[req.w].h].id] > 1 /\ hp[wk[req.w].h].tok % 10 = 1)
W_NoTwoContexts  == ~(Cardinality({i \in 1..3 : table[i] # 0}) >= 2)
=============================================================================
