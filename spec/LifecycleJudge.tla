--------------------------- MODULE LifecycleJudge ---------------------------
(* TLC as the judge of real executions: the C04 operators on records projected from      *)
(* histories run on real thread / process / remote workers.  One FAIL line per failing    *)
(* (record, clause, call index).                                                          *)
EXTENDS LifecycleProps, Json, IOUtils, TLC
Recs == JsonDeserialize(IOEnv.REC_FILE)
VARIABLE i
JInit == i \in 1..Len(Recs)
JNext == UNCHANGED i
R == Recs[i]
Chk(name, k, ok) == ok \/ PrintT(<<"FAIL", R.id, name \o "@" \o ToString(k)>>)
JInv == \A k \in 1..Len(R.obs.calls) :
          LET c == R.obs.calls[k] IN
          /\ Chk("C04_Returns", k, ReturnsC(R, c))
          /\ Chk("C04_Truthful", k, TruthfulC(R, c))
          /\ Chk("C04_DeadFast", k, DeadFastC(R, c))
          /\ Chk("C04_Force", k, ForceC(R, c))
          /\ Chk("C04_Stable", k, StableC(R, c))
=============================================================================
