------------------------------ MODULE Framing ------------------------------
(* send_msg / recv_msg of pyworkers/remote.py over a byte stream.                      *)
(* Sender: header (4 bytes, big-endian length) + body, written atomically (sendall).    *)
(* Transport: hands the receiver any 1..min(n, available) bytes per recv(n); the stream *)
(* may end (FIN: recv returns b''; RST: recv raises ConnectionResetError) at any        *)
(* offset `cut`.                                                                        *)
(* Receiver, one action per recv() call:                                                *)
(*   ReadExact = TRUE  : current code - header and body are both read with a loop that  *)
(*                       asks for the bytes still missing and treats b'' as end of      *)
(*                       stream (ConnectionClosedError).                                *)
(*   ReadExact = FALSE : the receiver before the fix - ONE recv(4) for the header (a    *)
(*                       short read raises struct.error -> ConnectionClosedError) and   *)
(*                       a body loop without an end-of-stream test (b'' changes         *)
(*                       nothing: the loop spins forever - outcome "spin").             *)
EXTENDS Naturals, Sequences, FiniteSets, TLC, FramingProps

CONSTANTS ReadExact, LensSet, Hist, ChunkAll

VARIABLES lens, cut, endk,        \* scenario
          pos,                    \* bytes handed to the receiver so far
          rpc, got, need, msg,    \* receiver: "hdr" | "body" | "done" | "CCE" | "spin"
          out,                    \* messages delivered to the caller
          calls,                  \* number of recv() calls
          segs                    \* history of <<requested, returned>> (only if Hist)
vars == <<lens, cut, endk, pos, rpc, got, need, msg, out, calls, segs>>

Min(a, b) == IF a < b THEN a ELSE b

\* truncation offsets: all of them, or (long streams) the ones around every header/body boundary
Cuts(ls) == IF ChunkAll THEN 0..Total(ls)
            ELSE {c \in UNION {{SumTo(ls, k) + d : d \in {0, 1, 3, 4, 5}} \cup {SumTo(ls, k) + 4 + ls[k + 1] \div 2} : k \in 0..(Len(ls) - 1)}
                        \cup {Total(ls) - 1, Total(ls)} : c <= Total(ls)}
Init == /\ lens \in LensSet
        /\ cut \in Cuts(lens)
        /\ endk \in (IF cut = Total(lens) THEN {"none"} ELSE {"fin", "rst"})
        /\ pos = 0 /\ rpc = "hdr" /\ got = 0 /\ need = 0 /\ msg = 1
        /\ out = <<>> /\ calls = 0 /\ segs = <<>>

\* what a recv(n) may return: "k" bytes, or 0 (FIN) or -1 (RST) once the stream has ended
Sizes(n) == LET a == Min(n, cut - pos) IN
            IF ChunkAll THEN 1..a ELSE {1, a} \cup {k \in {a \div 2, a - 1} : k >= 1}
Log(n, k) == /\ calls' = calls + 1
             /\ segs' = IF Hist THEN Append(segs, <<n, k>>) ELSE segs

Deliver == /\ out' = Append(out, msg)
           /\ msg' = msg + 1
           /\ got' = 0
           /\ rpc' = IF msg = Len(lens) THEN "done" ELSE "hdr"

\* RST is represented by the value 5000 (TLC naturals; no negative numbers needed)
RST == 5000
Ret(n) == IF pos < cut THEN Sizes(n) ELSE IF endk = "fin" THEN {0} ELSE IF endk = "rst" THEN {RST} ELSE {}

HdrReq == IF ReadExact THEN 4 - got ELSE 4
HdrStep(n, k) ==
   /\ rpc = "hdr" /\ n = HdrReq
   /\ Log(n, k)
   /\ IF k = RST \/ k = 0 \/ (~ReadExact /\ k < 4)
      THEN /\ rpc' = "CCE" /\ pos' = (IF k = RST \/ k = 0 THEN pos ELSE pos + k)
           /\ UNCHANGED <<got, need, msg, out>>
      ELSE /\ pos' = pos + k
           /\ IF got + k = 4 \/ ~ReadExact
              THEN IF lens[msg] = 0
                   THEN Deliver /\ need' = 0
                   ELSE rpc' = "body" /\ need' = lens[msg] /\ got' = 4 /\ UNCHANGED <<msg, out>>
              ELSE got' = got + k /\ UNCHANGED <<rpc, need, msg, out>>
   /\ UNCHANGED <<lens, cut, endk>>

BodyStep(n, k) ==
   /\ rpc = "body" /\ n = need
   /\ Log(n, k)
   /\ IF k = RST THEN rpc' = "CCE" /\ UNCHANGED <<pos, got, need, msg, out>>
      ELSE IF k = 0
      THEN /\ rpc' = (IF ReadExact THEN "CCE" ELSE "spin")
           /\ UNCHANGED <<pos, got, need, msg, out>>
      ELSE /\ pos' = pos + k
           /\ IF k = need THEN Deliver /\ need' = 0
              ELSE need' = need - k /\ UNCHANGED <<rpc, got, msg, out>>
   /\ UNCHANGED <<lens, cut, endk>>

RecvHdr  == \E k \in Ret(HdrReq) : HdrStep(HdrReq, k)
RecvBody == \E k \in Ret(need) : BodyStep(need, k)

Next == RecvHdr \/ RecvBody
Spec == Init /\ [][Next]_vars /\ WF_vars(Next)

Terminal == rpc \in {"done", "CCE", "spin"}
Rec == [scn |-> [lens |-> lens, cut |-> cut, endk |-> endk],
        obs |-> [msgs |-> out, outcome |-> rpc, calls |-> calls]]

TypeOK == /\ pos <= cut /\ got \in 0..4 /\ msg \in 1..(Len(lens) + 1)
          /\ rpc \in {"hdr", "body", "done", "CCE", "spin"}
Inv_Roundtrip == Terminal => C10_Roundtrip(Rec)
Inv_NoPartial == C10_NoPartial(Rec)
Inv_Detects   == Terminal => C10_Detects(Rec)
Inv_Prompt    == Terminal => C10_Prompt(Rec)
Live_Prompt   == <>Terminal
\* position arithmetic: what was delivered is exactly what was consumed
Inv_Position  == pos = SumTo(lens, msg - 1) + (IF rpc = "body" THEN 4 + (lens[msg] - need) ELSE IF rpc = "hdr" THEN got ELSE pos - SumTo(lens, msg - 1))

\* ---- witnesses (expected to be violated: show the antecedents are reachable) ----
W_NoTruncation == ~(Terminal /\ cut < Total(lens) /\ Len(out) >= 1)
W_NoSplitHeader == ~(rpc = "hdr" /\ got \in 1..3)

\* ---- path dump for replay: every complete behaviour once (Hist = TRUE) ----
PathDump == Terminal => PrintT(<<"PATH", ToString(lens), cut, endk, ToString(segs), rpc, Len(out)>>)
=============================================================================
