"""Scenario executors of the server-side checks.  Each scenario owns a real server process
(spawn_server(('127.0.0.1', 0))) and runs inside a pool worker process; it returns a plain
(scn, obs) record - what was asked and what was observed - and never judges anything."""
import multiprocessing as mp
import os
import queue
import signal
import sys
import time
import traceback

from . import _server_lib as L
from . import _server_targets as tg
from ..common import MachineryError

HANG = 5.0          # hang bound of every client-side call (seconds)


# ----------------------------------------------------------------------------- process pool

def worker_main(tq, rq, logdir, stop):
    L.setup_env()
    try:
        log = open(os.path.join(logdir, 'worker-%d.log' % os.getpid()), 'ab', buffering=0)
        os.dup2(log.fileno(), 2)
        os.dup2(log.fileno(), 1)
    except OSError:
        pass
    parent = os.getppid()
    while True:
        try:
            item = tq.get(timeout=1.0)
        except queue.Empty:
            if os.getppid() != parent:      # the check process is gone: do not linger
                os._exit(0)
            continue
        if item is None:
            break
        i, fn, arg = item
        if stop.is_set():                   # the budget of the replay is used up: the rest is not played
            rq.put((i, ('skipped', None)))
            continue
        try:
            res = ('ok', globals()[fn](arg))
        except BaseException:  # noqa
            # an exception of the harness itself (not of the library: those are recorded outcomes).  Seen once in ~150 quick
            # runs and never again with the same seed: play the scenario once more before calling it a machinery failure
            first = traceback.format_exc()
            try:
                res = ('ok', globals()[fn](arg))
            except BaseException:  # noqa
                res = ('error', first + '\n(second attempt)\n' + traceback.format_exc())
        rq.put((i, res))


def pool_map(fn, tasks, logdir, nproc=12, task_timeout=150, budget=None):
    """Run globals()[fn](task) for every task in `nproc` spawn'ed processes; results in task order.
    `budget` (seconds): when it is used up no further task is started; tasks not played come back as None
    (a tree on which every hang-bounded step runs into its bound must not turn a quick check into hours)."""
    if not tasks:
        return []
    L.setup_env()
    ctx = mp.get_context('spawn')
    tq, rq = ctx.Queue(), ctx.Queue()
    stop = ctx.Event()
    n = min(nproc, len(tasks))
    procs = [ctx.Process(target=worker_main, args=(tq, rq, logdir, stop), daemon=False) for _ in range(n)]
    for p in procs:
        p.start()
    for i, t in enumerate(tasks):
        tq.put((i, fn, t))
    for _ in procs:
        tq.put(None)
    out = {}
    t_start = time.time()
    try:
        while len(out) < len(tasks):
            if budget is not None and not stop.is_set() and time.time() - t_start > budget:
                stop.set()
            try:
                i, res = rq.get(timeout=5.0 if (budget is not None and not stop.is_set()) else task_timeout)
            except queue.Empty:
                if budget is not None and not stop.is_set():
                    if time.time() - t_start > budget + task_timeout:
                        raise MachineryError('replay pool: no result within %d s (%d of %d done)' % (task_timeout, len(out), len(tasks)))
                    continue
                raise MachineryError('replay pool: no result within %d s (%d of %d done)' % (task_timeout, len(out), len(tasks)))
            if res[0] == 'error':
                raise MachineryError('replay scenario failed inside the harness:\n' + res[1])
            out[i] = res[1] if res[0] == 'ok' else None
    finally:
        t0 = time.time()
        for p in procs:
            p.join(max(0.0, 3.0 - (time.time() - t0)))
        for p in procs:
            if p.is_alive():            # our own, un-reaped child: its pid cannot have been recycled
                kids = L.descendants(p.pid)
                p.kill()
                p.join(2.0)
                L.kill_pids([k for k in kids if L.cmd_of(k).find('multiprocessing') >= 0])
    return [out[i] for i in range(len(tasks))]


# ----------------------------------------------------------------------------- common pieces

class Srv:
    """A real server process owned by one scenario."""

    def __init__(self, logdir=None, name='srv', close_on_none=False, cli=False):
        import uuid
        from pyworkers.remote_server import spawn_server
        if cli:
            self._start_cli(logdir, name, close_on_none)
            return
        # everything that descends from this server inherits VF_SCN=<tag> (spawn = exec): it can be found and
        # killed at the end even after it has been re-parented
        self.tag = 'vf-' + uuid.uuid4().hex
        self.errlog = None
        if logdir:
            self.errlog = os.path.join(logdir, '%s-%d-%d.err' % (name, os.getpid(), time.time_ns()))
            self._saved = os.dup(2)
            f = open(self.errlog, 'ab', buffering=0)
            os.dup2(f.fileno(), 2)
            f.close()
        os.environ['VF_SCN'] = self.tag
        try:
            res = L.bounded(lambda: spawn_server(('127.0.0.1', 0), close_on_none=close_on_none), 20)
        finally:
            os.environ.pop('VF_SCN', None)
            if logdir:
                os.dup2(self._saved, 2)
                os.close(self._saved)
        if res[0] != 'ok' or not res[1].addr:
            raise MachineryError('could not start a server: %r' % (res,))
        self.proc = res[1]
        self.pid = self.proc.pid
        self.addr = tuple(self.proc.addr)
        self.seen = set()

    def _start_cli(self, logdir, name, close_on_none):
        """The documented command-line entry: `python -m pyworkers.remote_server --addr A --port P [--close_on_none]` as a
        plain subprocess (this is how tmp_ssh_server / spawn_ssh_servers start servers on other hosts)."""
        import socket
        import subprocess
        import uuid
        self.tag = 'vf-' + uuid.uuid4().hex
        self.errlog = os.path.join(logdir, '%s-cli-%d-%d.err' % (name, os.getpid(), time.time_ns()))
        s = socket.socket()
        s.bind(('127.0.0.1', 0))
        port = s.getsockname()[1]
        s.close()
        env = dict(os.environ)
        env['VF_SCN'] = self.tag
        cmd = [sys.executable, '-m', 'pyworkers.remote_server', '--addr', '127.0.0.1', '--port', str(port), '-v']
        if close_on_none:
            cmd.append('--close_on_none')
        with open(self.errlog, 'ab', buffering=0) as f:
            self.popen = subprocess.Popen(cmd, cwd=L.REPO, env=env, stdout=f, stderr=f, stdin=subprocess.DEVNULL)
        self.proc = None
        self.pid = self.popen.pid
        self.addr = ('127.0.0.1', port)
        self.seen = set()
        t0 = time.time()
        while time.time() - t0 < 20:
            try:
                with open(self.errlog, 'rb') as f:
                    if b'Listening on' in f.read():
                        return
            except OSError:
                pass
            if self.popen.poll() is not None:
                break
            time.sleep(0.02)
        raise MachineryError('could not start `python -m pyworkers.remote_server` (exit code %s)' % (self.popen.poll(),))

    def alive(self):
        if getattr(self, 'popen', None) is not None and self.popen.poll() is not None:
            return False
        return L.pid_alive(self.pid, self.tag)

    def note_descendants(self):
        d = L.descendants(self.pid)
        self.seen.update(d)
        return d

    def last_error(self):
        """Last exception line the server process wrote (soft information for the 'what' text)."""
        if not self.errlog:
            return ''
        try:
            with open(self.errlog, 'rb') as f:
                txt = f.read().decode('utf-8', 'replace')
        except OSError:
            return ''
        k = txt.rfind('Error occurred in the remote server')
        if k < 0:
            k = txt.rfind('Traceback (most recent call last)')
        if k < 0:
            return ''
        last = ''
        for x in txt[k:].splitlines()[1:]:
            if x and not x.startswith(' ') and ('Error' in x or 'Empty' in x or 'Exception' in x):
                last = x
        return last.strip()[:160]

    def destroy(self):
        self.note_descendants()
        left = L.reap_tree(self.pid, self.seen, tag=self.tag)
        stray = [p for p in L.tagged_pids(self.tag)]
        if stray:
            L.kill_pids(stray, tag=self.tag)
            left = left + L.await_dead(stray, 2.0, tag=self.tag)
        if getattr(self, 'popen', None) is not None:
            try:
                self.popen.wait(2)
            except Exception:  # noqa
                pass
        return left


def fresh_round_trip(srv, tok):
    """A fresh well-behaved client: RemoteWorker(ident, tok) -> wait -> result, hang-bounded.
    Cut short (not 'hang') when the server process is gone and the client still has not returned."""
    from pyworkers.remote import RemoteWorker
    box = {}

    def go():
        w = RemoteWorker(tg.ident, args=(tok,), host=srv.addr, main_path=L.TARGETS_PATH)
        box['w'] = w
        if not w.wait(HANG):
            return 'unfinished'
        return w.result

    import threading
    res = {}

    def run():
        try:
            res['v'] = ('ok', go())
        except BaseException as e:  # noqa
            res['v'] = ('raised', e)

    t = threading.Thread(target=run, daemon=True)
    t0 = time.time()
    t.start()
    dead_since = None
    while t.is_alive() and time.time() - t0 < HANG:
        t.join(0.05)
        if not srv.alive():
            dead_since = dead_since or time.time()
            if time.time() - dead_since > 0.7:
                break
    if t.is_alive():
        got = 'hang' if dead_since is None else 'unserved:server-gone'
    else:
        got = L.tag(res['v'])
    return {'got': got, 'want': 'v:%s' % tok}


# ----------------------------------------------------------------------------- C11

def fault_client(srv, frames, f):
    """Play one faulty client: f = {req, step, cut, mode, split}."""
    c = L.RawClient(srv.addr, frames, timeout=HANG)
    step = f['step']
    if step in ('connect', 'midhdr', 'hdr', 'midpay', 'pay'):
        log = c.run('bytes', f['cut'], f['mode'])
    elif step == 'reply':
        log = c.run('reply', 0, f['mode'])           # context request completed (reply read), then the client goes away
    elif f.get('split'):
        log = c.run(step, 0, f['mode'], hold=True)
        L.vanish([c.ctrl], f['mode'])        # the control connection breaks first ...
        c.ctrl = None
        time.sleep(0.6)
        c.vanish(f['mode'])                  # ... the data connection follows
    else:
        log = c.run(step, 0, f['mode'])
    return log


def scenario_c11(scn):
    """scn: {id, faults: [{req, step, cut, mode, split}], streams: {req: frames(hex)}, pos: {req: [[k, j]]}, logdir}"""
    from pyworkers.remote import RemoteWorker
    from pyworkers.persistent_remote import PersistentRemoteWorker
    from pyworkers.remote_context import RemoteContext
    L.setup_env()
    srv = Srv(scn.get('logdir'), close_on_none=bool(scn.get('con')), cli=bool(scn.get('cli')))
    obs = {'srv_alive': 'F', 'fresh': [], 'others': []}
    notes = {'client_logs': [], 'server_error': '', 'failed_at': 0}
    release = os.path.join(scn['logdir'], 'release-%d-%d' % (os.getpid(), time.time_ns()))
    done = []
    try:
        # the healthy party: a context, a persistent worker that has already produced a result,
        # a one-shot worker in the middle of its target
        def setup():
            # plain workers first: the very first request a fresh server sees is a worker request
            hp = PersistentRemoteWorker(tg.ident, host=srv.addr, main_path=L.TARGETS_PATH)
            hp.enqueue(41)
            first = hp.next_result(timeout=HANG)
            ho = RemoteWorker(tg.wait_file, args=(release, 77), host=srv.addr, main_path=L.TARGETS_PATH)
            ctx = RemoteContext(L.REC_CTX_ID, host=srv.addr, target=tg.ctx_fun, kwargs={'tok': 5})
            hc = PersistentRemoteWorker(None, host=srv.addr, context=L.REC_CTX_ID, main_path=L.TARGETS_PATH)
            hc.enqueue(40)
            if hc.next_result(timeout=HANG) != 40005:
                raise MachineryError('C11 set-up: the healthy context worker does not run the context target')
            return ctx, hp, first, ho, hc
        r = L.bounded(setup, 25)
        if r[0] == 'raised' and isinstance(r[1], MachineryError):
            raise r[1]
        if r[0] != 'ok' or r[1][2] != 41:
            # a fresh server that does not serve well-behaved clients: an observation (no fault was needed), not a harness failure
            obs['fresh'].append({'got': 'setup:' + (L.tag(r) if r[0] != 'ok' else 'v:%s' % (r[1][2],)), 'want': 'setup:served'})
            t0 = time.time()               # a server whose run() has raised is busy in its `finally` for a while
            while srv.alive() and time.time() - t0 < HANG:
                time.sleep(0.05)
            obs['srv_alive'] = 'T' if srv.alive() else 'F'
            notes['server_error'] = srv.last_error()
            return {'id': scn['id'], 'prop': 'C11', 'scn': {'faults': []}, 'obs': obs, 'notes': notes, 'faults_full': [],
                    'con': bool(scn.get('con')), 'cli': bool(scn.get('cli'))}
        ctx, hp, _, ho, hc = r[1]
        srv.note_descendants()
        for k, f in enumerate(scn['faults']):
            frames = L.retarget([bytes.fromhex(x) for x in scn['streams'][f['req']]], [tuple(p) for p in scn['pos'][f['req']]], srv.addr[1])
            notes['client_logs'].append(fault_client(srv, frames, f))
            done.append(f)
            fr = fresh_round_trip(srv, 100 + k)
            obs['fresh'].append(fr)
            srv.note_descendants()
            if fr['got'] != fr['want'] or not srv.alive():
                notes['failed_at'] = k + 1
                break
        # a server whose run() has raised is still busy in its `finally` (terminating children) for a
        # few seconds: 'alive' is only claimed for a process that is still there after the settle time
        if notes['failed_at']:
            t0 = time.time()
            while srv.alive() and time.time() - t0 < HANG:
                time.sleep(0.05)
            notes['settle_s'] = round(time.time() - t0, 2)
        # the healthy party afterwards
        def others():
            out = []
            def p():
                hp.enqueue(42)
                v = hp.next_result(timeout=HANG)
                if not hp.wait(HANG):
                    return 'unfinished'
                return 'v:%s/%s' % (v, hp.result)
            rp = L.bounded(p, 2 * HANG + 1)
            got = rp[1] if rp[0] == 'ok' else L.tag(rp)
            he = L.bounded(lambda: hp.has_error, HANG)
            out.append({'kind': 'persistent', 'got': got, 'want': 'v:42/2', 'err': L.tag(he)})
            with open(release, 'w'):
                pass
            def o():
                if not ho.wait(HANG):
                    return 'unfinished'
                return ho.result
            ro = L.bounded(o, HANG + 1)
            he = L.bounded(lambda: ho.has_error, HANG)
            out.append({'kind': 'oneshot', 'got': L.tag(ro), 'want': 'v:77', 'err': L.tag(he)})
            # the healthy client's context: the worker in it still answers with the context's work, the context is
            # still registered (a new worker in it is accepted and gets the same work); both end without error
            def cw():
                hc.enqueue(43)
                v = hc.next_result(timeout=HANG)
                if not hc.wait(HANG):
                    return 'unfinished'
                return 'v:%s/%s' % (v, hc.result)
            rc = L.bounded(cw, 2 * HANG + 1)
            he = L.bounded(lambda: hc.has_error, HANG)
            out.append({'kind': 'ctxworker', 'got': rc[1] if rc[0] == 'ok' else L.tag(rc), 'want': 'v:43005/2', 'err': L.tag(he)})
            box = {}
            def nw():
                w = PersistentRemoteWorker(None, host=srv.addr, context=L.REC_CTX_ID, main_path=L.TARGETS_PATH)
                box['w'] = w
                w.enqueue(44)
                v = w.next_result(timeout=HANG)
                if not w.wait(HANG):
                    return 'unfinished'
                return 'v:%s/%s' % (v, w.result)
            rn = L.bounded(nw, 3 * HANG)
            he = L.bounded(lambda: box['w'].has_error, HANG) if 'w' in box else ('ok', False if rn[0] == 'ok' else True)
            out.append({'kind': 'newctxworker', 'got': rn[1] if rn[0] == 'ok' else L.tag(rn), 'want': 'v:44005/1', 'err': L.tag(he)})
            return out
        obs['others'] = others()
        time.sleep(0.05)
        obs['srv_alive'] = 'T' if srv.alive() else 'F'
        notes['server_error'] = srv.last_error()
        notes['descendants_at_end'] = len(L.descendants(srv.pid)) if srv.alive() else 0
    finally:
        try:
            os.unlink(release)
        except OSError:
            pass
        left = srv.destroy()
        notes['unkillable'] = left
    return {'id': scn['id'], 'prop': 'C11',
            'scn': {'faults': [{'req': f['req'], 'step': f['step'], 'mode': f['mode']} for f in done]},
            'obs': obs, 'notes': notes, 'faults_full': done, 'con': bool(scn.get('con')), 'cli': bool(scn.get('cli'))}


# ----------------------------------------------------------------------------- C18

class _Capture:
    def __init__(self):
        self.data = b''

    def sendall(self, d):
        self.data += bytes(d)


def _raw_delete(addr, cid):
    """The delete request of RemoteContext._try_del for a context the client holds no live object of."""
    import socket
    from pyworkers.remote import send_msg, recv_msg
    s = socket.socket(socket.AF_INET, socket.SOCK_STREAM)
    s.settimeout(HANG)
    try:
        s.connect(addr)
        send_msg(s, (cid, False), comment='context: del header')
        send_msg(s, None, comment='context: del request')
        return recv_msg(s, comment='context: del result')
    finally:
        s.close()


def scenario_c18(scn):
    """scn: {id, hist: [{op,id,tok,w,x,k}], idmap: {model id: real context id}, upayload, upos, logdir}
    Plays the history with real RemoteContext / PersistentRemoteWorker(context=i) calls.  Raw-socket
    clients where the API offers no call: a worker request where the model says the context is unknown
    (the real constructor would not return a worker - C20) and a delete of an id the client holds no live
    context object of.  The model's abstract ids 1..3 are concretised by `idmap` (which includes falsy
    ids: 0, '').  Whatever happens - the server dying in the middle of the history included - is
    projected into the reply of that request ("raised:<Type>", "hang", "noworker"); nothing is judged here."""
    import select
    import socket
    from pyworkers.remote import send_msg
    from pyworkers.persistent import WorkerClosedError
    from pyworkers.persistent_remote import PersistentRemoteWorker
    from pyworkers.remote_context import RemoteContext
    L.setup_env()
    srv = Srv(scn.get('logdir'))
    idmap = {int(k): v for k, v in (scn.get('idmap') or {1: 1, 2: 2, 3: 3}).items()}
    droute = scn.get('droute') or 'wait'          # which RemoteContext method this history deletes through
    reps, lives = [], []
    ctxobj, workers, raws = {}, {}, {}
    notes = {'helpers': -1, 'server_error': '', 'idmap': {str(k): v for k, v in idmap.items()}, 'died_at': 0, 'droute': droute}
    obs = {'rep': reps, 'live': lives, 'srv_alive': 'F', 'fresh': []}

    def one(n, q):
        op = q['op']
        cid = idmap.get(q['id'])
        if op == 'create':
            r = L.bounded(lambda: RemoteContext(cid, host=srv.addr, target=tg.ctx_fun, kwargs={'tok': q['tok']}), HANG)
            if r[0] == 'ok':
                ctxobj[q['id']] = r[1]
                return 'ok', []
            return ('ValueError' if r[0] == 'raised' and isinstance(r[1], ValueError) else L.tag(r)), []
        if op == 'delete':
            o = ctxobj.get(q['id'])
            if o is not None and o.is_alive():
                # through the client-side route of this history: wait() / terminate() return the outcome, close() returns
                # nothing - there the object's own is_alive() afterwards says whether the client considers it deleted
                if droute == 'close':
                    def via_close():
                        o.close()
                        return not o.is_alive()
                    r = L.bounded(via_close, 3 * HANG)
                elif droute == 'terminate':
                    r = L.bounded(o.terminate, 3 * HANG)
                else:
                    r = L.bounded(o.wait, 3 * HANG)
            else:
                r = L.bounded(_raw_delete, 3 * HANG, srv.addr, cid)
            # which workers are still alive shortly after the reply (API and OS), without touching them
            t0 = time.time()
            pend = dict(workers)
            while pend and time.time() - t0 < HANG:
                for w, wo in list(pend.items()):
                    a = L.bounded(wo.is_alive, HANG)
                    if a == ('ok', False) and not L.pid_alive(wo.pid, srv.tag):
                        del pend[w]
                if pend:
                    time.sleep(0.05)
            return L.tag(r), sorted(pend)
        if op == 'start':
            if q['k'] == 'T':
                r = L.bounded(lambda: PersistentRemoteWorker(None, host=srv.addr, context=cid, main_path=L.TARGETS_PATH), HANG)
                if r[0] == 'ok':
                    workers[q['w']] = r[1]
                    return 'started', []
                return L.tag(r), []
            cap = _Capture()
            send_msg(cap, (cid, True))
            pay = L.retarget([b'', bytes.fromhex(scn['upayload'])], [tuple(p) for p in scn['upos']], srv.addr[1])[1]
            s = socket.socket(socket.AF_INET, socket.SOCK_STREAM)
            s.settimeout(HANG)
            try:
                s.connect(srv.addr)
                s.sendall(cap.data + pay)
                raws[n] = s
                return 'pending', []
            except OSError as e:
                s.close()
                return 'raised:' + type(e).__name__, []
        if op == 'cut':
            # the header of a context request naming this id, then the connection is dropped (FIN) before the body
            cap = _Capture()
            send_msg(cap, (cid, False))
            c = socket.socket(socket.AF_INET, socket.SOCK_STREAM)
            try:
                c.settimeout(HANG)
                c.connect(srv.addr)
                c.sendall(cap.data)
                c.close()
                return 'dropped', []
            except OSError as e:
                L.vanish([c], 'fin')
                return 'raised:' + type(e).__name__, []
        if op == 'rstart':
            # a worker request whose client is RESET before the server reads it: connection 1 sends nothing and keeps the
            # accept loop waiting; connection 2 sends the whole request and is reset; then connection 1 is closed
            cap = _Capture()
            send_msg(cap, (cid, True))
            pay = L.retarget([b'', bytes.fromhex(scn['upayload'])], [tuple(p) for p in scn['upos']], srv.addr[1])[1]
            c1 = socket.socket(socket.AF_INET, socket.SOCK_STREAM)
            c2 = socket.socket(socket.AF_INET, socket.SOCK_STREAM)
            try:
                c1.settimeout(HANG)
                c2.settimeout(HANG)
                c1.connect(srv.addr)
                time.sleep(0.05)
                c2.connect(srv.addr)
                c2.sendall(cap.data + pay)
                L.vanish([c2], 'rst')
                time.sleep(0.05)
                c1.close()
                return 'nostart', []
            except OSError as e:
                L.vanish([c1, c2], 'fin')
                return 'raised:' + type(e).__name__, []
        wo = workers.get(q['w'])
        if wo is None:
            return 'noworker', []                     # the start this request refers to gave no worker
        if op == 'busy':
            marker = os.path.join(scn['logdir'], 'busy-%s-%d' % (srv.tag, n))
            def busy():
                wo.enqueue(marker)
                t0 = time.time()
                while not os.path.exists(marker):
                    if time.time() - t0 > HANG:
                        return 'notrunning'
                    time.sleep(0.01)
                return 'queued'
            try:
                r = L.bounded(busy, 2 * HANG)
            except WorkerClosedError:
                return 'dead', []
            return (r[1] if r[0] == 'ok' else ('dead' if r[0] == 'raised' and isinstance(r[1], WorkerClosedError) else L.tag(r))), []
        if op in ('call', 'callk'):
            def call():
                try:
                    if op == 'callk':
                        wo.enqueue(q['x'], tok=77)    # a keyword of its own for THIS input (ServerProps.OverrideTok)
                    else:
                        wo.enqueue(q['x'])
                    return 'v:%s' % (wo.next_result(timeout=HANG),)
                except (WorkerClosedError, queue.Empty):
                    return 'dead'
            r = L.bounded(call, 2 * HANG)
            return (r[1] if r[0] == 'ok' else L.tag(r)), []
        if op == 'wait':
            return L.tag(L.bounded(wo.wait, 2 * HANG, HANG)), []
        raise MachineryError('unknown request in history: %r' % (q,))

    try:
        for n, q in enumerate(scn['hist']):
            try:
                rep, live = one(n, q)
            except MachineryError:
                raise
            except Exception as e:  # noqa  (a call of the library under test failed in an unforeseen way: an observation)
                rep, live = 'raised:' + type(e).__name__, []
            reps.append(rep)
            lives.append(live)
            if srv.alive():
                srv.note_descendants()
            elif not notes['died_at']:
                notes['died_at'] = n + 1
        # end of history: the server must still serve; then settle the raw worker requests
        fr = fresh_round_trip(srv, 500)
        obs['fresh'].append(fr)
        if fr['got'] != fr['want']:         # a server whose run() has raised is busy in its `finally` for a while
            t0 = time.time()
            while srv.alive() and time.time() - t0 < HANG:
                time.sleep(0.05)
        for n, s in raws.items():
            got = b''
            try:
                rd, _, _ = select.select([s], [], [], 0.3)
                if rd:
                    got = s.recv(4096)
            except OSError:
                pass
            reps[n] = 'started' if got else 'nostart'
        time.sleep(0.05)
        obs['srv_alive'] = 'T' if srv.alive() else 'F'
        if srv.alive():
            notes['helpers'] = len(L.spawned_children(srv.pid))
        notes['server_error'] = srv.last_error()
    finally:
        for s in raws.values():
            try:
                s.close()
            except OSError:
                pass
        notes['unkillable'] = srv.destroy()
    return {'id': scn['id'], 'prop': 'C18', 'scn': {'hist': scn['hist']}, 'obs': obs, 'notes': notes}


# ----------------------------------------------------------------------------- C12

C12_CTX = 1


def _error_kind(w):
    from pyworkers.worker import WorkerTerminatedError
    e = w.error
    if e is None:
        return 'None'
    if type(e) is WorkerTerminatedError:
        return 'WTE'
    return 'other:' + type(e).__name__


def scenario_c12(scn):
    """scn: {id, how: 'terminate'|'sigterm'|'tshort' (terminate(timeout=0.3, force=True))|'tgrace' (terminate(timeout=5, force=False)), kids: [{state, persistent}], racer: None|{step, delay}, streams, pos, logdir}
    kid states: coop / swallow (target running), idle (persistent, no input), finished, inctx (idle in a
    context), inctx-coop / inctx-swallow (running the context's target), swallow-t (swallowing worker that has
    survived a graceful terminate(timeout, force=False) of its parent before the stop), swallow-gone / coop-gone (persistent
    worker busy in its target whose CLIENT PROCESS has been SIGKILLed), starting (scripted client in the
    middle of the handshake when the stop arrives; no parent-side object)."""
    import uuid
    from pyworkers.remote import RemoteWorker
    from pyworkers.persistent_remote import PersistentRemoteWorker
    from pyworkers.remote_context import RemoteContext
    L.setup_env()
    srv = Srv(scn.get('logdir'))
    tagv = srv.tag
    kids = scn['kids']
    objs = [None] * len(kids)
    markers = []
    clients, gone_pids = [], {}
    notes = {'setup': [], 'stop': '', 'left_pids': [], 'server_error': ''}
    obs = {'srv_dead': 'F', 'left': -1, 'kids': []}
    raw = None
    try:
        need_ctx = sorted(set(k['state'] for k in kids if k['state'].startswith('inctx')))
        ctxs = {}

        def mk(i, k):
            st = k['state']
            marker = os.path.join(scn['logdir'], 'mark-%s-%d' % (tagv, i))
            kw = dict(host=srv.addr, main_path=L.TARGETS_PATH)
            if st in ('coop', 'swallow', 'swallow-t'):
                fn = tg.coop_marked if st == 'coop' else tg.swallow_marked
                if k['persistent']:
                    w = PersistentRemoteWorker(fn, **kw)
                    w.enqueue(marker)
                else:
                    w = RemoteWorker(fn, args=(marker,), **kw)
                markers.append(marker)
            elif st == 'idle':
                w = PersistentRemoteWorker(tg.ident, **kw)
            elif st == 'finished':
                if k['persistent']:
                    w = PersistentRemoteWorker(tg.ident, **kw)
                    w.enqueue(3)
                    w.next_result(timeout=HANG)
                else:
                    w = RemoteWorker(tg.ident, args=(3,), **kw)
                if not w.wait(HANG):
                    raise MachineryError('C12 set-up: a finished worker did not finish')
            elif st.startswith('inctx'):
                w = PersistentRemoteWorker(None, context=ctxs[st].context_id, **kw)
                if st != 'inctx':
                    w.enqueue(marker)
                    markers.append(marker)
            else:
                raise MachineryError('unknown kid state ' + st)
            return w

        def setup():
            for j, st in enumerate(need_ctx):
                fn = {'inctx': tg.ident, 'inctx-coop': tg.coop_marked, 'inctx-swallow': tg.swallow_marked}[st]
                ctxs[st] = RemoteContext(C12_CTX + j, host=srv.addr, target=fn)
            for i, k in enumerate(kids):
                if k['state'] in ('swallow-gone', 'coop-gone'):
                    # the worker belongs to ANOTHER client process, which is killed before the stop
                    import subprocess
                    marker = os.path.join(scn['logdir'], 'mark-%s-%d' % (tagv, i))
                    env = dict(os.environ)
                    env.pop('VF_SCN', None)
                    p = subprocess.Popen([sys.executable, '-m', 'vf.drivers._server_client', srv.addr[0], str(srv.addr[1]),
                                          k['state'].split('-')[0], marker], cwd=L.VERIF, env=env, stdout=subprocess.PIPE, stderr=subprocess.DEVNULL)
                    clients.append(p)
                    line = L.bounded(p.stdout.readline, 2 * HANG)
                    if line[0] != 'ok' or not line[1].startswith(b'BACKEND '):
                        raise MachineryError('C12 set-up: the client process did not create its worker: %r' % (line,))
                    gone_pids[i] = int(line[1].split()[1])
                    markers.append(marker)
                elif k['state'] == 'orphan':          # a refused duplicate registration leaves its helper process behind
                    cid = 50 + i
                    RemoteContext(cid, host=srv.addr, target=tg.ident)
                    try:
                        RemoteContext(cid, host=srv.addr, target=tg.ident)
                        notes['setup'].append('duplicate registration of context %d was NOT refused' % cid)   # C18's subject
                    except ValueError:
                        pass
                elif k['state'] != 'starting':
                    objs[i] = mk(i, k)
            t0 = time.time()
            while not all(os.path.exists(m) for m in markers):
                if time.time() - t0 > 2 * HANG:
                    raise MachineryError('C12 set-up: a target did not start running')
                time.sleep(0.02)
            for i, k in enumerate(kids):          # 'swallow-t': its parent has already asked it to stop, gracefully and in vain
                if k['state'] == 'swallow-t':
                    notes['setup'].append('kid %d graceful terminate(0.5, force=False) -> %s' % (i, L.tag(L.bounded(objs[i].terminate, HANG + 2, 0.5, False))))
            return True
        r = L.bounded(setup, 40)
        if r[0] != 'ok':
            raise MachineryError('C12 set-up failed: %r' % (r,))
        pids = [getattr(o, 'pid', None) if o is not None else gone_pids.get(i) for i, o in enumerate(objs)]
        for p in clients:                         # the client crashes: SIGKILL; its sockets are reset by the kernel
            p.kill()
        for p in clients:
            p.wait(HANG)
        if clients:
            time.sleep(0.2)
        before = [p for p in L.tagged_pids(tagv) if p != srv.pid]

        # a worker in the middle of its start-up: scripted client (no parent-side object)
        racer = scn.get('racer')
        rt = None
        if racer and racer != 'none':
            import threading
            # the racing worker's target keeps running: a backend that slips through the stop is still there afterwards
            frames = L.retarget([bytes.fromhex(x) for x in scn['streams']['lworker']], [tuple(p) for p in scn['pos']['lworker']], srv.addr[1])
            raw = L.RawClient(srv.addr, frames, timeout=HANG)
            step = 'addr' if racer == 'addr' else 'run'
            rt = threading.Thread(target=lambda: raw.run(step, 0, 'fin', hold=True), daemon=True)
            rt.start()
            if racer == 'addr':
                rt.join(HANG)                      # the server is now blocked in the accept() of the control socket
                time.sleep(0.1)
            elif racer == 'spawned':               # control channel connected: the server is spawning the backend
                t0 = time.time()
                while 'ctrl' not in raw.log and time.time() - t0 < HANG:
                    time.sleep(0.002)
                time.sleep(0.03)
            else:                                  # 'appended': runtime info received, the worker is in `children`
                rt.join(HANG)
                time.sleep(0.2)
            notes['racer_log'] = list(raw.log)

        # the stop
        t0 = time.time()
        if scn['how'] in ('terminate', 'tshort', 'tgrace'):
            # tshort: the parent's join expires while the server is still in its `finally` loop -> SIGTERM lands inside it
            # tgrace: the graceful request only (force=False): nobody signals a server that does not exit by itself
            tmo = 0.3 if scn['how'] == 'tshort' else 5
            r = L.bounded(lambda: srv.proc.terminate(timeout=tmo, force=(scn['how'] != 'tgrace')), 30)
            notes['stop'] = L.tag(r)
        else:
            os.kill(srv.pid, signal.SIGTERM)
            notes['stop'] = 'signalled'
        gone = not L.await_dead([srv.pid], 8.0, tag=srv.tag)
        notes['stop_s'] = round(time.time() - t0, 2)
        obs['srv_dead'] = 'T' if gone else 'F'
        # "shortly afterwards": every process that descends from the server (found by an environment tag, so
        # re-parented orphans are seen too; multiprocessing's resource trackers are not workers) is gone 3 s later
        def workers_of(tagged):
            return [p for p in tagged if p != srv.pid and not L.is_resource_tracker(p)]
        t1 = time.time()
        left = workers_of(L.tagged_pids(tagv))
        while left and time.time() - t1 < 3.0:
            time.sleep(0.1)
            left = workers_of(L.tagged_pids(tagv))
        obs['left'] = len(left)
        notes['left_pids'] = [(p, L.cmd_of(p)[-60:]) for p in left]
        notes['before'] = len(before)
        if rt is not None:
            rt.join(HANG)
        # every parent finds out, without blocking
        for i, k in enumerate(kids):
            o = objs[i]
            if o is None:
                obs['kids'].append({'os_dead': 'T', 'wait': '-', 'alive': '-', 'has_error': '-', 'error': '-', 'blocked': 'F'})
                continue
            rw = L.bounded(o.wait, 3 + HANG, 3)
            ra = L.bounded(o.is_alive, HANG)
            rh = L.bounded(lambda: o.has_error, HANG)
            re_ = L.bounded(lambda: _error_kind(o), HANG)
            blocked = any(x[0] == 'hang' for x in (rw, ra, rh, re_))
            obs['kids'].append({'os_dead': 'F' if (pids[i] and L.pid_alive(pids[i], tagv)) else 'T',
                                'wait': L.tag(rw), 'alive': L.tag(ra), 'has_error': L.tag(rh),
                                'error': re_[1] if re_[0] == 'ok' else L.tag(re_), 'blocked': 'T' if blocked else 'F'})
        notes['server_error'] = srv.last_error()
    finally:
        for p in clients:
            try:
                p.kill()
                p.wait(2)
            except Exception:  # noqa
                pass
        if raw is not None:
            raw.vanish('rst')
        L.kill_pids([p for p in L.tagged_pids(tagv)], tag=tagv)
        notes['unkillable'] = srv.destroy()
    return {'id': scn['id'], 'prop': 'C12',
            'scn': {'how': scn['how'], 'racer': scn.get('racer') or 'none',
                    'kids': [{'state': k['state'], 'persistent': 'T' if k['persistent'] else 'F',
                              'parent': 'F' if k['state'] in ('starting', 'orphan', 'swallow-gone', 'coop-gone') else 'T'} for k in kids]},
            'obs': obs, 'notes': notes}
