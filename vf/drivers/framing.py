"""C10 - message framing.  spec/Framing.tla is model-checked; every behaviour TLC
enumerates for the replay constants is forced onto the real recv_msg through a scripted
socket; every real execution is (a) judged by TLC with the C10 operators
(FramingJudge.tla) and (b) validated call-by-call against the spec (FramingTrace.tla)."""
import json
import os
import random
import re
import struct

from .. import tlc
from ..common import MachineryError, Timer, ensure_repo_on_path, seed, sub_scratch
from ..report import Evidence, Violation, finish

RST = 5000

CHECKS = {
    'C10': dict(
        engine='Framing',
        technique='TLA+ spec Framing.tla model-checked with TLC (all segmentations x truncation offsets); TLC-enumerated behaviours replayed on the real recv_msg via a scripted socket; TLC judges every real execution (FramingJudge) and validates every recv() log against the spec (FramingTrace)',
        text='Exhaustive TLC model checking of the receiver algorithm over every segmentation and truncation point of short streams, bound to the code in both directions: all 27k TLC behaviours are forced onto the real recv_msg and each real recv() log must be a behaviour of the spec. Long streams (to 520 KB) by TLC simulation and seeded cuts.',
        note='Trusted: TLC, the scripted socket (reliable byte stream that may end with FIN/RST), abstraction of payload bytes to message identity. Exhaustive only for streams <= 26 bytes.',
        design_ref='6/C10'),
}


class Spin(BaseException):
    pass


class ScriptedSocket:
    """Serves `stream[:cut]` in the segment sizes of `plan`; afterwards FIN/RST as the
    scenario says.  Logs (requested, returned) per call; never blocks; bounds calls."""

    def __init__(self, stream, cut, endk, plan, rng=None):
        self.data = stream[:cut]
        self.cut = cut
        self.endk = endk
        self.plan = list(plan)
        self.pos = 0
        self.log = []
        self.rng = rng
        self.budget = cut + 8 + len(plan)

    def recv(self, n, *flags):
        if len(self.log) >= self.budget:
            raise Spin()
        avail = self.cut - self.pos
        if avail <= 0:
            if self.endk == 'rst':
                self.log.append([n, RST])
                raise ConnectionResetError(104, 'Connection reset by peer')
            if self.endk == 'fin':
                self.log.append([n, 0])
                return b''
            raise Spin()  # a complete stream that stays open: the receiver asked for more than was sent
        i = len(self.log)
        if i < len(self.plan) and self.plan[i] not in (0, RST):
            k = self.plan[i]
        elif self.rng is not None:
            k = self.rng.choice([1, 1, 2, 3, max(1, avail // 2), avail])
        else:
            k = 1
        k = max(1, min(k, n, avail)) if n > 0 else 0
        chunk = self.data[self.pos:self.pos + k]
        self.pos += k
        self.log.append([n, k])
        return chunk

    def recv_into(self, buffer, nbytes=0, *flags):
        """the same scripted stream through the buffer interface: a receiver that fills a preallocated buffer
        (socket.recv_into) is the same algorithm as far as Framing.tla is concerned - one recv(n) event per call"""
        view = memoryview(buffer).cast('B')
        n = nbytes or len(view)
        chunk = self.recv(n, *flags)
        view[:len(chunk)] = chunk
        return len(chunk)


class ScriptedSendSocket:
    """The sender's side of the transport: accepts what send_msg writes.  sendall() takes everything (that is its contract);
    send() and sendmsg() accept only part of what they are offered (short writes), as a real socket may."""

    def __init__(self, rng):
        self.wire = bytearray()
        self.rng = rng
        self.calls = []

    def _take(self, n):
        if n <= 1:
            return n
        return self.rng.choice([1, 2, 3, 4, 5, max(1, n // 2), n - 1, n])

    def sendall(self, data, *flags):
        self.wire += bytes(data)
        self.calls.append(['sendall', len(data), len(data)])

    def send(self, data, *flags):
        k = self._take(len(data))
        self.wire += bytes(data)[:k]
        self.calls.append(['send', len(data), k])
        return k

    def sendmsg(self, buffers, *a):
        data = b''.join(bytes(b) for b in buffers)
        k = self._take(len(data))
        self.wire += data[:k]
        self.calls.append(['sendmsg', len(data), k])
        return k


def execute_sent(remote, objs, rng):
    """messages written by the REAL send_msg onto a transport with short writes, read back by the real recv_msg"""
    ss = ScriptedSendSocket(rng)
    sent_ok = True
    try:
        for o in objs:
            remote.send_msg(ss, o)
    except Exception as e:  # noqa
        sent_ok = False
    wire = bytes(ss.wire)
    expect = b''.join(struct.pack('!I', len(remote.remote_pickle.dumps(o))) + remote.remote_pickle.dumps(o) for o in objs)
    lens = [len(remote.remote_pickle.dumps(o)) for o in objs]
    sock = ScriptedSocket(wire, len(wire), 'fin' if len(wire) < len(expect) else 'none', [], rng)
    sock.budget = len(wire) + 64
    msgs, outcome = [], 'done'
    try:
        for _ in objs:
            m = remote.recv_msg(sock)
            k = len(msgs)
            msgs.append(k + 1 if (m == objs[k] and type(m) is type(objs[k])) else 0)
    except remote.ConnectionClosedError:
        outcome = 'CCE'
    except Spin:
        outcome = 'spin'
    except Exception as e:  # noqa
        outcome = 'raised:' + type(e).__name__
    # the sender wrote complete messages: the scenario is the complete stream, whatever reached the wire
    return {'scn': {'lens': lens, 'cut': sum(4 + x for x in lens), 'endk': 'none'},
            'obs': {'msgs': msgs, 'outcome': outcome if sent_ok else 'raised:send', 'calls': min(len(sock.log), sum(4 + x for x in lens) + 1)}}, ss.calls


def _tla_seq(s):
    return json.loads(s.replace('<<', '[').replace('>>', ']'))


_VALUES = {4: None, 5: 0}


def _frames_for(lens, remote):
    """Real remote_pickle frames whose body lengths are exactly `lens`."""
    frames, objs = [], []
    for n, L in enumerate(lens):
        if L in _VALUES:
            obj = _VALUES[L]
        else:
            probe = remote.remote_pickle.dumps(b'\x00' * L)
            over = len(probe) - L
            obj = bytes((n * 7 + j) % 251 for j in range(max(0, L - over)))
            d = len(remote.remote_pickle.dumps(obj)) - L
            if d:
                obj = obj[:len(obj) - d] if d > 0 else obj + b'\x01' * (-d)
        body = remote.remote_pickle.dumps(obj)
        if len(body) != L:
            raise MachineryError('cannot build a frame of body length %d (got %d)' % (L, len(body)))
        frames.append(struct.pack('!I', L) + body)
        objs.append(obj)
    return b''.join(frames), objs


def execute(remote, lens, cut, endk, plan, rng=None):
    """One real execution: receive len(lens) messages with the real recv_msg."""
    stream, objs = _frames_for(lens, remote)
    sock = ScriptedSocket(stream, cut, endk, plan, rng)
    msgs, outcome = [], 'done'
    try:
        for _ in lens:
            m = remote.recv_msg(sock)
            k = len(msgs)
            msgs.append(k + 1 if (k < len(objs) and m == objs[k] and type(m) is type(objs[k])) else 0)
    except remote.ConnectionClosedError:
        outcome = 'CCE'
    except Spin:
        outcome = 'spin'
    except Exception as e:  # noqa
        outcome = 'raised:' + type(e).__name__
    return {'scn': {'lens': list(lens), 'cut': cut, 'endk': endk},
            'obs': {'msgs': msgs, 'outcome': outcome, 'calls': len(sock.log)}}, sock.log


def apalache_inductive():
    """Init => IndInv (length 0) and IndInv /\\ Next => IndInv' (length 1, init = IndInit) for spec/FramingInd.tla"""
    import shutil
    import subprocess
    exe = shutil.which('apalache-mc')
    if not exe:
        raise MachineryError('apalache-mc not found')
    out = sub_scratch('apalache')
    res = {}
    for name, args in (('base', ['--init=Init', '--inv=IndInv', '--length=0']), ('step', ['--init=IndInit', '--inv=IndInv', '--length=1'])):
        p = subprocess.run([exe, 'check'] + args + ['--out-dir=' + out, 'FramingInd.tla'], cwd=tlc.SPEC, capture_output=True, text=True, timeout=900)
        ok = 'EXITCODE: OK' in p.stdout
        res[name] = 'OK' if ok else 'FAILED'
        if not ok:
            raise MachineryError('Apalache does not discharge the %s case of IndInv (FramingInd.tla):\n%s' % (name, p.stdout[-1500:]))
    res['what'] = 'position arithmetic, Roundtrip/Detects/Prompt for one message of unbounded length, cut and segmentation'
    return res


def _mc_cfg(**kw):
    base = open(os.path.join(tlc.SPEC, 'Framing_mc.cfg')).read()
    for a, b in kw.items():
        base = re.sub(r'(?m)^(\s*%s\s*(=|<-)\s*).*$' % a, lambda m: m.group(1) + b, base)
    return base


def run(prop, tier, replay=None):
    assert prop == 'C10'
    T = Timer()
    ensure_repo_on_path()
    from pyworkers import remote
    ev = Evidence(prop, tier)
    rng = random.Random(seed())
    violations, drift = [], []

    if replay is not None:
        rp = replay['replay']
        rec, log = execute(remote, rp['lens'], rp['cut'], rp['endk'], rp['plan'])
        rec['id'] = 'replay'
        fails, _ = tlc.judge('FramingJudge', [rec], name='replay')
        print('replayed:', json.dumps(rec), 'calls:', log)
        for _, clause in fails:
            print('VIOLATION property=C10 replay=(given) clause=%s' % clause)
        return 1 if fails else 0

    # 1. the design: exhaustive model checking (all segmentations, all truncation offsets)
    r = tlc.run('FramingMC', 'Framing_mc.cfg', coverage=True, name='mc')
    ev.add_tlc('exhaustive Lens_small: all segmentations x all cut offsets x FIN/RST', r)
    if r.error:
        raise MachineryError('Framing.tla violates its own properties: %s\n%s' % (r.error, '\n'.join(r.trace[:60])))
    # vacuity: witnesses must be violated; the pre-fix receiver must be caught by the model
    for w in ('W_NoTruncation', 'W_NoSplitHeader'):
        cfg = _mc_cfg() .replace('PROPERTY Live_Prompt', 'INVARIANT ' + w)
        rw = tlc.run('FramingMC', cfg_text=cfg, name=w, must_complete=False)
        if rw.error != 'invariant:' + w:
            raise MachineryError('witness %s not reachable (vacuous model): %s' % (w, rw.error))
    rp_ = tlc.run('FramingMC', 'Framing_prefix.cfg', name='prefix', must_complete=False)
    if not (rp_.error or '').startswith('invariant:'):
        raise MachineryError('the pre-fix receiver model is not rejected by the model checker')
    ev.cov['witnesses'] = {'W_NoTruncation': 'reached', 'W_NoSplitHeader': 'reached',
                           'prefix_receiver_model': rp_.error}

    # 1b. unbounded: Apalache discharges the inductive invariant of FramingInd.tla (any length, any cut, any segmentation)
    ev.cov['apalache_inductive_invariant'] = apalache_inductive()

    # 2. spec -> code: every behaviour of the replay constants, forced onto recv_msg
    lensset = 'Lens_replay' if tier == 'quick' else 'Lens_replay_thorough'
    cfg = _mc_cfg(Hist='TRUE', LensSet=lensset).replace('PROPERTY Live_Prompt', 'INVARIANT PathDump')
    rpaths = tlc.run('FramingMC', cfg_text=cfg, workers=1, name='paths', timeout=3000)
    ev.add_tlc('path dump %s (Hist=TRUE: one state per behaviour prefix)' % lensset, rpaths)
    if rpaths.error:
        raise MachineryError('path dump failed: ' + rpaths.error)
    paths = rpaths.tags.get('PATH', [])
    records, traces, meta = [], [], {}
    conf_mismatch = 0

    def one(lens, cut, endk, plan, expect=None, rng_=None):
        nonlocal conf_mismatch
        rec, log = execute(remote, lens, cut, endk, plan, rng_)
        rid = 'r%d' % len(records)
        rec['id'] = rid
        records.append(rec)
        meta[rid] = {'lens': lens, 'cut': cut, 'endk': endk, 'plan': plan}
        traces.append({'id': rid, 'lens': lens, 'cut': cut, 'endk': endk, 'calls': log,
                       'outcome': rec['obs']['outcome'] if rec['obs']['outcome'] in ('done', 'CCE', 'spin') else 'other',
                       'nout': len(rec['obs']['msgs'])})
        if expect is not None:
            segs, outc, nout = expect
            if log != segs or rec['obs']['outcome'] != outc or len(rec['obs']['msgs']) != nout:
                conf_mismatch += 1
                if len(drift) < 3:
                    drift.append('recv_msg deviates from the TLC behaviour: scn=%s spec calls=%s real calls=%s real outcome=%s'
                                 % (rec['scn'], segs, log, rec['obs']['outcome']))
        return rec

    for lens_s, cut, endk, segs_s, outc, nout in paths:
        lens, segs = _tla_seq(lens_s), _tla_seq(segs_s)
        one(lens, cut, endk, [k for _, k in segs], (segs, outc, nout))
    n_paths = len(records)

    # 3. long streams: TLC simulation picks the segmentations (representative chunk sizes)
    nsim = 40 if tier == 'quick' else 400
    cfg = _mc_cfg(Hist='TRUE', LensSet='Lens_big', ChunkAll='FALSE').replace('PROPERTY Live_Prompt', 'INVARIANT PathDump')
    cfg = cfg.replace('SPECIFICATION Spec', 'INIT Init\nNEXT Next')
    rsim = tlc.run('FramingMC', cfg_text=cfg, workers=1, simulate='num=%d' % nsim, depth=60, seed=seed(),
                   name='sim', must_complete=False, timeout=1200)
    ev.add_tlc('simulation Lens_big (payloads up to 520 KB)', rsim)
    if rsim.error or not rsim.tags.get('PATH'):
        raise MachineryError('simulation of long streams failed: %s\n%s' % (rsim.error, rsim.stdout[-1500:]))
    for lens_s, cut, endk, segs_s, outc, nout in rsim.tags.get('PATH', []):
        lens, segs = _tla_seq(lens_s), _tla_seq(segs_s)
        one(lens, cut, endk, [k for _, k in segs], (segs, outc, nout))
    n_sim = len(records) - n_paths
    # every single cut / seeded random multi-cuts of the long streams, every 1-byte segmentation
    big = [[70000], [300, 66000, 5], [520000, 4]] if tier == 'thorough' else [[70000], [300, 66000, 5]]
    for lens in big:
        total = sum(4 + x for x in lens)
        one(lens, total, 'none', [], rng_=random.Random(rng.random()))
        offs = sorted(set([0, 1, 3, 4, 5, total - 1, total // 2] + [rng.randrange(total) for _ in range(6 if tier == 'quick' else 60)]))
        for cut in offs:
            for endk in ('fin', 'rst'):
                one(lens, cut, endk, [], rng_=random.Random(rng.random()))
    for lens in ([4], [5, 4], [5, 4, 4, 5], [17, 4, 40]):
        total = sum(4 + x for x in lens)
        one(lens, total, 'none', [1] * total)

    # 3b. the sender: real send_msg onto a transport that accepts short writes, read back by the real recv_msg
    n_sent = 0
    for objs in ([None], [0, None], ['x' * 300, {'k': [1, 2]}, b'\x00' * 70000, 'tail'], [b'z' * 300000, 5]):
        for rep in range(3 if tier == 'quick' else 12):
            rec, scalls = execute_sent(remote, objs, random.Random(rng.random()))
            rid = 'r%d' % len(records)
            rec['id'] = rid
            records.append(rec)
            meta[rid] = {'lens': rec['scn']['lens'], 'cut': rec['scn']['cut'], 'endk': 'none', 'plan': [], 'sender_calls': scalls[:12]}
            n_sent += 1
    # body lengths around the multiples of the usual chunk sizes: a sender that slices its packet must not lose the tail
    chunks = (4096, 16384, 65536) + ((1 << 20,) if tier == 'thorough' else ())
    for c in chunks:
        for mult in (1, 2):
            for d in (-5, -4, -3, -2, -1, 0, 1, 2):
                L = c * mult + d
                _, objs1 = _frames_for([L], remote)
                rec, scalls = execute_sent(remote, objs1 + [5], random.Random(rng.random()))
                rid = 'r%d' % len(records)
                rec['id'] = rid
                records.append(rec)
                meta[rid] = {'lens': rec['scn']['lens'], 'cut': rec['scn']['cut'], 'endk': 'none', 'plan': [], 'sender_calls': scalls[:12]}
                n_sent += 1
    ev.cov['sender_executions'] = n_sent

    # 4. TLC judges every real execution with the C10 operators
    fails, rj = tlc.judge('FramingJudge', records, name='judge')
    ev.add_tlc('judge: C10 operators on %d real executions' % len(records), rj, role='judge')
    byid = {}
    for rid, clause in fails:
        byid.setdefault(rid, []).append(clause)
    for rid, clauses in byid.items():
        m = meta[rid]
        rec = next(x for x in records if x['id'] == rid)
        total = sum(4 + x for x in m['lens'])
        kind = 'complete' if m['cut'] == total else 'truncated-' + m['endk']
        sig = 'C10|%s|%s|outcome=%s' % ('+'.join(sorted(clauses)), kind, rec['obs']['outcome'])
        violations.append(Violation('C10', sig, 'recv_msg: %s fails on %s stream lens=%s cut=%d: outcome %s after %d recv calls, delivered %s'
                                    % (','.join(clauses), kind, m['lens'], m['cut'], rec['obs']['outcome'], rec['obs']['calls'], rec['obs']['msgs']), m))

    # 5. code -> spec: every logged recv() sequence must be a behaviour of Framing.tla
    d = sub_scratch('ftrace')
    tf = os.path.join(d, 'traces.json')
    with open(tf, 'w') as f:
        json.dump(traces, f)
    cfgt = ('INIT TInit\nNEXT TNext\nINVARIANT TAccept\nCONSTANTS\n ReadExact = TRUE\n Hist = TRUE\n ChunkAll = TRUE\n'
            ' LensSet = {}\nCHECK_DEADLOCK FALSE\n')
    rt = tlc.run('FramingTrace', cfg_text=cfgt, workers=1, env={'TRACE_FILE': tf}, name='trace', timeout=1800)
    ev.add_tlc('trace validation of %d recv() logs' % len(traces), rt, role='trace')
    accepted = set(x[0] for x in rt.tags.get('ACCEPT', []))
    rejected = [t['id'] for t in traces if t['id'] not in accepted]
    if rejected:
        t0 = next(t for t in traces if t['id'] == rejected[0])
        drift.append('%d recv() traces are not behaviours of Framing.tla, first: lens=%s cut=%s endk=%s calls=%s outcome=%s'
                     % (len(rejected), t0['lens'], t0['cut'], t0['endk'], t0['calls'][:12], t0['outcome']))

    ev.cov['traces_validated_against_impl'] = len(accepted)
    ev.cov['evaluations'] = len(records)
    ev.cov['distinct_nontrivial'] = len(set((tuple(m['lens']), m['cut'], m['endk'], tuple(m['plan'])) for m in meta.values()
                                            if m['cut'] > 0))
    ev.cov['rule'] = ('each case = (message lengths, truncation offset, FIN/RST, segmentation); enumerated by TLC '
                      '(path dump of Framing.tla, %d paths; simulation, %d) plus seeded cuts of long streams; '
                      'non-trivial = at least one byte reaches the receiver' % (n_paths, n_sim))
    ev.cov['exhaustive'] = True
    ev.cov['replayed_paths'] = n_paths
    ev.cov['replay_mismatches'] = conf_mismatch
    ev.cov['trace_rejections'] = len(rejected)
    for rec in records[:2] + records[n_paths:n_paths + 1] + records[-1:]:
        ev.sample({'scn': rec['scn'], 'obs': rec['obs']})
    ev.assumptions += ['sender writes header+body atomically (sendall); transport = reliable byte stream that may end',
                       'payload bytes abstracted to message identity in the model; real frames are remote_pickle output',
                       'exhaustive segmentation only for streams <= 26 bytes; long streams by TLC simulation and seeded cuts']
    return finish(ev, violations, T.s(), drift)
