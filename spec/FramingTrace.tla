---------------------------- MODULE FramingTrace ----------------------------
(* code -> spec: the scripted socket logs <<requested, returned>> for every recv()     *)
(* call the real recv_msg makes; a trace is accepted iff it is a behaviour of          *)
(* Framing.tla (same actions, logged fields bound) ending in the logged outcome.       *)
EXTENDS Framing, Json, IOUtils
Traces == JsonDeserialize(IOEnv.TRACE_FILE)
VARIABLES tid, l
tvars == <<vars, tid, l>>
T == Traces[tid]
\* any size the transport could have returned (not only the representative ones)
Possible(n, k) == IF pos < cut THEN k \in 1..Min(n, cut - pos)
                  ELSE (endk = "fin" /\ k = 0) \/ (endk = "rst" /\ k = RST)
TInit == /\ tid \in 1..Len(Traces) /\ l = 1
         /\ lens = Traces[tid].lens /\ cut = Traces[tid].cut /\ endk = Traces[tid].endk
         /\ pos = 0 /\ rpc = "hdr" /\ got = 0 /\ need = 0 /\ msg = 1
         /\ out = <<>> /\ calls = 0 /\ segs = <<>>
TNext == /\ l <= Len(T.calls)
         /\ LET n == T.calls[l][1]  k == T.calls[l][2] IN
            /\ Possible(n, k)
            /\ (HdrStep(n, k) \/ BodyStep(n, k))
         /\ l' = l + 1 /\ UNCHANGED tid
TSpec == TInit /\ [][TNext]_tvars
Accepted == (l = Len(T.calls) + 1 /\ rpc = T.outcome /\ Len(out) = T.nout)
TAccept == Accepted => PrintT(<<"ACCEPT", T.id>>)
=============================================================================
