----------------------------- MODULE PoolJudge -----------------------------
(* TLC as the judge of real Pool.run executions (C07, C08 operators of PoolProps). *)
EXTENDS PoolProps, Json, IOUtils, TLC
Recs == JsonDeserialize(IOEnv.REC_FILE)
VARIABLE i
JInit == i \in 1..Len(Recs)
JNext == UNCHANGED i
Chk(name, ok) == ok \/ PrintT(<<"FAIL", Recs[i].id, name>>)
JInv == /\ Chk("C07_NoInternalError", C07_NoInternalError(Recs[i]))
        /\ Chk("C07_ExactlyOnce", C07_ExactlyOnce(Recs[i]))
        /\ Chk("C07_Terminates", C07_Terminates(Recs[i]))
        /\ Chk("C08_SoundError", C08_SoundError(Recs[i]))
        /\ Chk("C08_SurvivorSuffices", C08_SurvivorSuffices(Recs[i]))
        /\ Chk("C08_Genuine", C08_Genuine(Recs[i]))
        /\ Chk("C08_MissingExplained", C08_MissingExplained(Recs[i]))
=============================================================================
