--------------------------- MODULE PoolLifeJudge ---------------------------
(* TLC as the judge of real pool histories (C09 operators), one FAIL line per failing     *)
(* (record, clause, step index).                                                          *)
EXTENDS PoolLifeProps, Json, IOUtils, TLC
Recs == JsonDeserialize(IOEnv.REC_FILE)
VARIABLE i
JInit == i \in 1..Len(Recs)
JNext == UNCHANGED i
R == Recs[i]
Chk(name, k, ok) == ok \/ PrintT(<<"FAIL", R.id, name \o "@" \o ToString(k)>>)
JInv == /\ Chk("C09_Configurable", 0, C09_Configurable(R))
        /\ \A k \in 1..Len(R.obs.steps) :
          LET s == R.obs.steps[k] IN
          /\ Chk("C09_AllDead", k, AllDeadS(R, s))
          /\ Chk("C09_RunIsolated", k, RunIsolatedS(R, s))
          /\ Chk("C09_NoWorkToDead", k, NoWorkToDeadS(R, s))
          /\ Chk("C09_RestartedGetWork", k, RestartedGetWorkS(R, s))
          /\ Chk("C09_NoLeak", k, NoLeakS(R, s))
=============================================================================
