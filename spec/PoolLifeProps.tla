---------------------------- MODULE PoolLifeProps ----------------------------
(* C09 as operators over an observable record r = [scn |-> ..., obs |-> ...].            *)
(*   scn.force   "none" (pool default) | "false" (user disabled forced termination)       *)
(*   scn.retry   "T" | "F": Pool(retry=...)                                                  *)
(*   scn.ctimeout "small" | "none" (Pool(close_timeout=None): wait as long as it takes)      *)
(*   obs.created "ok" | "raised": the Pool with this configuration could be constructed       *)
(*   scn.ops     the history (add:<kind> addfail dup:<wid> attach:<kind> run runp         *)
(*               runl (poison that leaves the worker's process lingering) runabort (run     *)
(*               abandoned by the worker_callback at the first 'enqueued')                 *)
(*               runint (run left through a BaseException) restart restartg (force=False)  *)
(*               kill:<wid> stick:<wid> close terminate exc; closeint / termint =          *)
(*               close / terminate cut short by an exception in the closing thread)       *)
(*   obs.steps   one record per executed operation:                                       *)
(*     op        the operation                                                            *)
(*     outcome   "ok" | "raised" | "hung"                                                 *)
(*     closing   "T" iff the operation is close / terminate / exception exit of the       *)
(*               with-block                                                               *)
(*     alive_owned   process/remote workers ever handed to or created by the pool whose   *)
(*               child process is alive in the OS process table after the operation       *)
(*     live_unreg    live child processes that belong to no worker in pool.workers and    *)
(*               were not in that condition before this operation (caused by it)          *)
(*     extra     inputs handed to workers / results returned by this run that do not      *)
(*               belong to this run's inputs                                              *)
(*     missing   inputs of this run for which no result was returned                       *)
(*     fresh_dead  registered workers that were dead (OS) at the start of this run without  *)
(*               an earlier run having met their death (with retry off the input offered to  *)
(*               such a worker is lost by design)                                            *)
(*     spoiled   1 iff a plain run on an open pool raised although a registered worker    *)
(*               that was alive before the run is still alive after it                    *)
(*     dead_got_work  workers that were dead (OS) before this run and were handed inputs  *)
(*     restarted_no_work  live workers restarted since the previous run that were handed  *)
(*               no input although inputs outnumbered the workers                         *)
EXTENDS Naturals, Sequences

Steps(r) == {r.obs.steps[k] : k \in 1..Len(r.obs.steps)}
IsAdd(op) == op \in {"add", "addfail", "dup", "attach"}
IsReg(op) == IsAdd(op) \/ op \in {"restart", "restartg"}       \* calls that (re-)register workers
IsRun(op) == op \in {"run", "runp", "runl"}
\* the closing call is over: it returned, or raised by itself (closeint / termint are cut short from outside)
ClosingOver(s) == s.closing = "T" /\ (s.outcome = "ok" \/ (s.outcome = "raised" /\ s.op \notin {"closeint", "termint"}))

AllDeadS(r, s)          == (ClosingOver(s) /\ r.scn.force # "false") => s.alive_owned = 0
RunIsolatedS(r, s)      == /\ IsRun(s.op) => (s.extra = 0 /\ s.spoiled = 0)
                           \* a plain run that ends normally and met no death it had to discover returns an answer for every input
                           /\ (s.op = "run" /\ s.outcome = "ok" /\ s.fresh_dead = 0) => s.missing = 0
NoWorkToDeadS(r, s)     == IsRun(s.op) => s.dead_got_work = 0
RestartedGetWorkS(r, s) == (IsRun(s.op) /\ s.outcome = "ok") => s.restarted_no_work = 0
NoLeakS(r, s)           == (IsReg(s.op) /\ s.outcome = "raised") => s.live_unreg = 0

\* every configuration of the quantifier (close_timeout small / None, force default / False) yields a pool
C09_Configurable(r)     == r.obs.created = "ok"
C09_AllDead(r)          == \A s \in Steps(r) : AllDeadS(r, s)
C09_RunIsolated(r)      == \A s \in Steps(r) : RunIsolatedS(r, s)
C09_NoWorkToDead(r)     == \A s \in Steps(r) : NoWorkToDeadS(r, s)
C09_RestartedGetWork(r) == \A s \in Steps(r) : RestartedGetWorkS(r, s)
C09_NoLeak(r)           == \A s \in Steps(r) : NoLeakS(r, s)
=============================================================================
