---------------------------- MODULE ServerJudge ----------------------------
(* TLC as the judge of real executions: evaluates the C11 / C18 / C12 operators of       *)
(* ServerProps.tla on (scn, obs) records projected from runs against a real server.       *)
EXTENDS ServerProps, Json, IOUtils
Recs == JsonDeserialize(IOEnv.REC_FILE)
VARIABLE i
JInit == i \in 1..Len(Recs)
JNext == UNCHANGED i
R == Recs[i]
Chk(name, ok) == ok \/ PrintT(<<"FAIL", R.id, name>>)
J11 == /\ Chk("C11_ServerAlive", C11_ServerAlive(R))
       /\ Chk("C11_Serves", C11_Serves(R))
       /\ Chk("C11_OthersUndisturbed", C11_OthersUndisturbed(R))
J18 == /\ Chk("C18_Table", C18_Table(R))
       /\ Chk("C18_DuplicateRejected", C18_DuplicateRejected(R))
       /\ Chk("C18_FirstIntact", C18_FirstIntact(R))
       /\ Chk("C18_WorkersRunCtxTarget", C18_WorkersRunCtxTarget(R))
       /\ Chk("C18_DeleteEndsWorkers", C18_DeleteEndsWorkers(R))
       /\ Chk("C18_Reusable", C18_Reusable(R))
       /\ Chk("C18_UnknownHarmless", C18_UnknownHarmless(R))
J12 == /\ Chk("C12_Reaped", C12_Reaped(R))
       /\ Chk("C12_ParentsKnow", C12_ParentsKnow(R))
       /\ Chk("C12_ErrorKind", C12_ErrorKind(R))
       /\ Chk("C12_NoParentBlock", C12_NoParentBlock(R))
JInv == CASE R.prop = "C11" -> J11
          [] R.prop = "C18" -> J18
          [] R.prop = "C12" -> J12
=============================================================================
