SPECIFICATION Spec
CONSTANTS
  Kinds <- K_all
  DTypes <- DT_all
  DArgsSet <- DA_mc
  DKwSet <- DK_mc
  Shapes <- Sh_small
  Ops <- Ops_c05
  MaxSteps = 5
  MaxEnq = 2
  MaxRestarts = 0
  Settle = FALSE
  AllowBlock = FALSE
  Hist = FALSE
  TupleFix = FALSE
  CounterFirst = TRUE
  FreshPipe = TRUE
  ResetClosed = TRUE
  BlockAfterClose = TRUE
  BusyTicks = 3
  SlowTicks = 3
  WaitT = 1
  TermT = 5
  WaitTruthful = TRUE
  TermOwnTimeout = TRUE
  ClosedGuard = TRUE
  EnqChecksAlive = TRUE
  WaitSwallowsBadResult = TRUE
  AliveAsksServer = TRUE
  IterExact = TRUE
  OwnRunScn = FALSE
  RestartKeepsRun = TRUE
INVARIANT TypeOK
INVARIANT Inv_C05_Stream
INVARIANT Inv_C05_Count
INVARIANT Inv_C05_Closed
INVARIANT Inv_C05_Call
INVARIANT Inv_C05_End
INVARIANT Inv_C05_Returns
INVARIANT Inv_C17_Returns
CHECK_DEADLOCK FALSE
