SPECIFICATION Spec
CONSTANTS
  Kinds <- K_all
  DTypes <- DT_list
  DArgsSet <- DA_one
  DKwSet <- DK_one
  Shapes <- Sh_one
  Ops <- Ops_c17
  MaxSteps = 6
  MaxEnq = 3
  MaxRestarts = 2
  Settle = FALSE
  AllowBlock = FALSE
  Hist = FALSE
  TupleFix = TRUE
  CounterFirst = TRUE
  FreshPipe = TRUE
  ResetClosed = TRUE
  BlockAfterClose = TRUE
  BusyTicks = 3
  SlowTicks = 3
  WaitT = 1
  TermT = 5
  WaitTruthful = TRUE
  TermOwnTimeout = TRUE
  ClosedGuard = TRUE
  EnqChecksAlive = TRUE
  WaitSwallowsBadResult = TRUE
  AliveAsksServer = TRUE
  IterExact = TRUE
  OwnRunScn = FALSE
  RestartKeepsRun = TRUE
INVARIANT TypeOK
INVARIANT Inv_C05_Stream
INVARIANT Inv_C05_Closed
INVARIANT Inv_C05_Call
INVARIANT Inv_C05_End
INVARIANT Inv_C05_Returns
INVARIANT Inv_C17_Returns
INVARIANT Inv_C17_Live
INVARIANT Inv_C17_Equivalent
INVARIANT Inv_C17_NewIdentity
INVARIANT Inv_C17_FreshStream
INVARIANT Inv_C17_CounterZero
INVARIANT Inv_C17_RaisesNotAbandons
CHECK_DEADLOCK FALSE
