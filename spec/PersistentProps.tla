--------------------------- MODULE PersistentProps ---------------------------
(* C05 and C17 as operators over an observable record r = [scn |-> ..., obs |-> ...].      *)
(*                                                                                          *)
(* scn.kind   "thread" | "process" | "remote"                                               *)
(* scn.dtype  "list" | "tuple"      container type of the default positional arguments      *)
(* scn.dargs  default positional arguments (sequence of strings)                            *)
(* scn.dkw    default keyword arguments (sequence of <<key, value>>)                        *)
(* obs.incs   one record per incarnation of the worker (1 = as constructed, i+1 = after     *)
(*            the i-th successful restart()):                                               *)
(*   enq     the enqueues that were accepted (enqueue()/call() returned without             *)
(*           WorkerClosedError), in order: [a |-> positional args, kw |-> <<key,value>>s]   *)
(*   raw     every message read from worker.results_endpoint, in order (by next_result(),   *)
(*           call() and the final drain): [c |-> counter, f |-> "T"|"F", v |-> value]       *)
(*   got     the values the caller OBTAINED, in order: what next_result() / call() returned,  *)
(*           what results_iter() yielded, and what the final drain of the endpoint found    *)
(*           (raw is what was read from the endpoint: a value read but not handed out is    *)
(*           in raw and missing in got)                                                     *)
(*   late    outcomes ("ok" | "WCE" | "raised:X") of the enqueue attempts made after        *)
(*           close()/wait() was called or after the death of the child (observed through    *)
(*           the API, caused by the scenario, or established from the OS by the harness)    *)
(*   calls   one record per call(): k = index in enq of its item (0 = refused), out =       *)
(*           "val" | "WCE" | "Empty" | "raised:X", v = value returned, nread = number of    *)
(*           valid results read before, late = "T" iff after close/observed death           *)
(*   bempty  one record per BLOCKING next_result()/results_iter() step that signalled the    *)
(*           end of the stream (raised queue.Empty): nread = valid results read before it,  *)
(*           nenq = enqueues accepted before it                                             *)
(*   hung    the calls that did not return within their bound (the replay only issues calls *)
(*           that the specification marks as returning): operation names, e.g. "nextnb"     *)
(*   first   outcome of the first enqueue attempted before any close/death ("none" if none) *)
(*   alive0  is_alive() immediately after construction / restart                            *)
(*   waited  "T" iff the final wait() returned True ("none": not the last incarnation)      *)
(*   result  worker.result after that wait: [k |-> "val"|"none"|"other"|"na", n |-> Nat]    *)
(*   fault   "none" | "poison" | "stuck" | "kill" | "term" | "busy" | "slowres"             *)
(*           what the scenario did to it ("busy": a target with a blocking step that ends   *)
(*           by itself; "slowres": a result that the parent side takes long to rebuild)     *)
(*   id, name, userid   identity (ids numbered by first appearance)                         *)
(*   endk    "final" | "restarted"; oldos = OS liveness ("dead"|"alive") of this            *)
(*           incarnation's child right after the restart() that replaced it                 *)
(*   rraised one record per restart() that raised: still = "T" iff afterwards the worker    *)
(*           still is the old incarnation (same id, is_alive(), child alive in the OS)      *)
(* A value is [t |-> "echo"|"none"|"zero"|"empty"|"big"|"released"|"nil"|"other", a, kw]:   *)
(* the target returns (args, kwargs) ("echo") unless its first argument asks for a          *)
(* None / 0 / '' / 70 KB result ("@none", "@zero", "@empty", "@big").                       *)
EXTENDS Naturals, Sequences, FiniteSets

Range(s) == {s[k] : k \in 1..Len(s)}

\* positional merge: the enqueued arguments replace the leading defaults (all of x when longer)
Merge(d, x) == IF Len(x) >= Len(d) THEN x ELSE x \o SubSeq(d, Len(x) + 1, Len(d))
Keys(s) == {p[1] : p \in Range(s)}
\* keyword merge: enqueued keyword arguments override default ones
KwMerge(d, x) == {p \in Range(d) : p[1] \notin Keys(x)} \cup Range(x)

SpecTag(s) == CASE s = "@none" -> "none" [] s = "@zero" -> "zero" [] s = "@empty" -> "empty"
                [] s = "@big" -> "big" [] s = "@stuck" -> "released" [] s = "@busy" -> "busydone"
                [] s = "@slowres" -> "slow" [] s = "@linger" -> "lingering" [] OTHER -> "echo"
IsSpecial(a) == Len(a) > 0 /\ a[1] \in {"@none", "@zero", "@empty", "@big", "@stuck", "@busy", "@slowres", "@linger"}

\* v is what the target returns for the enqueue e on pristine defaults d / dk
ValueOK(v, d, dk, e) ==
   LET a == Merge(d, e.a)
       kw == KwMerge(dk, e.kw)
   IN IF IsSpecial(a) THEN v.t = SpecTag(a[1])
      ELSE /\ v.t = "echo"
           /\ v.a = a
           /\ Range(v.kw) = kw
           /\ Len(v.kw) = Cardinality(kw)

Valid(raw) == SelectSeq(raw, LAMBDA m : m.f = "T")
Ends(raw) == SelectSeq(raw, LAMBDA m : m.f = "F")
Incs(r) == r.obs.incs
LastInc(r) == Incs(r)[Len(Incs(r))]

\* the k-th value obtained is the target applied to the merge of the k-th accepted enqueue
StreamOK(r, I) == LET V == Valid(I.raw) IN
   /\ \A k \in 1..Len(V) : /\ k <= Len(I.enq)
                           /\ ValueOK(V[k].v, r.scn.dargs, r.scn.dkw, I.enq[k])
   /\ \A k \in 1..Len(I.got) : /\ k <= Len(I.enq)
                               /\ ValueOK(I.got[k], r.scn.dargs, r.scn.dkw, I.enq[k])

C05_Stream(r) == \A i \in 1..Len(Incs(r)) : StreamOK(r, Incs(r)[i])

\* after wait(): the stream ends exactly once, result = #enqueues = #delivered
C05_Count(r) == LET I == LastInc(r) IN
   (I.waited = "T" /\ I.fault = "none") =>
      /\ I.result.k = "val"
      /\ I.result.n = Len(I.enq)
      /\ Len(Valid(I.raw)) = Len(I.enq)
      /\ Len(I.got) = Len(I.enq)
      /\ Len(Ends(I.raw)) = 1
      /\ I.raw[Len(I.raw)].f = "F"

\* a blocking read signals the end of the stream only when every accepted enqueue has been delivered
\* (close() only says that no more input comes: the child may still owe results)
C05_End(r) == \A i \in 1..Len(Incs(r)) : LET I == Incs(r)[i] IN
   I.fault = "none" => \A j \in 1..Len(I.bempty) : I.bempty[j].nread = I.bempty[j].nenq

\* every call of an enabled history returns (a non-blocking next_result, an enqueue, close, is_alive at once;
\* wait / call / a blocking next_result with something outstanding when the child has got there)
RestartOps == {"restart", "restartP", "restartT", "restartTnf", "restartK", "restartKP"}
C05_Returns(r) == \A i \in 1..Len(Incs(r)) : \A j \in 1..Len(Incs(r)[i].hung) : Incs(r)[i].hung[j] \in RestartOps

\* enqueue after close() or after death raises WorkerClosedError
C05_Closed(r) == \A i \in 1..Len(Incs(r)) : \A j \in 1..Len(Incs(r)[i].late) : Incs(r)[i].late[j] = "WCE"

\* call(x) on a (live, open) worker with no outstanding results returns the target's value for x
C05_Call(r) == \A i \in 1..Len(Incs(r)) : LET I == Incs(r)[i] IN
   \A j \in 1..Len(I.calls) : LET c == I.calls[j] IN
      (c.late = "F" /\ I.fault = "none" /\ (c.k = 0 \/ c.nread = c.k - 1)) =>
         /\ c.out = "val"
         /\ c.k \in 1..Len(I.enq)
         /\ ValueOK(c.v, r.scn.dargs, r.scn.dkw, I.enq[c.k])

\* ------------------------------------------------------------------ C17 ----
Restarted(r) == 2..Len(Incs(r))          \* incarnations created by a successful restart()

\* restart() returns with a live worker (alive, takes work); it may raise only if the old
\* incarnation cannot be stopped
C17_Live(r) ==
   /\ \A i \in Restarted(r) : Incs(r)[i].alive0 = "T" /\ Incs(r)[i].first \in {"ok", "none"}
   /\ \A i \in 1..Len(Incs(r)) : Len(Incs(r)[i].rraised) > 0 => Incs(r)[i].fault = "stuck"

\* restart() itself returns (or raises), and the worker it returns is usable: nothing hangs on it
C17_Returns(r) ==
   /\ \A i \in 1..Len(Incs(r)) : \A j \in 1..Len(Incs(r)[i].hung) : Incs(r)[i].hung[j] \notin RestartOps
   /\ \A i \in 2..Len(Incs(r)) : Len(Incs(r)[i].hung) = 0

\* same target, defaults, name and userid
C17_Equivalent(r) == \A i \in Restarted(r) :
   /\ Incs(r)[i].name = Incs(r)[1].name
   /\ Incs(r)[i].userid = Incs(r)[1].userid
   /\ StreamOK(r, Incs(r)[i])

C17_NewIdentity(r) == r.scn.kind \in {"process", "remote"} =>
   \A i \in Restarted(r) : Incs(r)[i].id # Incs(r)[i - 1].id

\* the new stream never yields results of a previous incarnation: whatever it yields answers an
\* enqueue of the new incarnation (the scenarios mark every enqueue with a unique first argument)
C17_FreshStream(r) == \A i \in Restarted(r) : LET I == Incs(r)[i] V == Valid(I.raw) IN
   /\ Len(V) <= Len(I.enq)
   /\ \A k \in 1..Len(V) : \A j \in 1..(i - 1) : \A e \in Range(Incs(r)[j].enq) :
        (V[k].v.t = "echo" /\ Len(e.a) > 0 /\ Len(V[k].v.a) > 0) => V[k].v.a[1] # e.a[1]
   /\ (Len(I.raw) > 0 /\ I.raw[1].f = "F") => Len(V) = 0

\* the result counter starts from zero: the k-th result carries k, the end marker the total
C17_CounterZero(r) == \A i \in Restarted(r) : LET I == Incs(r)[i] V == Valid(I.raw) E == Ends(I.raw) IN
   /\ \A k \in 1..Len(V) : V[k].c = k
   /\ (I.waited = "T" /\ I.fault = "none") => (I.result.k = "val" /\ I.result.n = Len(I.enq))
   /\ \A k \in 1..Len(E) : E[k].c <= Len(I.enq)

\* it never abandons a running child: replaced => the old child is dead; raised => still its child
C17_RaisesNotAbandons(r) == \A i \in 1..Len(Incs(r)) : LET I == Incs(r)[i] IN
   /\ I.endk = "restarted" => I.oldos = "dead"
   /\ \A j \in 1..Len(I.rraised) : I.rraised[j].still = "T"
=============================================================================
