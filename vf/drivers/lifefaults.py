"""C01 / C03 / C06 / C16 - one life of one worker under faults placed by the in-child tracer.

spec/OneShot.tla models the child's run loop by region (exception routing, result protocol,
landing of the asynchronous exception and kills at every label) and is model-checked; the
real side executes real workers of all six classes with a fault at enumerated *line events*
of the child's run loop (graceful terminate landing there, SIGKILL/SIGTERM there, kill while
blocked sending a big result) and hands the projected (scn, obs) records to TLC (LifeJudge),
which evaluates the same operators (LifeProps)."""
import json
import multiprocessing as mp
import os
import random
import sys

from .. import tlc
from ..common import MachineryError, Timer, VERIF, seed
from ..report import Evidence, Violation, finish

_NOTE = ('Trusted: TLC; the in-child tracer (sys.settrace line events; asynchronous exceptions are delivered by CPython at eval-breaker '
         'checkpoints, so line granularity over-approximates where they can land); abstraction of values to own/other. '
         'Quick tier samples landing points per function for process/remote kinds; thorough takes every line event.')
CHECKS = {
    'C01': dict(engine='OneShot', technique='TLA+ spec OneShot.tla (child run loop by region, exception routing, result protocol, landings and kills at every label) model-checked with TLC; faults forced at enumerated line events of real children by an in-child tracer; TLC judge (LifeJudge) on every real life',
                text='TLC checks the outcome-shape invariants over every landing/kill label of the run-loop model for the three kinds; the same operators are evaluated by TLC on records of real workers of all six classes ended in every way (return, Exception, BaseException, un-rebuildable exception, terminate landing at enumerated line events incl. handler and cleanup, SIGKILL/SIGTERM there, kill while blocked sending a 3 MB result) with repeated observation after death.',
                note=_NOTE, design_ref='6/C01'),
    'C03': dict(engine='OneShot', technique='TLA+ spec OneShot.tla model-checked with TLC (Land action at every label); graceful terminate landed on enumerated line events of real children via pause/resume handshake of the in-child tracer; TLC judge (LifeJudge)',
                text='Every line-level landing point of the asynchronous WorkerTerminatedError from construction-complete to exit (sampled per function for process/remote in the quick tier) for thread, process and remote workers, one-shot and persistent, targets with try/finally that return or raise; where the exception surfaced is reported by the agent, not guessed; TLC judges Reported / NothingElse / OwnOutcome / DeadInTime.',
                note=_NOTE, design_ref='6/C03'),
    'C06': dict(engine='OneShot', technique='TLA+ spec OneShot.tla (persistent loop: recv, run, counter, send, cleanup/end marker, frontend forwarding) model-checked with TLC; terminate/SIGKILL/target exception forced at enumerated line events of real persistent children; TLC judge (IsPrefix, stream ends)',
                text='Persistent workers of the three kinds with 0-3 items, faults at line events of the child loop (between receiving input, calling the target, incrementing the counter, sending the result, cleanup); the drained stream must be a prefix of the expected sequence and must end (no blocking) - judged by TLC on every real run.',
                note=_NOTE, design_ref='6/C06'),
    'C16': dict(engine='OneShot', technique='TLA+ spec OneShot.tla (user_state child/parent copies, end-of-life send) model-checked with TLC; real workers whose run() assigns user_state, faults via in-child tracer, restart chains; TLC judge',
                text='user_state observed by the parent while the child is paused (must be the initial value for process/remote), after every kind of end that can report (must be the last assigned value, with the assignment/log window accounted for), the setter from the parent, and restart chains.',
                note=_NOTE, design_ref='6/C16'),
}

ANCHOR_FILES = ('thread.py', 'process.py', 'remote.py', 'persistent_thread.py', 'persistent_process.py', 'persistent_remote.py', 'persistent.py')

_H = None


def _init_worker():
    global _H
    os.dup2(os.open(os.devnull, os.O_WRONLY), 2)      # tracebacks of deliberately killed children are noise
    sys.path.insert(0, VERIF)
    from vf.lifeharness import Harness
    _H = Harness()
    import atexit
    atexit.register(_H.close)


def _do(case):
    try:
        rec = _H.run_case(case)
    except BaseException as e:  # noqa
        import traceback
        return {'case': case, 'error': traceback.format_exc()[-1500:]}
    rec['case'] = case
    return rec


def _close(_):
    if _H is not None:
        _H.close()
    return True


class Farm:
    """non-daemonic worker processes (they create children themselves), one Harness each"""

    def __init__(self, n=12):
        from concurrent.futures import ProcessPoolExecutor
        self.n = n
        self.pool = ProcessPoolExecutor(n, mp_context=mp.get_context('spawn'), initializer=_init_worker)

    def run(self, cases):
        return list(self.pool.map(_do, cases, chunksize=1))

    def close(self):
        try:
            list(self.pool.map(_close, range(self.n * 3), chunksize=1))
        except Exception:
            pass
        self.pool.shutdown(wait=True, cancel_futures=True)


def pick_points(events, tier, rng, dense):
    """event indices (1-based) where a fault is placed"""
    total = len(events)
    if tier == 'thorough' or dense:
        return list(range(1, total + 1))
    pts = set()
    stride = 7
    off = rng.randrange(stride)
    seen_func = {}
    for i, e in enumerate(events, 1):
        fn, func = e[0], e[1]
        key = (fn, func)
        seen_func[key] = seen_func.get(key, 0) + 1
        anchor = fn in ANCHOR_FILES and func in ('_run', '_run_backend', '_cleanup', '_send_result', 'do_work', '_init_child')
        if anchor or seen_func[key] <= 1 or (i + off) % stride == 0:
            pts.add(i)
    pts.update([1, total])
    return sorted(pts)


def plans(prop, tier):
    """(kind, persistent, ending, items, faults) combos per property"""
    P = []
    kinds = ('thread', 'process', 'remote')
    if prop == 'C01':
        for k in kinds:
            for e in ('ret', 'exc', 'bexc', 'unreb'):
                P.append((k, False, e, 0, ('pause',) if e in ('ret', 'exc') else ()))
            P.append((k, True, 'ret', 2, ('pause',)))
        for k in ('process', 'remote'):
            P.append((k, False, 'ret', 0, ('sigkill', 'sigterm')))
            P.append((k, False, 'big', 0, ()))
            P.append((k, True, 'ret', 2, ('sigkill',)))
    elif prop == 'C03':
        for k in kinds:
            P.append((k, False, 'ret', 0, ('pause',)))
            P.append((k, False, 'exc', 0, ('pause',)))
            P.append((k, True, 'ret', 2, ('pause',)))
    elif prop == 'C06':
        for k in kinds:
            for items in ((0, 2) if tier == 'quick' else (0, 1, 2, 3, 5)):
                P.append((k, True, 'ret', items, ('pause',) + (('sigkill',) if k != 'thread' else ())))
            P.append((k, True, 'exc', 4, ()))
    elif prop == 'C16':
        for k in kinds:
            P.append((k, False, 'ret', 0, ('pause',)))
            P.append((k, False, 'exc', 0, ()))
            P.append((k, True, 'ret', 2, ('pause',)))
    return P


def signature(prop, clauses, rec):
    s, o = rec['scn'], rec['obs']
    rd = o['reads'][0] if o['reads'] else {'has_error': 'na', 'error': 'na', 'result': 'na'}
    return '%s|%s|%s|pers=%s|ending=%s|fault=%s|at=%s:%s|in_target=%s(%s)|finished=%s|dead=%s|he=%s|err=%s|res=%s|us=%s|stream=%s' % (
        prop, '+'.join(sorted(clauses)), s['kind'], s['persistent'], s['ending'], s['fault'], s['file'], s['func'],
        s['in_target'], s.get('region', 'none'), s['target_finished'], o['dead_observed'], rd['has_error'], rd['error'], rd['result'], o['us_end'],
        o['stream']['end'])


def run(prop, tier, replay=None):
    T = Timer()
    ev = Evidence(prop, tier)
    rng = random.Random(seed())
    mine = prop + '_'
    farm = Farm(12)
    try:
        if replay is not None:
            recs = farm.run([replay['replay']['case']])
            rec = recs[0]
            rec['id'] = 'replay'
            fails, _ = tlc.judge('LifeJudge', [_strip(rec)], name='replay')
            print('replayed:', json.dumps(_strip(rec))[:2000])
            bad = [c for _, c in fails if c.startswith(mine)]
            for c in bad:
                print('VIOLATION property=%s replay=(given) clause=%s' % (prop, c))
            return 1 if bad else 0

        model_runs(prop, tier, ev)
        pl = plans(prop, tier)
        sf = prop == 'C16'
        base_cases = [{'kind': k, 'persistent': p, 'ending': e, 'items': it, 'fault': 'none', 'stateful': sf} for (k, p, e, it, f) in pl]
        base = farm.run(base_cases)
        cases = []
        for (k, p, e, it, faults), b in zip(pl, base):
            if 'error' in b:
                raise MachineryError('baseline run failed: %s' % b['error'])
            events = b.get('events') or []
            if not events and faults:
                raise MachineryError('the in-child agent recorded no line events for %s (tracer not loaded?)' % (b['case'],))
            dense = (k == 'thread')
            for f in faults:
                pts = pick_points(events, tier, rng, dense)
                if f in ('sigkill', 'sigterm') and tier == 'quick':
                    pts = pts[::3]
                for n in pts:
                    cases.append({'kind': k, 'persistent': p, 'ending': e, 'items': it, 'fault': f, 'n': n, 'stateful': sf})
        if prop == 'C01':
            for k in ('process', 'remote'):
                cases.append({'kind': k, 'persistent': False, 'ending': 'big', 'items': 0, 'fault': 'bigkill'})
        results = base + farm.run(cases)
    finally:
        farm.close()

    records, byid = [], {}
    for i, r in enumerate(results):
        if 'error' in r:
            raise MachineryError('harness failure on %s: %s' % (r['case'], r['error']))
        r['id'] = 'l%d' % i
        byid[r['id']] = r
        records.append(_strip(r))
    fails, rj = tlc.judge('LifeJudge', records, name='judge', timeout=1200)
    ev.add_tlc('judge: %s operators on %d real worker lives' % (prop, len(records)), rj, role='judge')
    per = {}
    for rid, clause in fails:
        if clause.startswith(mine):
            per.setdefault(rid, []).append(clause)
    violations = []
    for rid, clauses in per.items():
        r = byid[rid]
        violations.append(Violation(prop, signature(prop, clauses, r),
                                    '%s fails for %s%s worker, ending=%s, fault=%s at %s:%s line %s (in_target=%s, target_finished=%s): term_ret=%s dead=%s reads=%s us_end=%s stream=%s'
                                    % (','.join(clauses), 'persistent ' if r['scn']['persistent'] == 'T' else '', r['scn']['kind'], r['scn']['ending'],
                                       r['scn']['fault'], r['scn']['file'], r['scn']['func'], r['scn']['line'], r['scn']['in_target'], r['scn']['target_finished'],
                                       r['obs']['term_ret'], r['obs']['dead_observed'], r['obs']['reads'][:1], r['obs']['us_end'], r['obs']['stream']),
                                    {'case': r['case']}))
    landed = [r for r in results if r['scn'].get('landed') == 'T']
    ev.cov['traces_validated_against_impl'] = len(records)
    ev.cov['evaluations'] = len(records)
    ev.cov['distinct_nontrivial'] = len(set((r['scn']['kind'], r['scn']['persistent'], r['scn']['ending'], r['scn']['fault'], r['scn']['file'],
                                             r['scn']['func'], r['scn']['line']) for r in landed))
    ev.cov['rule'] = ('each case = (worker class, ending, fault kind, line event n of the child run loop); non-trivial and distinct = the fault was '
                      'actually performed (agent report) at a distinct (class, ending, fault, file, function, line)')
    ev.cov['exhaustive'] = tier == 'thorough'
    ev.cov['faults_landed'] = len(landed)
    ev.cov['landing_functions'] = sorted(set('%s:%s' % (r['scn']['file'], r['scn']['func']) for r in landed))[:60]
    for r in (results[:1] + landed[:2] + landed[-2:]):
        ev.sample({'scn': r['scn'], 'obs': {k: v for k, v in r['obs'].items() if k != 'ctor_s'}})
    ev.assumptions += ['faults are placed at line events (opcode-level landings are not enumerated)',
                       'the child reports its own progress through a marker file (start/fin_enter/fin_done/ret/raise/us_pre/us_post)']
    return finish(ev, violations, T.s())


def _strip(r):
    """the record handed to TLC: only scn/obs fields the operators read (strings and ints)"""
    s = r['scn']
    o = r['obs']
    reads = [{k: d[k] for k in ('alive', 'has_error', 'result', 'result_n', 'error')} for d in o['reads']]
    return {'id': r['id'],
            'scn': {k: s[k] for k in ('kind', 'persistent', 'ending', 'fault', 'landed', 'in_target', 'in_finally', 'in_try', 'in_work',
                                       'has_finally', 'target_started', 'target_finished', 'items')},
            'obs': {'dead_observed': o['dead_observed'], 'term_ret': o['term_ret'], 'reads': reads, 'fin_done': o['fin_done'],
                    'us_alive': o['us_alive'] if o['us_alive'] in ('init', 'na') else 'changed', 'us_end': o['us_end'],
                    'setter': o['setter'], 'stream': {'got': o['stream']['got'], 'end': o['stream']['end'], 'again': o['stream'].get('again', 'na')}}}


def model_runs(prop, tier, ev):
    """TLC on the behavioural model (OneShot.tla) - see spec/OneShot.tla; filled in by oneshot_model"""
    try:
        from . import _oneshot_model
    except ImportError:
        return
    _oneshot_model.run(prop, tier, ev)
