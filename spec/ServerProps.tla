---------------------------- MODULE ServerProps ----------------------------
(* C11, C18, C12 as operators over an observable record r = [scn |-> .., obs |-> ..].   *)
(* Observables only: what a client could see (values returned by the public API,        *)
(* exceptions, hangs against a bound) and OS-level liveness of pids.  Every field that   *)
(* can hold "no value" is a tagged string: "T" "F" "None" "v:<x>" "raised:<Type>" "hang".*)
(* The same operators are evaluated on states of Server.tla / ServerCtx.tla /            *)
(* ServerStop.tla and on records projected from real executions (ServerJudge.tla).       *)
EXTENDS Naturals, Sequences, FiniteSets, TLC

(***************************************************************************)
(* C11 - the remote server survives every client failure                   *)
(*   scn.faults  sequence of [req, step, mode] : the faulty clients         *)
(*   obs.srv_alive "T"/"F"   the server process exists after the faults     *)
(*   obs.fresh   one entry per fresh well-behaved client that arrived       *)
(*               after a fault: [got, want] = its worker's result / the     *)
(*               value a direct call gives ("hang", "raised:X" otherwise)   *)
(*   obs.others  one entry per healthy worker that was running while the    *)
(*               faults happened: [got, want, err]                          *)
(***************************************************************************)
C11_ServerAlive(r) == r.obs.srv_alive = "T"
C11_Serves(r) == \A k \in 1..Len(r.obs.fresh) : r.obs.fresh[k].got = r.obs.fresh[k].want
C11_OthersUndisturbed(r) == \A k \in 1..Len(r.obs.others) :
                               /\ r.obs.others[k].got = r.obs.others[k].want
                               /\ r.obs.others[k].err = "F"

(***************************************************************************)
(* C18 - remote contexts: unique per id, supply the work, clean up          *)
(*   scn.hist  sequence of requests [op, id, tok, w, x, k]:                 *)
(*      "create" id tok   register context id whose default is tok           *)
(*      "delete" id       delete context id                                  *)
(*      "start"  id w     start worker w in context id                       *)
(*      "call"   w  x     enqueue x to worker w and take the next result     *)
(*      "callk"  w  x     the same with a keyword of its own for this input  *)
(*      "busy"   w        enqueue a job that is one long blocking call       *)
(*      "cut"    id       the header of a context request (create / delete)  *)
(*                        naming id, then the connection is dropped: no      *)
(*                        request was made - the context exists until it is   *)
(*                        deleted                                             *)
(*      "rstart" id       worker request naming id by a client that has been *)
(*                        reset before the server gets to read the request   *)
(*      "wait"   w        close + wait worker w                              *)
(*   obs.rep   one reply per request (same length as scn.hist):             *)
(*      create: "ok" | "ValueError" ;  delete: "T"/"F" ;                     *)
(*      start: "started" | "nostart" (server gave no worker) ;               *)
(*      call: "v:<n>" | "dead" ;  wait: "T"/"F"                              *)
(*      anything else ("hang", "raised:X") is an observation too             *)
(*   obs.live[k]  for delete requests: the workers (indices) that are still  *)
(*      alive - by the parent-side API or by the OS - shortly after the      *)
(*      reply; <<>> for other requests                                       *)
(*   obs.srv_alive, obs.fresh as for C11 (taken at the end of the history)   *)
(* The dictionary model: Dict maps id -> tok of the registration in force.  *)
(***************************************************************************)
NoTok == 0
\* state of the dictionary model after the first n requests (ids are 1..3, NoTok = unregistered)
RECURSIVE DictAfter(_, _)
DictAfter(h, n) ==
   IF n = 0 THEN [i \in 1..3 |-> NoTok]
   ELSE LET d == DictAfter(h, n - 1)  q == h[n] IN
        IF q.op = "create" /\ d[q.id] = NoTok THEN [d EXCEPT ![q.id] = q.tok]
        ELSE IF q.op = "delete" THEN [d EXCEPT ![q.id] = NoTok]
        ELSE d
\* which registration (tok) worker w belongs to: the dictionary entry at the time of its (last) start; NoTok = never started / refused
RECURSIVE WorkerTok(_, _, _)
WorkerTok(h, n, w) ==
   IF n = 0 THEN NoTok
   ELSE LET q == h[n] IN
        IF q.op = "start" /\ q.w = w THEN DictAfter(h, n - 1)[q.id]
        ELSE WorkerTok(h, n - 1, w)
\* id of the context worker w was started in
RECURSIVE WorkerCtx(_, _, _)
WorkerCtx(h, n, w) ==
   IF n = 0 THEN 0
   ELSE IF h[n].op = "start" /\ h[n].w = w THEN h[n].id ELSE WorkerCtx(h, n - 1, w)
\* worker w has been ended before request n (waited for, or its context deleted) since its last start
RECURSIVE WorkerEnded(_, _, _)
WorkerEnded(h, n, w) ==
   IF n = 0 THEN TRUE
   ELSE LET q == h[n] IN
        IF q.op = "start" /\ q.w = w THEN DictAfter(h, n - 1)[q.id] = NoTok
        ELSE IF q.op = "wait" /\ q.w = w THEN TRUE
        ELSE IF q.op = "delete" /\ q.id = WorkerCtx(h, n - 1, w) THEN TRUE
        ELSE WorkerEnded(h, n - 1, w)

CtxTarget(x, tok) == x * 1000 + tok          \* what vf/drivers/_server_targets.ctx_fun computes
Val(n) == "v:" \o ToString(n)
OverrideTok == 77                            \* the keyword value a "callk" request passes for its own input
\* expected reply of request n according to the dictionary model ("any" = the property does not say)
Expected(h, n) ==
   LET d == DictAfter(h, n - 1)  q == h[n] IN
   CASE q.op = "create" -> IF d[q.id] = NoTok THEN "ok" ELSE "ValueError"
     [] q.op = "delete" -> "T"
     [] q.op = "start"  -> IF d[q.id] = NoTok THEN "nostart" ELSE "started"
     [] q.op = "call"   -> IF WorkerEnded(h, n - 1, q.w) THEN "dead"
                           ELSE Val(CtxTarget(q.x, WorkerTok(h, n - 1, q.w)))
     [] q.op = "callk"  -> IF WorkerEnded(h, n - 1, q.w) THEN "dead"                \* one input with its own keyword: overrides the default
                           ELSE Val(CtxTarget(q.x, OverrideTok))                     \* for THIS input only
     [] q.op = "rstart" -> "nostart"
     [] q.op = "cut"    -> "dropped"
     [] q.op = "wait"   -> "T"
     [] OTHER -> "any"

ReqsOf(r, ops) == {n \in 1..Len(r.scn.hist) : r.scn.hist[n].op \in ops}
\* the context table behaves as a dictionary: every create/delete/start reply is the dictionary's
C18_Table(r) == /\ Len(r.obs.rep) = Len(r.scn.hist)
                /\ \A n \in ReqsOf(r, {"create", "delete", "start"}) : r.obs.rep[n] = Expected(r.scn.hist, n)
\* a duplicate registration is refused with ValueError ...
C18_DuplicateRejected(r) == \A n \in ReqsOf(r, {"create"}) :
                               DictAfter(r.scn.hist, n - 1)[r.scn.hist[n].id] # NoTok => r.obs.rep[n] = "ValueError"
\* ... and leaves the first intact: workers started in that id afterwards still get the first registration's work
C18_FirstIntact(r) == \A n \in ReqsOf(r, {"call"}) :
                         LET q == r.scn.hist[n] IN
                         (~WorkerEnded(r.scn.hist, n - 1, q.w) /\
                          \E m \in 1..(n - 1) : /\ r.scn.hist[m].op = "create" /\ r.scn.hist[m].id = WorkerCtx(r.scn.hist, n - 1, q.w)
                                                /\ DictAfter(r.scn.hist, m - 1)[r.scn.hist[m].id] # NoTok)
                         => r.obs.rep[n] = Expected(r.scn.hist, n)
\* workers created with a context id execute the context's target with the context's defaults
C18_WorkersRunCtxTarget(r) == \A n \in ReqsOf(r, {"call", "callk", "wait"}) :
                                 ~WorkerEnded(r.scn.hist, n - 1, r.scn.hist[n].w) => r.obs.rep[n] = Expected(r.scn.hist, n)
\* deleting the context ends its workers: none of the workers started in the registration being deleted
\* is alive (API or OS) shortly after the reply  (obs.live[n] = workers found alive after request n)
C18_DeleteEndsWorkers(r) == \A n \in ReqsOf(r, {"delete"}) :
                               LET h == r.scn.hist  i == h[n].id  t == DictAfter(h, n - 1)[i] IN
                               \A k \in 1..Len(r.obs.live[n]) :
                                  LET w == r.obs.live[n][k] IN
                                  ~(t # NoTok /\ WorkerCtx(h, n - 1, w) = i /\ WorkerTok(h, n - 1, w) = t)
\* after which the id can be registered again
C18_Reusable(r) == \A n \in ReqsOf(r, {"create"}) :
                      DictAfter(r.scn.hist, n - 1)[r.scn.hist[n].id] = NoTok => r.obs.rep[n] = "ok"
\* requests that name an unknown context never crash the server (and it keeps serving)
NamesUnknown(r) == \E n \in ReqsOf(r, {"start", "rstart", "delete"}) : DictAfter(r.scn.hist, n - 1)[r.scn.hist[n].id] = NoTok
C18_UnknownHarmless(r) == NamesUnknown(r) =>
                             /\ r.obs.srv_alive = "T"
                             /\ \A k \in 1..Len(r.obs.fresh) : r.obs.fresh[k].got = r.obs.fresh[k].want

(***************************************************************************)
(* C12 - stopping the server reaps its children and every parent finds out *)
(*   scn.how   "terminate" | "sigterm"                                      *)
(*   scn.racer "none" | the phase of a worker start-up that is in progress  *)
(*             when the stop arrives                                         *)
(*   scn.kids  sequence of [state, parent] : state of the child at the      *)
(*             moment of the stop: "coop" "swallow" (target running),        *)
(*             "idle" "finished" "inctx" (idle in a context) "inctx-coop"    *)
(*             "inctx-swallow" "starting";  parent "T" iff a real            *)
(*             parent-side worker object exists (scripted clients: "F")     *)
(*   obs.srv_dead "T"/"F"   the server process is gone                       *)
(*   obs.left     number of former descendants of the server (recorded      *)
(*                before the stop) still alive shortly afterwards            *)
(*   obs.kids[k]  [os_dead, wait, alive, has_error, error, blocked]          *)
(*                wait/alive/has_error: tagged API values ("hang" if the     *)
(*                call did not return within the bound); error: "WTE" |      *)
(*                "None" | "other:<Type>"; blocked "T" iff any call hung     *)
(***************************************************************************)
LiveAtStop(k) == k.state \in {"coop", "swallow", "swallow-t", "idle", "inctx", "inctx-coop", "inctx-swallow"}
C12_Reaped(r) == /\ r.obs.srv_dead = "T"
                 /\ r.obs.left = 0
                 /\ \A k \in 1..Len(r.obs.kids) : r.obs.kids[k].os_dead = "T"
C12_ParentsKnow(r) == \A k \in 1..Len(r.scn.kids) :
                         (r.scn.kids[k].parent = "T" /\ LiveAtStop(r.scn.kids[k])) =>
                            /\ r.obs.kids[k].wait = "T"
                            /\ r.obs.kids[k].alive = "F"
                            /\ r.obs.kids[k].has_error = "T"
\* "a WorkerTerminatedError if the child was able to report": never a foreign error; and a child that reacts to
\* the termination request IS able to report when the server is stopped by terminate() in an orderly way, i.e.
\* no start-up is in progress and at most two other children have to be waited out (1 s each) within the
\* parent's 5 s (otherwise the SIGTERM handler may legitimately kill it before it reports)
SwallowCount(r) == Cardinality({k \in 1..Len(r.scn.kids) : r.scn.kids[k].state \in {"swallow", "swallow-t", "swallow-gone", "inctx-swallow"}})
AbleToReport(r, k) == /\ r.scn.how = "terminate" /\ r.scn.racer = "none" /\ SwallowCount(r) <= 2
                      /\ r.scn.kids[k].state \in {"coop", "idle", "inctx", "inctx-coop"}
C12_ErrorKind(r) == \A k \in 1..Len(r.scn.kids) :
                       (r.scn.kids[k].parent = "T" /\ LiveAtStop(r.scn.kids[k])) =>
                          /\ r.obs.kids[k].error \in {"WTE", "None"}
                          /\ AbleToReport(r, k) => r.obs.kids[k].error = "WTE"
C12_NoParentBlock(r) == \A k \in 1..Len(r.scn.kids) : r.scn.kids[k].parent = "T" => r.obs.kids[k].blocked = "F"
=============================================================================
