---------------------------- MODULE PoolLifeMC ----------------------------
EXTENDS PoolLife, Json, IOUtils
FixAll == {"dupguard", "closedguard"}
FixNone == {}
FixNoDup == {"closedguard"}
FixNoClosed == {"dupguard"}
KindsTP == {"thread", "process"}
KindsP == {"process"}
KindsAll == {"thread", "process", "remote"}
FreeBoth == {[id |-> "free", force |-> f, ctimeout |-> t, retry |-> rt, ops |-> <<>>] : f \in {"none", "false"}, t \in {"small", "none"}, rt \in {"T", "F"}}
FreeNone == {[id |-> "free", force |-> "none", ctimeout |-> "small", retry |-> "T", ops |-> <<>>]}
FreeNoRetry == {[id |-> "free", force |-> "none", ctimeout |-> "small", retry |-> "F", ops |-> <<>>]}
\* planned histories for replay: [{"id": "h0", "force": "none", "ops": ["add:process", "run", "close"]}, ...]
PlanSeq == JsonDeserialize(IOEnv.CASE_FILE)
PlanSet == {PlanSeq[i] : i \in 1..Len(PlanSeq)}
=============================================================================
