SPECIFICATION Spec
CONSTANTS
  N = 3
  Threads <- T_one
  MaxSteps = 7
  FixPrune = TRUE
  FixRestart = TRUE
  PruneOutsideLock = FALSE
  WeakRegistry = FALSE
  AutoFinally = TRUE
  HeldSet <- H_both
  Hist = TRUE
  Atomic = TRUE
  Ops <- Ops_all
INVARIANT TypeOK
CHECK_DEADLOCK FALSE
INVARIANT PathDumpObs
