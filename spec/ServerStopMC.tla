---------------------------- MODULE ServerStopMC ----------------------------
EXTENDS ServerStop, Json
States_all == {"coop", "swallow", "idle", "finished", "inctx", "inctx-coop", "inctx-swallow", "orphan"}
Racers_all == {"none", "addr", "spawned", "appended"}
Racers_none == {"none"}
\* one line per (configuration, outcome)
PathDump == Terminal => PrintT(<<"PATH", how, racer, ToJson(kid), ToJson(Rec.obs)>>)
=============================================================================
