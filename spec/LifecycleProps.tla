--------------------------- MODULE LifecycleProps ---------------------------
(* C04 as operators over an observable record r = [scn |-> ..., obs |-> ...].            *)
(*   scn.kind   "thread" | "process" | "remote"                                           *)
(*   scn.pers   "T" | "F"          persistent variant of the kind                         *)
(*   scn.beh    what the target does: "coop" | "swallow" | "sleep" | "frozen" | "idle"    *)
(*   scn.start  "run" | "dead" (finished before the first call) | "notrun" (run=False)    *)
(*   scn.ops    the history: API calls wait0 waitT waitL (long timeout) term0 termT term0F termTF alive close  *)
(*              and the environment step "stop" (SIGSTOP, state T awaited)                *)
(*   obs.calls  one record per API call that was started:                                 *)
(*      op      name as above                                                             *)
(*      ret     "T" | "F" | "none" (close) | "hung" | "raised:<type>"                     *)
(*      durc    "ok" (returned within 3*timeout + 2 s) | "over" | "hung"                  *)
(*      fast    "T" iff the call returned at once (did not sit out a timeout)             *)
(*      pre     "dead" iff before the call the worker was dead or never run (OS ground    *)
(*              truth: child gone or zombie, no worker thread left), else "alive"         *)
(*      os_ret  "dead" | "alive": the child at the moment the call returned (from /proc)  *)
(*      thr_ret "gone" | "alive": the worker's own thread in the caller's process (frontend  *)
(*              thread of a remote worker, the thread of a thread worker) when the call      *)
(*              returned                                                                     *)
(*      os_grace same, after the signal-delivery grace period                             *)
(*      after_true "T" iff an earlier wait/terminate of this history has returned True     *)
(*      selfsig "T" iff the call sent SIGTERM to the calling process itself               *)
(* The same operators are evaluated on states of Lifecycle.tla and on records projected  *)
(* from executions of real workers (LifecycleJudge.tla).                                  *)
EXTENDS Naturals, Sequences, FiniteSets

WTOps    == {"wait0", "waitT", "waitL", "term0", "termT", "term0F", "termTF"}
ForceOps == {"term0F", "termTF"}
Calls(r) == {r.obs.calls[k] : k \in 1..Len(r.obs.calls)}

\* per call c of record r:
\* wait/terminate come back within a small multiple of their timeout (and do not kill the caller)
ReturnsC(r, c)  == c.op \in WTOps => (c.durc = "ok" /\ c.selfsig = "F" /\ c.ret \in {"T", "F"})     \* ... and answers, it does not raise
\* a True answer means the worker is dead at that moment: the child according to the OS, and no thread of the worker left
TruthfulC(r, c) == /\ (c.op \in WTOps /\ c.ret = "T") => (c.os_ret = "dead" /\ c.thr_ret = "gone")
                   \* ... and the forced, timed terminate (it ends with a join(timeout) on a child that has been signalled)
                   \* does not answer False about a worker that is dead at that moment
                   /\ (c.op = "termTF" /\ c.ret = "F") => ~(c.os_ret = "dead" /\ c.thr_ret = "gone")
\* dead / never-run worker: True at once, in any order, any number of times
DeadFastC(r, c) == (c.op \in WTOps /\ c.pre = "dead") => (c.ret = "T" /\ c.fast = "T")
\* terminate(force=True) on a process/remote worker that does not block SIGTERM leaves the child dead
ForceC(r, c)    == (c.op \in ForceOps /\ r.scn.kind \in {"process", "remote"} /\ c.ret \in {"T", "F"}) => c.os_grace = "dead"

\* once wait/terminate has answered True the worker is dead: every later wait/terminate answers True, is_alive False
StableC(r, c)   == c.after_true = "T" => ((c.op \in WTOps => c.ret = "T") /\ (c.op = "alive" => c.ret = "F"))

C04_Stable(r)   == \A c \in Calls(r) : StableC(r, c)
C04_Returns(r)  == \A c \in Calls(r) : ReturnsC(r, c)
C04_Truthful(r) == \A c \in Calls(r) : TruthfulC(r, c)
C04_DeadFast(r) == \A c \in Calls(r) : DeadFastC(r, c)
C04_Force(r)    == \A c \in Calls(r) : ForceC(r, c)
=============================================================================
