------------------------------- MODULE Server -------------------------------
(* The accept thread of pyworkers.remote_server.RemoteServer.run and the server side of   *)
(* the worker handshake (RemoteWorker.__setstate__, steps S3a..S3g), against clients that  *)
(* vanish at any protocol step.  One action per message / critical section of the server;   *)
(* faults (the client's sockets closing with FIN or RST) are separate actions that race     *)
(* with the server's progress.                                                              *)
(*                                                                                          *)
(* Exception policy exactly as written in the code (Fixes = {}):                            *)
(*   header recv_msg             unguarded -> ConnectionClosedError leaves run(): crash     *)
(*   worker payload recv_msg     guarded for ConnectionClosedError only (also covers every  *)
(*                               send_msg inside __setstate__, which runs while unpickling) *)
(*   __setstate__ getpeername()  OSError on a reset connection: not guarded -> crash        *)
(*   ctrl accept()               no timeout: blocks until the client connects               *)
(*   pipe recv of runtime info   blocks forever if the backend died before reporting (the   *)
(*                               server holds the other end of the pipe itself)             *)
(*   context payload recv / reply send_msg   unguarded -> crash                             *)
(*   `except Exception: raise`, `finally`: every child is terminated (the healthy client's  *)
(*                               worker dies with it)                                       *)
(* A worker request that names a context is forwarded to the context's helper process,      *)
(* which runs the same payload recv + S3a..S3g (inctx = TRUE) while the accept thread is     *)
(* blocked in ctx.call(); an exception other than ConnectionClosedError kills the helper     *)
(* and surfaces in the accept thread as queue.Empty -> crash.                               *)
(*                                                                                          *)
(* Fixes (proposed_fixes/C11_*.diff), each a switch so that TLC can reject the pre-fix code: *)
(*   "hdr"    guard the header recv                                                          *)
(*   "ctx"    guard context payload recv and reply send                                      *)
(*   "peer"   a failing getpeername() is reported as ConnectionClosedError                   *)
(*   "accept" the ctrl accept waits for {listening socket, data socket} with a time-out and  *)
(*            gives up when the client is gone / never connects                              *)
(*   "info"   the wait for runtime info also watches the backend's sentinel                  *)
EXTENDS Naturals, Sequences, FiniteSets, TLC, ServerProps

CONSTANTS NF,          \* number of faulty clients (they arrive in index order)
          Fixes,       \* subset of AllFixes that is in force
          PlanSet,     \* fault plans [req, step, mode] a faulty client may follow
          LateAfter,   \* TRUE: the late healthy client arrives only after every faulty client has vanished (replay shape)
          LeakPop,     \* mutant switch (TLC must reject it): when the reply of a context create cannot be sent, the entry of
                       \* that id is popped and terminated - also when the create had been REFUSED as a duplicate, i.e. the
                       \* entry belongs to another, healthy client
          CloseOnNone, \* server configuration close_on_none (False for spawn_server, True for run_server / --close_on_none):
                       \* a COMPLETE header carrying None is a legitimate request to shut down - and only that is
          CutIsNone,   \* mutant switch (TLC must reject it with CloseOnNone): a connection that ends inside the header is
                       \* treated like a received None
          StepSend     \* FALSE: a client's writes up to its next read are one step (TCP buffers them; the reduction used
                       \* everywhere); TRUE: they arrive piecewise (unreduced; the driver checks that the outcomes are the same)

AllFixes == {"hdr", "ctx", "peer", "accept", "info"}
Faulty  == 1..NF
L       == NF + 1      \* a well-behaved client that arrives at an arbitrary moment ("later")
Clients == 1..(NF + 1)
HealthyPlan == [req |-> "worker", step |-> "none", mode |-> "none"]
EarlySteps == {"connect", "midhdr", "hdr", "midpay", "pay"}   \* the client vanishes before its first read
SentFor(step) == CASE step = "connect" -> "none" [] step = "midhdr" -> "parthdr" [] step = "hdr" -> "hdr"
                   [] step = "midpay" -> "partpay" [] OTHER -> "pay"

VARIABLES plan,        \* client -> its plan
          cpc,         \* client -> "idle" "waitaddr" "gotaddr" "waitinfo" "served" "done" "closing" "refused"
          dsent,       \* client -> how much of header+payload it wrote on the data connection
          dopen,       \* client -> data connection seen from the server: "open" | "fin" | "rst"
          cst,         \* client -> control channel: "none" | "listening" | "connected" | "closed"
          copen,       \* client -> control connection: "open" | "fin" | "rst"
          addrSent, infoSent, replySent,   \* client -> BOOLEAN: what the server managed to send
          backlog,     \* listen queue of the server socket
          spc,         \* accept thread: "accept" "hdr" "pay" "S3a".."S3g" "cpay" "creply" "crashed"
          cur,         \* client being served (0 = none)
          inctx,       \* the handshake runs inside a context helper (accept thread blocked in ctx.call)
          children,    \* clients whose backend is registered (server's `children` / helper's `_children`)
          backend,     \* client -> "none" "starting" "reported" "running" "dead"
          ctxs,        \* registered context ids (1 belongs to the healthy party, 2 is used by faulty clients)
          orphans,     \* helper processes built for a duplicate registration (not in the table)
          hOK          \* the healthy client's running worker, its context (id 1) and the worker in it have not been touched
vars == <<plan, cpc, dsent, dopen, cst, copen, addrSent, infoSent, replySent, backlog, spc, cur, inctx,
          children, backend, ctxs, orphans, hOK>>

Init == /\ plan \in {[c \in Clients |-> IF c = L THEN HealthyPlan ELSE p[c]] : p \in [Faulty -> PlanSet]}
        /\ cpc = [c \in Clients |-> "idle"]
        /\ dsent = [c \in Clients |-> "none"]
        /\ dopen = [c \in Clients |-> "open"]
        /\ cst = [c \in Clients |-> "none"]
        /\ copen = [c \in Clients |-> "open"]
        /\ addrSent = [c \in Clients |-> FALSE]
        /\ infoSent = [c \in Clients |-> FALSE]
        /\ replySent = [c \in Clients |-> FALSE]
        /\ backlog = <<>> /\ spc = "accept" /\ cur = 0 /\ inctx = FALSE
        /\ children = {} /\ backend = [c \in Clients |-> "none"]
        /\ ctxs = {1} /\ orphans = 0 /\ hOK = TRUE

-----------------------------------------------------------------------------
(* clients *)
Vanished(c) == \/ cpc[c] = "refused"
               \/ /\ cpc[c] = "closing" /\ dopen[c] # "open"
                  /\ cst[c] # "connected" \/ copen[c] # "open"
Arrive(c) ==
   /\ cpc[c] = "idle"
   /\ c \in Faulty => \A d \in Faulty : d < c => cpc[d] # "idle"
   /\ (c = L /\ LateAfter) => \A d \in Faulty : Vanished(d)
   /\ IF spc = "crashed"
      THEN /\ cpc' = [cpc EXCEPT ![c] = "refused"]
           /\ UNCHANGED <<dsent, backlog>>
      ELSE /\ backlog' = Append(backlog, c)
           /\ dsent' = [dsent EXCEPT ![c] = IF StepSend THEN "none" ELSE SentFor(plan[c].step)]   \* TCP buffers the writes: they never block
           /\ cpc' = [cpc EXCEPT ![c] = IF plan[c].step \in EarlySteps THEN "closing"
                                        ELSE IF plan[c].step = "reply" THEN "waitreply" ELSE "waitaddr"]
   /\ UNCHANGED <<plan, dopen, cst, copen, addrSent, infoSent, replySent, spc, cur, inctx, children, backend, ctxs, orphans, hOK>>

\* unreduced variant: the bytes reach the server piece by piece
NextStage(d) == CASE d = "none" -> "parthdr" [] d = "parthdr" -> "hdr" [] d = "hdr" -> "partpay" [] OTHER -> "pay"
SendMore(c) ==
   /\ StepSend /\ cpc[c] \in {"closing", "waitaddr", "waitreply"} /\ dopen[c] = "open"
   /\ dsent[c] # SentFor(plan[c].step)
   /\ dsent' = [dsent EXCEPT ![c] = NextStage(@)]
   /\ UNCHANGED <<plan, cpc, dopen, cst, copen, addrSent, infoSent, replySent, backlog, spc, cur, inctx, children, backend, ctxs, orphans, hOK>>

ReadAddr(c) ==
   /\ cpc[c] = "waitaddr" /\ addrSent[c]
   /\ cpc' = [cpc EXCEPT ![c] = IF plan[c].step = "addr" THEN "closing" ELSE "gotaddr"]
   /\ UNCHANGED <<plan, dsent, dopen, cst, copen, addrSent, infoSent, replySent, backlog, spc, cur, inctx, children, backend, ctxs, orphans, hOK>>

\* context requests: the client reads the reply (a well-formed request) and goes away afterwards
ReadReply(c) ==
   /\ cpc[c] = "waitreply" /\ replySent[c]
   /\ cpc' = [cpc EXCEPT ![c] = "closing"]
   /\ UNCHANGED <<plan, dsent, dopen, cst, copen, addrSent, infoSent, replySent, backlog, spc, cur, inctx, children, backend, ctxs, orphans, hOK>>

ConnectCtrl(c) ==
   /\ cpc[c] = "gotaddr" /\ cst[c] = "listening"
   /\ cst' = [cst EXCEPT ![c] = "connected"]
   /\ cpc' = [cpc EXCEPT ![c] = IF plan[c].step = "ctrl" THEN "closing" ELSE "waitinfo"]
   /\ UNCHANGED <<plan, dsent, dopen, copen, addrSent, infoSent, replySent, backlog, spc, cur, inctx, children, backend, ctxs, orphans, hOK>>

ReadInfo(c) ==
   /\ cpc[c] = "waitinfo" /\ infoSent[c]
   /\ cpc' = [cpc EXCEPT ![c] = IF plan[c].step = "run" THEN "closing" ELSE "served"]
   /\ UNCHANGED <<plan, dsent, dopen, cst, copen, addrSent, infoSent, replySent, backlog, spc, cur, inctx, children, backend, ctxs, orphans, hOK>>

\* the well-behaved client's round trip completes: its backend ran and delivered the result
RoundTrip(c) ==
   /\ cpc[c] = "served" /\ backend[c] = "running"
   /\ cpc' = [cpc EXCEPT ![c] = "done"]
   /\ UNCHANGED <<plan, dsent, dopen, cst, copen, addrSent, infoSent, replySent, backlog, spc, cur, inctx, children, backend, ctxs, orphans, hOK>>

\* faults: the two connections of a vanishing client close independently (FIN or RST as planned)
CloseData(c) ==
   /\ cpc[c] = "closing" /\ dopen[c] = "open" /\ dsent[c] = SentFor(plan[c].step)
   /\ dopen' = [dopen EXCEPT ![c] = plan[c].mode]
   /\ UNCHANGED <<plan, cpc, dsent, cst, copen, addrSent, infoSent, replySent, backlog, spc, cur, inctx, children, backend, ctxs, orphans, hOK>>
CloseCtrl(c) ==
   /\ cpc[c] = "closing" /\ cst[c] = "connected" /\ copen[c] = "open"
   /\ copen' = [copen EXCEPT ![c] = plan[c].mode]
   /\ UNCHANGED <<plan, cpc, dsent, dopen, cst, addrSent, infoSent, replySent, backlog, spc, cur, inctx, children, backend, ctxs, orphans, hOK>>

\* the spawned backend: logs getpeername() of the data socket first (OSError on a reset connection, outside
\* every try block: the process dies before reporting), then reports its runtime info on the pipe
BackendStart(c) ==
   /\ backend[c] = "starting"
   /\ backend' = [backend EXCEPT ![c] = IF dopen[c] = "rst" THEN "dead" ELSE "reported"]
   /\ UNCHANGED <<plan, cpc, dsent, dopen, cst, copen, addrSent, infoSent, replySent, backlog, spc, cur, inctx, children, ctxs, orphans, hOK>>

-----------------------------------------------------------------------------
(* accept thread *)
Cont == spc' = "accept" /\ cur' = 0 /\ inctx' = FALSE
\* an exception escapes the current step.  "guard": the code catches it today; otherwise it is
\* caught iff the fix of that name is in force; uncaught = `except Exception: raise` + `finally`
Fail(f) == IF f = "guard" \/ f \in Fixes
           THEN Cont /\ hOK' = hOK
           ELSE spc' = "crashed" /\ cur' = 0 /\ inctx' = FALSE /\ hOK' = FALSE
Stay(next) == spc' = next /\ UNCHANGED <<cur, inctx, hOK>>

SAccept ==
   /\ spc = "accept" /\ backlog # <<>>
   /\ cur' = Head(backlog) /\ backlog' = Tail(backlog) /\ spc' = "hdr"
   /\ UNCHANGED <<plan, cpc, dsent, dopen, cst, copen, addrSent, infoSent, replySent, inctx, children, backend, ctxs, orphans, hOK>>

SHeader ==
   /\ spc = "hdr"
   /\ IF dsent[cur] \in {"hdr", "partpay", "pay"}
      THEN /\ hOK' = hOK
           /\ CASE plan[cur].req = "worker"     -> spc' = "pay" /\ UNCHANGED <<cur, inctx>>
                [] plan[cur].req = "ctxworker"  -> IF 1 \in ctxs THEN spc' = "pay" /\ inctx' = TRUE /\ cur' = cur ELSE Cont
                [] plan[cur].req = "uctxworker" -> Cont      \* unknown context: `continue` without a reply (since 6c35f4a the socket is closed first)
                [] OTHER                        -> spc' = "cpay" /\ UNCHANGED <<cur, inctx>>
      ELSE /\ dopen[cur] # "open"          \* otherwise blocked in recv()
           /\ IF CutIsNone /\ "hdr" \in Fixes
              THEN IF CloseOnNone
                   THEN spc' = "crashed" /\ cur' = 0 /\ inctx' = FALSE /\ hOK' = FALSE     \* `break`: the server shuts down, finally reaps everybody
                   ELSE Cont /\ hOK' = hOK                                               \* `continue`
              ELSE Fail("hdr")
   /\ UNCHANGED <<plan, cpc, dsent, dopen, cst, copen, addrSent, infoSent, replySent, backlog, children, backend, ctxs, orphans>>

SPayload ==          \* accept thread (guarded) or helper (`except ConnectionClosedError: return False`)
   /\ spc = "pay"
   /\ IF dsent[cur] = "pay" THEN Stay("S3a")
      ELSE dopen[cur] # "open" /\ Fail("guard")
   /\ UNCHANGED <<plan, cpc, dsent, dopen, cst, copen, addrSent, infoSent, replySent, backlog, children, backend, ctxs, orphans>>

S3a ==               \* getpeername() of the data socket; bind + listen the control socket
   /\ spc = "S3a"
   /\ IF dopen[cur] = "rst" THEN Fail("peer") /\ UNCHANGED cst
      ELSE cst' = [cst EXCEPT ![cur] = "listening"] /\ Stay("S3b")
   /\ UNCHANGED <<plan, cpc, dsent, dopen, copen, addrSent, infoSent, replySent, backlog, children, backend, ctxs, orphans>>

S3b ==               \* send the control address on the data socket (a write to a FIN'd peer succeeds)
   /\ spc = "S3b"
   /\ IF dopen[cur] = "rst"
      THEN Fail("guard") /\ cst' = [cst EXCEPT ![cur] = "closed"] /\ UNCHANGED addrSent
      ELSE addrSent' = [addrSent EXCEPT ![cur] = TRUE] /\ Stay("S3c") /\ UNCHANGED cst
   /\ UNCHANGED <<plan, cpc, dsent, dopen, copen, infoSent, replySent, backlog, children, backend, ctxs, orphans>>

S3c ==               \* accept() the control connection
   /\ spc = "S3c"
   /\ IF cst[cur] = "connected" THEN Stay("S3d") /\ UNCHANGED cst
      ELSE /\ "accept" \in Fixes                                   \* today: blocked for ever
           /\ dopen[cur] # "open" \/ cpc[cur] = "closing"          \* data socket readable (EOF/RST), or time-out
           /\ cst' = [cst EXCEPT ![cur] = "closed"]
           /\ Fail("guard")
   /\ UNCHANGED <<plan, cpc, dsent, dopen, copen, addrSent, infoSent, replySent, backlog, children, backend, ctxs, orphans>>

S3d ==               \* spawn the backend, start the remote control thread
   /\ spc = "S3d"
   /\ backend' = [backend EXCEPT ![cur] = "starting"]
   /\ Stay("S3e")
   /\ UNCHANGED <<plan, cpc, dsent, dopen, cst, copen, addrSent, infoSent, replySent, backlog, children, ctxs, orphans>>

S3e ==               \* receive the runtime info from the backend's pipe
   /\ spc = "S3e"
   /\ IF backend[cur] = "reported" THEN Stay("S3f")
      ELSE /\ backend[cur] = "dead" /\ "info" \in Fixes            \* today: blocked for ever
           /\ Fail("guard")
   /\ UNCHANGED <<plan, cpc, dsent, dopen, cst, copen, addrSent, infoSent, replySent, backlog, children, backend, ctxs, orphans>>

S3f ==               \* forward the runtime info on the control socket
   /\ spc = "S3f"
   /\ IF copen[cur] = "rst"
      THEN /\ Fail("guard")                                        \* the backend was spawned but is not in `children`;
           /\ backend' = [backend EXCEPT ![cur] = "dead"]          \* it ends when the half-built worker object goes away
           /\ UNCHANGED infoSent
      ELSE infoSent' = [infoSent EXCEPT ![cur] = TRUE] /\ Stay("S3g") /\ UNCHANGED backend
   /\ UNCHANGED <<plan, cpc, dsent, dopen, cst, copen, addrSent, replySent, backlog, children, ctxs, orphans>>

S3g ==               \* acknowledge on the pipe; the worker is appended to `children`
   /\ spc = "S3g"
   /\ backend' = [backend EXCEPT ![cur] = "running"]
   /\ children' = children \cup {cur}
   /\ Cont /\ hOK' = hOK
   /\ UNCHANGED <<plan, cpc, dsent, dopen, cst, copen, addrSent, infoSent, replySent, backlog, ctxs, orphans>>

CtxIdOf(req) == IF req = "ctxdup" THEN 1 ELSE 2
SCtxPayload ==       \* context create (the helper process is built by unpickling BEFORE the duplicate test) / delete
   /\ spc = "cpay"
   /\ IF dsent[cur] = "pay"
      THEN /\ Stay("creply")
           /\ IF plan[cur].req \in {"ctxcreate", "ctxdup"}          \* "ctxdup" names id 1: the live context of the healthy client
              THEN IF CtxIdOf(plan[cur].req) \in ctxs THEN orphans' = orphans + 1 /\ UNCHANGED ctxs
                   ELSE ctxs' = ctxs \cup {2} /\ UNCHANGED orphans
              ELSE ctxs' = ctxs \ {2} /\ UNCHANGED orphans
      ELSE /\ dopen[cur] # "open"
           /\ Fail("ctx") /\ UNCHANGED <<ctxs, orphans>>
   /\ UNCHANGED <<plan, cpc, dsent, dopen, cst, copen, addrSent, infoSent, replySent, backlog, children, backend>>

SCtxReply ==
   /\ spc = "creply"
   /\ IF dopen[cur] = "rst"
      THEN /\ UNCHANGED replySent
           /\ IF LeakPop /\ "ctx" \in Fixes /\ plan[cur].req \in {"ctxcreate", "ctxdup"}
              THEN /\ ctxs' = ctxs \ {CtxIdOf(plan[cur].req)}           \* pops whatever is registered under that id ...
                   /\ Cont /\ hOK' = (hOK /\ plan[cur].req # "ctxdup")   \* ... for a refused duplicate: the healthy client's context
              ELSE Fail("ctx") /\ UNCHANGED ctxs
      ELSE replySent' = [replySent EXCEPT ![cur] = TRUE] /\ Cont /\ hOK' = hOK /\ UNCHANGED ctxs
   /\ UNCHANGED <<plan, cpc, dsent, dopen, cst, copen, addrSent, infoSent, backlog, children, backend, orphans>>

ServerStep == SAccept \/ SHeader \/ SPayload \/ S3a \/ S3b \/ S3c \/ S3d \/ S3e \/ S3f \/ S3g \/ SCtxPayload \/ SCtxReply
ClientStep == \E c \in Clients : Arrive(c) \/ SendMore(c) \/ ReadReply(c) \/ ReadAddr(c) \/ ConnectCtrl(c) \/ ReadInfo(c) \/ RoundTrip(c)
FaultStep  == \E c \in Faulty : CloseData(c) \/ CloseCtrl(c)
Next == ServerStep \/ ClientStep \/ FaultStep \/ (\E c \in Clients : BackendStart(c))
\* every step makes progress (the graph is acyclic), so weak fairness of Next = every party keeps going
Spec == Init /\ [][Next]_vars /\ WF_vars(Next)

-----------------------------------------------------------------------------
Terminal == ~ENABLED Next
Rec == [scn |-> [faults |-> [k \in 1..NF |-> plan[k]]],
        obs |-> [srv_alive |-> IF spc = "crashed" THEN "F" ELSE "T",
                 fresh  |-> << [got |-> IF cpc[L] = "done" THEN "v:1" ELSE "hang", want |-> "v:1"] >>,
                 others |-> << [got |-> IF hOK THEN "v:1" ELSE "None", want |-> "v:1", err |-> IF hOK THEN "F" ELSE "T"] >>]]

TypeOK == /\ spc \in {"accept", "hdr", "pay", "S3a", "S3b", "S3c", "S3d", "S3e", "S3f", "S3g", "cpay", "creply", "crashed"}
          /\ cur \in 0..(NF + 1) /\ (spc \in {"accept", "crashed"} <=> cur = 0)
          /\ \A c \in Clients : /\ cpc[c] \in {"idle", "waitaddr", "gotaddr", "waitinfo", "waitreply", "served", "done", "closing", "refused"}
                                /\ backend[c] \in {"none", "starting", "reported", "running", "dead"}
          /\ children \subseteq Clients /\ \A c \in children : backend[c] = "running"
Inv_ServerAlive == C11_ServerAlive(Rec)
Inv_Others      == C11_OthersUndisturbed(Rec)
Inv_Serves      == Terminal => C11_Serves(Rec)
Live_Serves     == <>(cpc[L] = "done")
\* a well-behaved client is never turned away by a fix (time-outs only hit clients that are gone)
Inv_HealthyNotAborted == cst[L] # "closed"

\* ---- witnesses (expected to be violated: the fault classes are reachable) ----
W_NoBlockedAccept  == ~(spc = "S3c" /\ cst[cur] # "connected" /\ dopen[cur] # "open")
W_NoDeadBackend    == ~(spc = "S3e" /\ backend[cur] = "dead")
W_NoCtrlSendFail   == ~(spc = "S3f" /\ copen[cur] = "rst" /\ backend[cur] = "reported")
W_NoPeerNameFail   == ~(spc = "S3a" /\ dopen[cur] = "rst")
W_NoOrphanHelper   == orphans = 0
W_NoUnknownCtx     == ~(spc = "hdr" /\ plan[cur].req = "uctxworker" /\ dsent[cur] = "pay")
W_NoHelperFault    == ~(inctx /\ spc = "S3c" /\ cst[cur] # "connected" /\ cpc[cur] = "closing")
W_LateNeverDone    == cpc[L] # "done"
=============================================================================
