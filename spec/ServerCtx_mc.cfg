SPECIFICATION Spec
CONSTANTS
  Ids <- Ids3
  MaxLen = 8
  MaxW = 3
  Hist = FALSE
  PopOnDelete = TRUE
  DupCheck = TRUE
  Patience = 1
  HandlerKills = TRUE
  Profile = "free"
  AliasDefaults = FALSE
  ShutdownFirst = FALSE
  CutDeletes = FALSE
INVARIANT TypeOK
INVARIANT Ref_Table
INVARIANT Ref_Reply
INVARIANT Ref_Workers
INVARIANT Ref_ServerUp
INVARIANT Ref_HelperAlive
CHECK_DEADLOCK FALSE
