------------------------------ MODULE ServerMC ------------------------------
(* Constants of the Server.tla runs (cfg files cannot hold records) and the path dump.   *)
EXTENDS Server, Json
WSteps == {"connect", "midhdr", "hdr", "midpay", "pay", "addr", "ctrl", "run"}
CSteps == {"connect", "midhdr", "hdr", "midpay", "pay"}
Modes  == {"fin", "rst"}
\* every request type x every protocol step at which its client can vanish x FIN/RST
Plans_all == [req : {"worker", "ctxworker"}, step : WSteps, mode : Modes]
             \cup [req : {"ctxcreate", "ctxdelete", "uctxworker"}, step : CSteps, mode : Modes]
             \cup [req : {"ctxcreate", "ctxdelete"}, step : {"reply"}, mode : Modes]
             \* a create whose id collides with the live context of the healthy client, vanishing before / after the reply
             \cup [req : {"ctxdup"}, step : {"hdr", "midpay", "pay", "reply"}, mode : Modes]
\* for three faulty clients: one representative per (effect class of the code as written)
Plans_core == {p \in Plans_all : /\ p.req \in {"worker", "ctxworker", "ctxcreate"}
                                 /\ p.step \in {"connect", "midpay", "pay", "addr", "ctrl", "run"}}
Fix_all  == AllFixes
Fix_none == {}
Fix_no_hdr    == AllFixes \ {"hdr"}
Fix_no_ctx    == AllFixes \ {"ctx"}
Fix_no_peer   == AllFixes \ {"peer"}
Fix_no_accept == AllFixes \ {"accept"}
Fix_no_info   == AllFixes \ {"info"}
\* one line per (scenario, outcome) reached: the relation Allowed used for replay and conformance
PathDump == Terminal => PrintT(<<"PATH", ToJson(Rec.scn.faults), Rec.obs.srv_alive, Rec.obs.fresh[1].got, Rec.obs.others[1].err>>)
=============================================================================
