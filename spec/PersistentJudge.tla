--------------------------- MODULE PersistentJudge ---------------------------
(* TLC as the judge of real executions: evaluates the C05 / C17 operators on records        *)
(* projected from API histories replayed on the real persistent worker classes.              *)
EXTENDS PersistentProps, Json, IOUtils, TLC
Recs == JsonDeserialize(IOEnv.REC_FILE)
VARIABLE i
JInit == i \in 1..Len(Recs)
JNext == UNCHANGED i
Chk(name, ok) == ok \/ PrintT(<<"FAIL", Recs[i].id, name>>)
JInv == /\ Chk("C05_Stream", C05_Stream(Recs[i]))
        /\ Chk("C05_Count", C05_Count(Recs[i]))
        /\ Chk("C05_Closed", C05_Closed(Recs[i]))
        /\ Chk("C05_End", C05_End(Recs[i]))
        /\ Chk("C05_Returns", C05_Returns(Recs[i]))
        /\ Chk("C17_Returns", C17_Returns(Recs[i]))
        /\ Chk("C05_Call", C05_Call(Recs[i]))
        /\ Chk("C17_Live", C17_Live(Recs[i]))
        /\ Chk("C17_Equivalent", C17_Equivalent(Recs[i]))
        /\ Chk("C17_NewIdentity", C17_NewIdentity(Recs[i]))
        /\ Chk("C17_FreshStream", C17_FreshStream(Recs[i]))
        /\ Chk("C17_CounterZero", C17_CounterZero(Recs[i]))
        /\ Chk("C17_RaisesNotAbandons", C17_RaisesNotAbandons(Recs[i]))
=============================================================================
