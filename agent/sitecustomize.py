# Loaded by every interpreter that has /verif/agent on PYTHONPATH; inert unless PYWORKERS_VERIF=1.
import os
if os.environ.get('PYWORKERS_VERIF') == '1' and os.environ.get('PYWORKERS_VERIF_PLAN'):
    try:
        import vfagent
        vfagent.install_from_env()
    except Exception as e:  # never break the interpreter under test
        import sys
        sys.stderr.write('vfagent: %r\n' % (e,))
