SPECIFICATION Spec
CONSTANTS
  Kinds <- K_thread
  DTypes <- DT_list
  DArgsSet <- DA_one
  DKwSet <- DK_one
  Shapes <- Sh_one
  Ops <- Ops_c05
  MaxSteps = 6
  MaxEnq = 3
  MaxRestarts = 0
  Settle = TRUE
  AllowBlock = FALSE
  Hist = TRUE
  TupleFix = TRUE
  CounterFirst = TRUE
  FreshPipe = TRUE
  ResetClosed = TRUE
  BlockAfterClose = TRUE
  BusyTicks = 3
  SlowTicks = 3
  WaitT = 1
  TermT = 5
  WaitTruthful = TRUE
  TermOwnTimeout = TRUE
  ClosedGuard = TRUE
  EnqChecksAlive = TRUE
  WaitSwallowsBadResult = TRUE
  AliveAsksServer = TRUE
  IterExact = TRUE
  OwnRunScn = FALSE
  RestartKeepsRun = TRUE
INVARIANT TypeOK
CHECK_DEADLOCK FALSE
INVARIANT PathDump
CONSTRAINT PathConstraint
