----------------------------- MODULE PoolTrace -----------------------------
(* code -> spec: traces of worker_callback events ('enqueued', 'finished', 'died') recorded from *)
(* REAL Pool.run executions on real thread/process/remote workers with SIGKILLs / poison inputs  *)
(* are validated against Pool.tla: a trace is accepted iff some behaviour of the spec shows       *)
(* exactly these events in this order and ends with the recorded outcome and result list.  What   *)
(* is not logged (worker progress, deaths, the pool's internal steps, the order in which ready    *)
(* pipes are served) is inferred by TLC.                                                          *)
EXTENDS PoolMC, Json, IOUtils
Traces == JsonDeserialize(IOEnv.TRACE_FILE)
VARIABLES tid, l
T == Traces[tid]
IsEnq == pending' = pending + 1
IsFin == Len(ret') = Len(ret) + 1
IsDied == closed' # closed
Ev(k, w, x) == l <= Len(T.trace) /\ T.trace[l] = <<k, w, x>> /\ l' = l + 1
TInit == Init /\ tid \in 1..Len(Traces) /\ l = 1
TNext == /\ Next
         /\ IF IsEnq THEN Ev("enq", enqT, ppw'[enqT][Len(ppw'[enqT])])
            ELSE IF IsFin THEN Ev("fin", cur, ret'[Len(ret')])
            ELSE IF IsDied THEN Ev("died", CHOOSE w \in closed' \ closed : TRUE, 0)
            ELSE l' = l
         /\ UNCHANGED tid
Accepted == pc["pool"] = "Done" /\ l = Len(T.trace) + 1 /\ outcome = T.outcome /\ ret = T.ret
TAccept == Accepted => PrintT(<<"ACCEPT", T.id>>)
=============================================================================
