---------------------------- MODULE ServerCtxMC ----------------------------
EXTENDS ServerCtx, Json
Ids3 == {1, 2, 3}
Ids2 == {1, 2}
Ids1 == {1}
\* one line per complete history: the requests (with the model's view of known/unknown), the model's replies
PathDump == (Idle /\ n = MaxLen) => PrintT(<<"PATH", ToJson(hist), ToJson(reps), ToJson(lives)>>)
=============================================================================
