------------------------------- MODULE Transfer -------------------------------
(* How the outcome of one call travels from the child to the caller of wait(), per kind:    *)
(*  THREAD : shared memory (_result), wait() = join.                                          *)
(*  PROCESS: the child put()s ((ok, value), user_state) on a socket pair of capacity Cap and  *)
(*           only then exits; a frame larger than Cap is written in pieces and the writer     *)
(*           blocks until the reader takes them.  wait() joins the child and reads the pipe   *)
(*           only after the child is dead (DrainInWait = FALSE: the code as written), or      *)
(*           reads while waiting (DrainInWait = TRUE).                                        *)
(*  REMOTE : the backend sends on a TCP socket that the frontend thread F reads continuously; *)
(*           wait() asks the server, then joins F.                                            *)
(* Also the constructor's decision whether to run at all (run flag, target None).             *)
EXTENDS Naturals, Sequences, TLC, TransferProps

CONSTANTS DrainInWait, Kinds_, Sizes_
\* scenario (chosen in Init, constant afterwards): Kind, RunFlag \in {"none","true","false"}, HasTarget, Ending,
\* Size = number of pipe-buffer-sized pieces of the result frame (1 = fits into the buffer)
VARIABLES Kind, RunFlag, HasTarget, Ending, Size
VARIABLES cpc, ppc, pipe, taken, presult, os
scnvars == <<Kind, RunFlag, HasTarget, Ending, Size>>
vars == <<cpc, ppc, pipe, taken, presult, os, scnvars>>

Runs == IF RunFlag = "none" THEN HasTarget ELSE RunFlag = "true"
Outcome == IF ~HasTarget THEN "ok_none" ELSE IF Ending = "ret" THEN "ok" ELSE "err"

Init == /\ Kind \in Kinds_ /\ RunFlag \in {"none", "true", "false"} /\ HasTarget \in BOOLEAN
        /\ Ending \in {"ret", "exc"} /\ Size \in Sizes_
        /\ cpc = (IF Runs THEN "work" ELSE "notrun") /\ ppc = "wait" /\ pipe = 0 /\ taken = 0
        /\ presult = (IF Runs THEN "unset" ELSE "ok_none") /\ os = (IF Runs THEN "run" ELSE "dead")

\* child
Work == cpc = "work" /\ cpc' = "put" /\ UNCHANGED <<ppc, pipe, taken, presult, os, scnvars>>
Put == /\ cpc = "put"
       /\ IF Kind = "thread" THEN presult' = Outcome /\ cpc' = "exit" /\ UNCHANGED <<pipe, taken>>
          ELSE /\ pipe < 1                       \* room for one more piece (capacity: one piece in flight)
               /\ pipe' = pipe + 1 /\ UNCHANGED <<presult, taken>>
               /\ cpc' = (IF taken + pipe + 1 = Size THEN "exit" ELSE "put")
       /\ UNCHANGED <<ppc, os, scnvars>>
Exit == cpc = "exit" /\ os = "run" /\ os' = "dead" /\ UNCHANGED <<cpc, ppc, pipe, taken, presult, scnvars>>

\* somebody reads the pieces: REMOTE - the frontend thread, always; PROCESS - the waiting parent (only if
\* DrainInWait) or the parent after the child's death
Reader == /\ pipe > 0
          /\ \/ Kind = "remote"
             \/ Kind = "process" /\ (DrainInWait \/ os = "dead")
          /\ pipe' = pipe - 1 /\ taken' = taken + 1
          /\ presult' = (IF taken + 1 = Size THEN Outcome ELSE presult)
          /\ UNCHANGED <<cpc, ppc, os, scnvars>>
\* wait(): returns once the child is dead (and, for process, the pipe has been drained by _get_result)
WaitReturn == /\ ppc = "wait" /\ os = "dead" /\ pipe = 0
              /\ ppc' = "returned" /\ UNCHANGED <<cpc, pipe, taken, presult, os, scnvars>>

Next == Work \/ Put \/ Exit \/ Reader \/ WaitReturn
Spec == Init /\ [][Next]_vars /\ WF_vars(Next)

Terminal == ppc = "returned"
D == [done |-> "T",
      has_error |-> IF presult \in {"ok", "ok_none"} THEN "F" ELSE IF presult = "err" THEN "T" ELSE "None",
      result_eq |-> IF presult = "ok" THEN "T" ELSE "F", result_none |-> IF presult = "ok" THEN "F" ELSE "T",
      error_none |-> IF presult = "err" THEN "F" ELSE "T",
      error_type_eq |-> IF presult = "err" THEN "T" ELSE "na", error_args_eq |-> IF presult = "err" THEN "T" ELSE "na"]
Rec == [scn |-> [runs |-> IF Runs /\ HasTarget THEN "T" ELSE "F", direct |-> Ending], obs |-> [kinds |-> [k \in {Kind} |-> D]]]
Inv_Equal == Terminal => C02_Equal(Rec)
Live_WaitReturns == <>Terminal
B(x) == IF x THEN "T" ELSE "F"
AllowedDump == Terminal => PrintT(<<"ALLOWED", Kind, RunFlag, B(HasTarget), Ending, Size, D.has_error, D.result_eq, D.error_none>>)
\* the wait() of a process worker whose result does not fit into the pipe buffer never returns (pre-fix, F02)
Stuck == Kind = "process" /\ ppc = "wait" /\ cpc = "put" /\ pipe = 1 /\ ~DrainInWait /\ os = "run"
W_NeverBlocksInPut == ~(cpc = "put" /\ pipe = 1)
==============================================================================
