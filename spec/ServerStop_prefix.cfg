SPECIFICATION Spec
CONSTANTS
  MaxKids = 2
  KidStates <- States_all
  Racers <- Racers_all
  CtxTerm = FALSE
  DupTerm = FALSE
  ParentKill = FALSE
  ClearFirst = FALSE
  NarrowExcept = FALSE
  NoAckWait = FALSE
  CacheDead = FALSE
INVARIANT TypeOK
INVARIANT Inv_Reaped
INVARIANT Inv_ParentsKnow
INVARIANT Inv_ErrorKind
INVARIANT Inv_NoBlock
PROPERTY Live_Reaped
CHECK_DEADLOCK FALSE
