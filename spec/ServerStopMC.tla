---------------------------- MODULE ServerStopMC ----------------------------
EXTENDS ServerStop, Json
States_all == {"coop", "swallow", "idle", "finished", "inctx", "inctx-coop", "inctx-swallow", "orphan", "swallow-gone", "coop-gone", "swallow-t"}
\* for 4 children in the quick tier: the states that reach a distinct branch of the shutdown
States_core == {"coop", "swallow", "idle", "inctx-swallow", "swallow-gone", "swallow-t"}
Racers_all == {"none", "addr", "spawned", "appended"}
Racers_none == {"none"}
\* one line per (configuration, outcome)
PathDump == Terminal => PrintT(<<"PATH", how, racer, ToJson(kid), ToJson(Rec.obs)>>)
=============================================================================
