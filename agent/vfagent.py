"""In-child tracer ("agent").  Inert unless PYWORKERS_VERIF=1 and a plan file is named by
PYWORKERS_VERIF_PLAN.  It counts *line* events of the worker's child thread (the thread that
runs the anchor function of the class named in the plan) once the parent's constructor can
have returned, and at event number n performs the planned fault:

  pause   - report where the child is (file, function, line, stack) to the harness over a Unix
            socket, then block until this process' foreign_raise wrapper has run: the pending
            asynchronous exception then surfaces exactly at that line;
  sigkill / sigterm - signal this very process at that line (exact crash point);
  exit    - os._exit(3) at that line;
  none    - only record.

All line events (basename, function, line, in_target) are written to <out_dir>/events-<pid>.json
when the fault is performed and when the anchor function returns.  No pyworkers source is edited:
the agent arrives through PYTHONPATH (sitecustomize) or is installed in-process by the harness."""
import json
import linecache
import os
import signal
import socket
import sys
import threading

ANCHORS = ('_run', '_run_backend', '_run_frontend')


class State:
    def __init__(self, plan):
        self.plan = plan
        self.cls = plan.get('cls')
        self.anchor = plan.get('anchor')          # restrict to one anchor function (e.g. the parent-side frontend thread)
        self.n = int(plan.get('n', 0))
        self.fault = plan.get('fault', 'none')
        self.arm_text = plan.get('arm_text') or []
        self.arm_lines = set(plan.get('arm_lines') or [])      # line numbers (of the anchor function) after which counting starts
        self.opcode = plan.get('granularity') == 'opcode'      # count bytecode instructions instead of lines
        self.repo = os.path.join(plan.get('repo', '/repo'), 'pyworkers')
        self.targets = tuple(plan.get('target_files') or [])
        self.out_dir = plan.get('out_dir')
        self.thread = None
        self.armed = False
        self.count = 0
        self.events = []
        self.done = False
        self.go = threading.Event()
        self.patched = False
        self.anchor_frame = None
        self.last_anchor_line = None
        self.fired = None

    def interesting(self, fn):
        return fn.startswith(self.repo) or fn in self.targets

    def flush(self, reason):
        if not self.out_dir:
            return
        try:
            p = os.path.join(self.out_dir, 'events-%d.json' % os.getpid())
            with open(p + '.tmp', 'w') as f:
                json.dump({'pid': os.getpid(), 'armed': self.armed, 'count': self.count, 'reason': reason,
                           'fired': self.fired, 'events': self.events}, f)
            os.replace(p + '.tmp', p)
        except OSError:
            pass


def _stack(st, frame):
    out = []
    f = frame
    while f is not None and len(out) < 40:
        fn = f.f_code.co_filename
        if st.interesting(fn):
            out.append([os.path.basename(fn), f.f_code.co_name, f.f_lineno])
        if f is st.anchor_frame:
            break
        f = f.f_back
    return out


def _patch_foreign_raise(st):
    if st.patched:
        return
    st.patched = True
    for modname in ('pyworkers.thread', 'pyworkers.process', 'pyworkers.remote'):
        mod = sys.modules.get(modname)
        if mod is None or not hasattr(mod, 'foreign_raise'):
            continue
        orig = mod.foreign_raise
        if getattr(orig, '_vf_wrapped', False):
            orig._vf_state[0] = st
            continue
        cell = [st]

        def wrapper(tid, exc, _orig=orig, _cell=cell):
            s0 = _cell[0]
            if s0 is not None and s0.plan.get('raise_delay'):
                import time
                time.sleep(float(s0.plan['raise_delay']))      # a control thread that is slow to raise the exception it was asked for
            r = _orig(tid, exc)
            s = _cell[0]
            if s is not None and s.thread is not None:
                s.go.set()
            return r
        wrapper._vf_wrapped = True
        wrapper._vf_state = cell
        mod.foreign_raise = wrapper


def _report(st, msg):
    path = st.plan.get('sock')
    if not path:
        return
    try:
        s = socket.socket(socket.AF_UNIX, socket.SOCK_STREAM)
        s.settimeout(5)
        s.connect(path)
        s.sendall((json.dumps(msg) + '\n').encode())
        s.close()
    except OSError:
        pass


def _fire(st, frame):
    fn = frame.f_code.co_filename
    st.fired = {'n': st.count, 'file': os.path.basename(fn), 'func': frame.f_code.co_name, 'line': frame.f_lineno,
                'stack': _stack(st, frame), 'pid': os.getpid(), 'fault': st.fault}
    st.flush('fault')
    if st.fault == 'pause':
        _patch_foreign_raise(st)
        _report(st, dict(st.fired, type='paused'))
        # the asynchronous exception set by foreign_raise is delivered while we wait here and
        # propagates out of the trace function into the traced frame at exactly this line
        st.go.wait(float(st.plan.get('pause_bound', 20)))
        _spin()
    elif st.fault == 'sigkill':
        os.kill(os.getpid(), signal.SIGKILL)
    elif st.fault == 'sigterm':
        os.kill(os.getpid(), signal.SIGTERM)
        _spin()
    elif st.fault == 'exit':
        os._exit(3)
    elif st.fault == 'stop':
        _report(st, dict(st.fired, type='stopping'))
        os.kill(os.getpid(), signal.SIGSTOP)


def _spin():
    # give the eval loop a few checkpoints so that a pending async exception / signal is delivered here
    x = 0
    for i in range(200):
        x += i
    return x


def make_tracer(st):
    def local(frame, event, arg):
        if st.done:
            return None
        if event == 'line' and st.opcode and st.armed:
            return local
        if event == 'line' or (event == 'opcode' and st.opcode and st.armed):
            if threading.get_ident() != st.thread:
                return local
            if not st.armed:
                if frame is st.anchor_frame:
                    prev = st.last_anchor_line
                    st.last_anchor_line = frame.f_lineno
                    if prev is not None:
                        txt = linecache.getline(frame.f_code.co_filename, prev)
                        if prev in st.arm_lines or (not st.arm_lines and any(t in txt for t in st.arm_text)):
                            st.armed = True
                if not st.armed:
                    return local
            st.count += 1
            fn = frame.f_code.co_filename
            st.events.append([os.path.basename(fn), frame.f_code.co_name, frame.f_lineno, 1 if fn in st.targets else 0])
            if st.count == st.n and st.fault != 'none':
                _fire(st, frame)
        elif event == 'return' and frame is st.anchor_frame:
            st.flush('anchor_return')
        return local

    def glob(frame, event, arg):
        if st.done or event != 'call':
            return None
        code = frame.f_code
        fn = code.co_filename
        if not st.interesting(fn):
            return None
        if st.thread is None:
            if code.co_name in ANCHORS and (st.anchor is None or code.co_name == st.anchor) and fn.startswith(st.repo):
                me = frame.f_locals.get('self')
                if me is not None and type(me).__name__ == st.cls:
                    st.thread = threading.get_ident()
                    st.anchor_frame = frame
                    if st.plan.get('raise_delay'):
                        _patch_foreign_raise(st)
                    if not st.arm_text and not st.arm_lines:
                        st.armed = True
                    if st.opcode:
                        frame.f_trace_opcodes = True
                        sys.settrace(glob)      # CPython 3.12: opcode events only start after the tracer is set again
                    return local
            return None
        if threading.get_ident() != st.thread:
            return None
        if st.opcode:
            frame.f_trace_opcodes = True
            sys.settrace(glob)
        return local
    return glob


_current = [None]


def install(plan):
    """Install the tracer in this process (new threads and the calling thread)."""
    st = State(plan)
    _current[0] = st
    tr = make_tracer(st)
    threading.settrace(tr)
    sys.settrace(tr)
    return st


def uninstall():
    st = _current[0]
    if st is not None:
        st.done = True
    threading.settrace(None)
    sys.settrace(None)
    for modname in ('pyworkers.thread', 'pyworkers.process', 'pyworkers.remote'):
        mod = sys.modules.get(modname)
        fr = getattr(mod, 'foreign_raise', None) if mod else None
        if fr is not None and getattr(fr, '_vf_wrapped', False):
            fr._vf_state[0] = None
    _current[0] = None


def install_from_env():
    path = os.environ.get('PYWORKERS_VERIF_PLAN')
    if not path:
        return None
    try:
        with open(path) as f:
            plan = json.load(f)
    except (OSError, ValueError):
        return None
    if not plan.get('cls'):
        return None
    import logging
    logging.getLogger().addHandler(logging.NullHandler())   # keep the logging code paths, drop the output
    return install(plan)
