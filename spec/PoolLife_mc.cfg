SPECIFICATION Spec
CONSTANTS
  Fix <- FixAll
  MaxOps = 5
  MaxW = 3
  Kinds <- KindsTP
  Plans <- FreeBoth
  Free = TRUE
  ReuseKeys = FALSE
  NoReinit = FALSE
  NoRekey = FALSE
  EarlyFlag = FALSE
  StickyGuard = FALSE
  EarlyUnreg = FALSE
  ClosedOnlyWait = FALSE
  StaleOverwrite = FALSE
  NoneTimeoutRejected = FALSE
  NoDeadSkip = FALSE
  LateClosed = FALSE
  PDFree = TRUE
  Hist = FALSE
INVARIANT TypeOK
INVARIANT Inv_AllDead
INVARIANT Inv_RunIsolated
INVARIANT Inv_NoWorkToDead
INVARIANT Inv_RestartedGetWork
INVARIANT Inv_NoLeak
INVARIANT Inv_Configurable
CHECK_DEADLOCK FALSE
