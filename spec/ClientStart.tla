------------------------------ MODULE ClientStart ------------------------------
(* Construction of a worker.                                                              *)
(* REMOTE (remote.py:368-411): P = the constructor (_start): connect the data socket,     *)
(* start the frontend thread F, then _startup_sync.wait() WITHOUT timeout.  F             *)
(* (_run_frontend): send header, send self, recv the control address on the data socket,  *)
(* connect the control socket, recv runtime info on the control socket, set the event.    *)
(* In the code as it is the event is set ONLY on success: any exception in F ends F and   *)
(* leaves P blocked.  The server (environment) follows remote_server.py / __setstate__    *)
(* and may end the connection (FIN or RST) at every step, cut the two server-to-client    *)
(* frames anywhere, refuse the control connect, not know the context id (it then          *)
(* `continue`s: no reply, socket kept), or be killed at a step.                           *)
(* PROCESS (process.py:142-151): P spawns the child and waits for runtime info or the     *)
(* child's sentinel; a child that exits first takes the sentinel path.                    *)
(*                                                                                        *)
(* Fix: "report"   - F reports a failed handshake: stores the exception and sets the      *)
(*                   event; _start re-raises it (proposed_fixes/C20_*.diff)               *)
(*      "srvclose" - the server closes the client socket when the context id is unknown   *)
(*      "sentinelraise" - ProcessWorker._start raises when the child's sentinel fires      *)
(*                   before the runtime info (proposed_fixes/C20_process_start_raises...);  *)
(*                   without it _start returns normally, Worker.__init__ REGISTERS the      *)
(*                   half-built worker in Worker._active_children, and only the `assert     *)
(*                   not self.is_child` of ProcessWorker.__init__ makes the constructor     *)
(*                   raise - the registry then holds an object whose is_alive() raises      *)
(* The data connection is a resource of its own (dsock): _start closes it on every failure *)
(* exit.  A persistent backend sits in recv_msg on it and exits iff the client's end is    *)
(* closed; a one-shot backend ends with its (short) target.  LeakData = TRUE is the        *)
(* variant whose failure exit forgets the data socket (must be rejected: a failure at the  *)
(* LAST step - runtime info cut on the control connection of a REAL server, "rinfo*" -     *)
(* then leaves the persistent backend behind).                                             *)
(* LateErrReset = TRUE: _start clears the error slot AFTER it has started the frontend       *)
(* thread (the code clears it before): a handshake that fails at once is then forgotten and   *)
(* the constructor RETURNS a worker for which no child was ever started (must be rejected by  *)
(* C20_Usable; the replay forces the interleaving by holding the constructing thread right    *)
(* after Thread.start() until the frontend thread has finished).                              *)
(* "kill_info": the server is killed exactly when it is about to forward the runtime info   *)
(* on the control connection.  The code sends the go-ahead to the backend AFTER that frame;  *)
(* GoFirst = TRUE sends it before (must be rejected: the backend then runs its target and    *)
(* keeps the sockets open, the constructor blocks as long as the target runs).               *)
(* "bk_baseexc": unpickling the payload in the backend raises a BaseException that is not an *)
(* Exception (the target's module calls sys.exit() when imported there).  Without the fix    *)
(* "basereport" _run_backend unwinds past both `except Exception` clauses without reporting  *)
(* its identity while its non-daemon control thread keeps the process alive: the server      *)
(* (and with it the client's constructor) waits forever.                                     *)
(* LateClose = TRUE: the backend closes its inherited copy of the server's end of the      *)
(* start-up pipe only after the go-ahead (must be rejected: a server that dies between     *)
(* "backend started" and "go-ahead sent" then leaves an orphan blocked in recv() that      *)
(* keeps the client's sockets open - the constructor never returns).                       *)
EXTENDS Naturals, Sequences, FiniteSets, TLC, ClientStartProps

CONSTANTS Fix, Scenarios, LateClose, LeakData, GoFirst, LateErrReset

VARIABLES scn,      \* [kind, step, how, pers ("F" one-shot | "T" persistent | "L" one-shot, never-ending target)]
          dsock,    \* the client's data socket: "none" "open" "closed"
          regd,     \* the worker object has been put into Worker._active_children
          ppc,      \* constructor: "connect" "startF" "wait" | "spawn" "waitc" | "returned" "raised"
          fpc,      \* frontend thread: "idle" "hdr" "self" "addr" "conn" "info" "set" "fetch" "dead"
          evt, err, \* _startup_sync; handshake error recorded (only with "report")
          sv,       \* server: "listen" "gotHdr" "gotSelf" "sentAddr" "accepted" "sentInfo" "silent" "gone"
          sent,     \* what F has written on the data socket: 0 nothing, 1 header, 2 header + worker
          dconn,    \* data connection as the client sees it: "open" "fin" "rst"
          addr,     \* control-address frame at the client: "none" "part" "full"
          ctrl,     \* control connection: "none" "open" "fin" "rst"
          info,     \* runtime-info frame at the client: "none" "part" "full"
          gotInfo,  \* F has read a complete runtime-info frame
          bk,       \* server's backend child (_run_backend): "none" "boot" (interpreter starting, worker not yet unpickled)
                    \* "main" (control thread started; re-running the main script) "waitgo" (runtime info sent on the
                    \* start-up pipe, blocked in child_end.recv() for the go-ahead) "run" "gone"
          bkp,      \* the backend still holds ITS OWN copy of the server's end of the start-up pipe
          go,       \* the server has sent the go-ahead
          ch        \* process kind: the child: "none" "starting" "reported" "exited"
vars == <<scn, regd, dsock, ppc, fpc, evt, err, sv, sent, dconn, addr, ctrl, info, gotInfo, bk, bkp, go, ch>>

St  == scn.step        \* "healthy" "refuse_data" "unknown_ctx" "hdr" "self" "addr0" "addrM" "addrL" "conn" "info0" "infoM" "infoL"
                       \* "kill_hdr" "kill_self" "kill_addr" "kill_spawn" "kill_window" | process kind: "healthy" "exit_early"
Ends == {"fin", "rst"}
Hows == IF scn.how \in Ends THEN {scn.how} ELSE Ends      \* a killed server's sockets end with FIN or RST (kernel's choice)
IsKill == St \in {"kill_hdr", "kill_self", "kill_addr", "kill_spawn", "kill_window", "kill_info"}
SrvDead == IsKill /\ sv = "gone"
IsRInfo == St \in {"rinfo0", "rinfoM", "rinfoL"}       \* real server; the runtime-info frame is cut on the control connection

Init == /\ scn \in Scenarios
        /\ ppc = IF scn.kind = "remote" THEN "connect" ELSE "spawn"
        /\ dsock = "none" /\ regd = FALSE
        /\ fpc = "idle" /\ evt = FALSE /\ err = FALSE /\ sv = "listen" /\ sent = 0 /\ dconn = "open"
        /\ addr = "none" /\ ctrl = "none" /\ info = "none" /\ gotInfo = FALSE /\ bk = "none" /\ bkp = FALSE /\ go = FALSE /\ ch = "none"

(* ---- the constructor ---- *)
PStep ==
  /\ CASE ppc = "connect" -> /\ ppc' = (IF St = "refuse_data" THEN "raised" ELSE "startF")                  \* connect() raises
                             /\ dsock' = (IF St = "refuse_data" THEN "closed" ELSE "open") /\ UNCHANGED <<fpc, regd>>
       [] ppc = "startF" -> ppc' = (IF LateErrReset THEN "reset" ELSE "wait") /\ fpc' = "hdr" /\ UNCHANGED <<dsock, regd>>
       [] ppc = "wait" -> /\ evt                         \* _startup_sync.wait(): no timeout
                          /\ ppc' = (IF err THEN "raised" ELSE "returned") /\ UNCHANGED fpc
                          /\ dsock' = (IF err /\ ~LeakData THEN "closed" ELSE dsock)     \* remote.py: `self._socket.close()` before re-raising
                          /\ regd' = ~err
       [] ppc = "spawn" -> ppc' = "waitc" /\ UNCHANGED <<fpc, dsock, regd>>
       [] ppc = "waitc" -> /\ ch \in {"reported", "exited"}          \* connection.wait([comms, sentinel])
                           /\ ppc' = (IF ch = "reported" THEN "returned" ELSE "raised")   \* sentinel path: `assert not self.is_child` fails
                           /\ regd' = (ch = "reported" \/ "sentinelraise" \notin Fix)     \* worker.py: register_child after _start returned
                           /\ UNCHANGED <<fpc, dsock>>
       [] OTHER -> FALSE
  /\ ch' = IF ppc = "spawn" THEN "starting" ELSE ch
  /\ UNCHANGED <<scn, evt, err, sv, sent, dconn, addr, ctrl, info, gotInfo, bk, bkp, go>>

PReset ==                                  \* (only with LateErrReset) `self._startup_error = None` after the thread has been started
  /\ ppc = "reset"
  /\ ppc' = "wait" /\ err' = FALSE
  /\ UNCHANGED <<scn, regd, dsock, fpc, evt, sv, sent, dconn, addr, ctrl, info, gotInfo, bk, bkp, go, ch>>

(* ---- the frontend thread ---- *)
Fail == IF "report" \in Fix THEN fpc' = "dead" /\ err' = TRUE /\ evt' = TRUE
        ELSE fpc' = "dead" /\ UNCHANGED <<err, evt>>             \* the thread dies with the exception; nobody is told
FStep ==
  /\ fpc \in {"hdr", "self", "addr", "conn", "info", "set"}
  /\ CASE fpc = "hdr" -> /\ sent' = 1 /\ fpc' = "self" /\ UNCHANGED <<err, evt, ctrl, gotInfo>>
       [] fpc = "self" -> \/ /\ sent' = 2 /\ fpc' = "addr" /\ UNCHANGED <<err, evt, ctrl, gotInfo>>    \* sendall succeeds (possibly into a dead connection)
                          \/ /\ dconn # "open" /\ Fail /\ UNCHANGED <<sent, ctrl, gotInfo>>             \* EPIPE / ECONNRESET -> ConnectionClosedError
       [] fpc = "addr" -> \/ /\ addr = "full" /\ fpc' = "conn" /\ UNCHANGED <<err, evt, sent, ctrl, gotInfo>>
                          \/ /\ addr # "full" /\ dconn # "open" /\ Fail /\ UNCHANGED <<sent, ctrl, gotInfo>>   \* recv_msg: ConnectionClosedError
       [] fpc = "conn" -> IF sv = "sentAddr"
                          THEN ctrl' = "open" /\ fpc' = "info" /\ UNCHANGED <<err, evt, sent, gotInfo>>
                          ELSE Fail /\ UNCHANGED <<sent, ctrl, gotInfo>>                               \* ConnectionRefusedError
       [] fpc = "info" -> \/ /\ info = "full" /\ gotInfo' = TRUE /\ fpc' = "set" /\ UNCHANGED <<err, evt, sent, ctrl>>
                          \/ /\ info # "full" /\ ctrl \in Ends /\ Fail /\ UNCHANGED <<sent, ctrl, gotInfo>>
       [] fpc = "set" -> evt' = TRUE /\ fpc' = "fetch" /\ UNCHANGED <<err, sent, ctrl, gotInfo>>
  /\ UNCHANGED <<scn, regd, dsock, ppc, sv, dconn, addr, info, bk, bkp, go, ch>>

(* ---- the server (environment) ---- *)
Gone(how) == sv' = "gone" /\ dconn' = how
NB == UNCHANGED <<bk, bkp, go>>
SStep ==
  /\ scn.kind = "remote"
  /\ CASE sv = "listen" /\ sent >= 1 ->
            IF St \in {"hdr", "kill_hdr"} THEN \E h \in Hows : Gone(h) /\ UNCHANGED <<addr, ctrl, info>> /\ NB
            ELSE IF St = "unknown_ctx"
                 THEN (IF "srvclose" \in Fix THEN Gone("fin") ELSE sv' = "silent" /\ UNCHANGED dconn) /\ UNCHANGED <<addr, ctrl, info>> /\ NB
            ELSE sv' = "gotHdr" /\ UNCHANGED <<dconn, addr, ctrl, info>> /\ NB
       [] sv = "gotHdr" /\ sent >= 2 ->
            IF St \in {"self", "kill_self"} THEN \E h \in Hows : Gone(h) /\ UNCHANGED <<addr, ctrl, info>> /\ NB
            ELSE sv' = "gotSelf" /\ UNCHANGED <<dconn, addr, ctrl, info>> /\ NB
       [] sv = "gotSelf" ->                              \* send the control address on the data socket
            IF St \in {"addr0", "addrM", "addrL"}
            THEN \E h \in Hows : addr' = (IF St = "addr0" THEN "none" ELSE "part") /\ Gone(h) /\ UNCHANGED <<ctrl, info>> /\ NB
            ELSE IF St = "conn" THEN addr' = "full" /\ sv' = "noListener" /\ UNCHANGED <<dconn, ctrl, info>> /\ NB
            ELSE IF St = "kill_addr" THEN \E h \in Hows : addr' = "full" /\ Gone(h) /\ UNCHANGED <<ctrl, info>> /\ NB
            ELSE addr' = "full" /\ sv' = "sentAddr" /\ UNCHANGED <<dconn, ctrl, info>> /\ NB
       [] sv = "sentAddr" /\ ctrl = "open" ->            \* accept; create the start-up pipe; spawn the backend (it inherits both pipe
            /\ sv' = "accepted" /\ bk' = "boot" /\ bkp' = TRUE    \* ends and the data and control sockets)
            /\ UNCHANGED <<dconn, addr, ctrl, info, go>>
       [] sv = "accepted" /\ St \in {"info0", "infoM", "infoL"} ->      \* (scripted server) runtime info cut on the control socket
            \E h \in Hows : /\ info' = (IF St = "info0" THEN "none" ELSE "part") /\ ctrl' = h /\ sv' = "gone"
                             /\ UNCHANGED <<dconn, addr>> /\ NB
       [] sv = "accepted" /\ St = "kill_spawn" /\ bk = "boot" ->       \* killed before the backend has unpickled its worker: the
            \E h \in Hows : ctrl' = h /\ Gone(h) /\ bk' = "gone" /\ UNCHANGED <<addr, info, bkp, go>>     \* bootstrap fails, the backend exits
       [] sv = "accepted" /\ St = "kill_window" /\ bk \in {"main", "waitgo"} ->    \* killed between "backend started" and "go-ahead sent":
            sv' = "gone" /\ UNCHANGED <<dconn, addr, ctrl, info>> /\ NB            \* the client's sockets stay open - the backend holds copies
       [] sv = "accepted" /\ bk = "waitgo" /\ IsRInfo ->     \* the server does everything right; the frame is cut on its way to the client
            \E h \in Hows : /\ info' = (IF St = "rinfo0" THEN "none" ELSE "part") /\ ctrl' = h
                             /\ go' = TRUE /\ sv' = "sentInfo" /\ UNCHANGED <<dconn, addr, bk, bkp>>
       [] sv = "accepted" /\ bk = "waitgo" /\ St = "kill_info" ->        \* killed at the runtime-info step; the go-ahead follows that frame
            sv' = "gone" /\ go' = GoFirst /\ UNCHANGED <<dconn, addr, ctrl, info, bk, bkp>>
       [] sv = "accepted" /\ bk = "waitgo" /\ ~IsRInfo /\ St \notin {"kill_spawn", "kill_window", "kill_info", "info0", "infoM", "infoL"} ->
            \* runtime info received on the start-up pipe: forward it on the control socket, send the go-ahead
            info' = "full" /\ go' = TRUE /\ sv' = "sentInfo" /\ UNCHANGED <<dconn, addr, ctrl, bk, bkp>>
       [] OTHER -> FALSE
  /\ UNCHANGED <<scn, regd, dsock, ppc, fpc, evt, err, sent, gotInfo, ch>>

(* ---- the backend process (remote.py: _run_backend up to the go-ahead) ---- *)
\* EOF / EPIPE on the start-up pipe needs EVERY copy of the server's end to be closed: the server's (it is dead) and the
\* backend's own inherited copy.  The code closes that copy right after starting its control thread (remote.py:607);
\* LateClose = TRUE is the variant that closes it only after the go-ahead has arrived.
PipeDead == SrvDead /\ ~bkp
BStep ==
  /\ scn.kind = "remote" /\ St \notin {"info0", "infoM", "infoL"}
  /\ CASE bk = "boot" /\ St # "kill_spawn" -> bk' = "main" /\ bkp' = LateClose /\ UNCHANGED go
       [] bk = "main" /\ St = "bk_baseexc" /\ "basereport" \notin Fix -> bk' = "mute" /\ UNCHANGED <<bkp, go>>   \* unwound without reporting; kept alive by its control thread
       [] bk = "main" /\ ~(St = "bk_baseexc" /\ "basereport" \notin Fix) ->
            (IF PipeDead THEN bk' = "gone" ELSE bk' = "waitgo") /\ UNCHANGED <<bkp, go>>      \* send runtime info (BrokenPipeError -> exits)
       [] bk = "waitgo" /\ go -> bk' = "run" /\ bkp' = FALSE /\ UNCHANGED go
       [] bk = "waitgo" /\ ~go /\ PipeDead -> bk' = "gone" /\ UNCHANGED <<bkp, go>>                        \* EOFError -> result (False, e) -> exits
       [] bk = "run" /\ IsRInfo /\ (scn.pers = "F" \/ (scn.pers = "T" /\ dsock = "closed")) -> bk' = "gone" /\ UNCHANGED <<bkp, go>>
            \* one-shot ("F"): the (short) target ends; persistent ("T"): recv_msg on the data connection sees the client's
            \* close; one-shot with a target that does not end by itself ("L"): stays (known finding, see ClientStartMC)
       [] OTHER -> FALSE
  /\ UNCHANGED <<scn, regd, dsock, ppc, fpc, evt, err, sv, sent, dconn, addr, ctrl, info, gotInfo, ch>>
\* the last holder of the data and control sockets is gone: the client sees the end of both connections
SockEOF ==
  /\ St \in {"kill_window", "kill_info"} /\ SrvDead /\ bk = "gone" /\ ctrl = "open"
  /\ \E h \in Hows : ctrl' = h /\ dconn' = h
  /\ UNCHANGED <<scn, regd, dsock, ppc, fpc, evt, err, sv, sent, addr, info, gotInfo, bk, bkp, go, ch>>

(* ---- the child process (process kind) ---- *)
CStep == /\ scn.kind = "process" /\ ch = "starting"
         /\ ch' = IF St = "exit_early" THEN "exited" ELSE "reported"
         /\ UNCHANGED <<scn, regd, dsock, ppc, fpc, evt, err, sv, sent, dconn, addr, ctrl, info, gotInfo, bk, bkp, go>>

Next == PStep \/ PReset \/ FStep \/ SStep \/ BStep \/ SockEOF \/ CStep
Spec == Init /\ [][Next]_vars /\ WF_vars(PStep) /\ WF_vars(PReset) /\ WF_vars(FStep) /\ WF_vars(SStep) /\ WF_vars(BStep) /\ WF_vars(SockEOF) /\ WF_vars(CStep)

Done == ppc \in {"returned", "raised"}
Orphaned == (SrvDead \/ (IsRInfo /\ ppc = "raised")) /\ bk \in {"boot", "main", "waitgo", "run", "mute"}
Settled == ~((SrvDead \/ IsRInfo) /\ ENABLED BStep)
Rec == [scn |-> scn,
        obs |-> [outcome |-> IF Done THEN ppc ELSE "hung",
                 id_ok |-> IF ppc # "returned" THEN "na" ELSE IF (scn.kind = "remote" /\ gotInfo) \/ (scn.kind = "process" /\ ch = "reported") THEN "T" ELSE "F",
                 registry |-> IF ppc = "raised" /\ regd THEN "broken" ELSE "ok",
                 leftover |-> IF (scn.kind = "process" /\ ch \in {"starting", "reported"}) \/ (scn.kind = "remote" /\ Orphaned) THEN 1 ELSE 0]]

Live_Returns   == <>Done
Inv_Usable     == Done => C20_Usable(Rec)
Inv_NoLeftover == (Done /\ Settled) => C20_NoLeftover(Rec)
Inv_NotRegistered == Done => C20_NotRegistered(Rec)
Inv_DataClosed == (scn.kind = "remote" /\ ppc = "raised") => dsock = "closed"        \* every failure exit closes the data socket
TypeOK == /\ sent \in 0..2 /\ dconn \in {"open", "fin", "rst"} /\ addr \in {"none", "part", "full"} /\ info \in {"none", "part", "full"}
          /\ (evt /\ ~err) => gotInfo

\* ---- witnesses (expected violated) ----
W_Returned == ~(ppc = "returned")
W_Raised   == ~(ppc = "raised" /\ scn.kind = "remote" /\ St # "refuse_data")
W_FDead    == ~(fpc = "dead")
W_Orphan   == ~Orphaned
W_RInfoBackend == ~(IsRInfo /\ scn.pers = "T" /\ ppc = "raised" /\ bk = "run")
W_WindowEOF == ~(St = "kill_window" /\ ppc = "raised")

\* ---- every scenario with every outcome (terminal states), for replay and conformance ----
Quiet == ~ENABLED Next
PathDump == Quiet => PrintT(<<"PATH", scn.kind, scn.step \o (IF scn.pers = "T" THEN "+pers" ELSE ""), scn.how, Rec.obs.outcome>>)
=============================================================================
