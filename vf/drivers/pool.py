"""C07 / C08 - Pool.run.  spec/Pool.tla (PlusCal, shaped like pool.py) is model-checked over all
interleavings of worker progress, deaths and the pool's own steps; every behaviour of the reduced
replay configuration is forced onto the REAL Pool.run through its call-in points with scripted
workers owning real result pipes; TLC judges every real run with the C07/C08 operators
(PoolJudge.tla); call-in sequences and outcomes are compared with the model (conformance)."""
import functools
import json
import os
import random
import re
import types

from .. import tlc
from ..common import MachineryError, Timer, ensure_repo_on_path, seed
from ..report import Evidence, Violation, finish

_TXT = ('Pool.tla is a PlusCal transcription of Pool.run (first_enqueue, try_enqueue incl. its retry of a failing enqueue, '
        'handle_death, handle_new_result, the wait/recv loop with EOF => artificial end message). TLC checks the C07/C08 '
        'operators over every interleaving of worker progress, poison inputs, bad workers, external kills and pool steps for '
        'pools of 2-3 workers, and termination under fairness. Every behaviour of the reduced replay configuration (hundreds to '
        'thousands of environment schedules) is forced onto the real Pool.run with scripted workers and judged by TLC.')
_NOTE = ('Trusted: TLC; the reduction "environment moves only at call-ins" (validated by ./check selftest comparing terminal '
         '(scn, obs) sets); scripted workers stand for real ones (real-worker runs are exercised by the C06/C09 checks). '
         'Refusing enqueue functions: known findings (see known_findings.json).')
CHECKS = {
    'C07': dict(engine='Pool', technique='TLA+/PlusCal spec Pool.tla model-checked with TLC (safety + liveness); TLC path dump replayed on the real Pool.run via scripted workers; TLC judge (PoolJudge) on every real run; call-in trace conformance',
                text=_TXT, note=_NOTE, design_ref='6/C07'),
    'C08': dict(engine='Pool', technique='TLA+/PlusCal spec Pool.tla model-checked with TLC; TLC path dump (retry on/off, refusals, poison, kills) replayed on the real Pool.run; TLC judge (PoolJudge) on every real run',
                text=_TXT, note=_NOTE, design_ref='6/C08'),
}


class Hang(BaseException):
    pass


def _tla(s):
    return json.loads(s.replace('<<', '[').replace('>>', ']'))


def mc_cfg(**kw):
    base = open(os.path.join(tlc.SPEC, 'Pool_mc_small.cfg')).read()
    for a, b in kw.items():
        base = re.sub(r'(?m)^(\s*%s\s*(=|<-)\s*).*$' % a, lambda m: m.group(1) + b, base)
    return base


# ----------------------------------------------------------------------------------------------
# scripted environment
# ----------------------------------------------------------------------------------------------
class Driver:
    def __init__(self, scn, h, cis, rng=None):
        self.rng = rng                   # after a deviation from the model's schedule: which worker moves next (None = fixed fair order)
        self.scn = scn
        self.h = h                       # [[ci, kind, w], ...]
        self.cis = cis                   # expected call-ins [[kind, w, x], ...]
        self.hi = 0
        self.n_callins = 0
        self.real_cis = []
        self.workers = {}
        self.budget = 40 * (scn['n'] + 3) * (len(scn['W']) + 1)
        self.handed = [[] for _ in range(scn['n'])]
        self.refusers = set()
        self.answered = []
        self.deviated = False
        self.gen_calls = []              # per-worker input callable: worker it was evaluated for, per call

    def genuine(self, x, tag):
        """the value a worker computes from (x, tag) is the target's value of input x only if the tuple is the one drawn"""
        if tag is None:
            return True
        return 1 <= x <= len(self.gen_calls) and tag == 1000 + self.gen_calls[x - 1]

    def callin(self, kind, w, x):
        self.n_callins += 1
        if self.n_callins > self.budget:
            raise Hang('call-in budget exceeded (%d): the pool does not terminate' % self.budget)
        k = self.n_callins
        if self.rng is not None and self.deviated:
            self.hi = len(self.h)        # the model's schedule has lost its meaning: from here on the (seeded) random environment
        while self.hi < len(self.h) and self.h[self.hi][0] <= k - 1:
            _, ekind, ew = self.h[self.hi]
            self.hi += 1
            self.env_step(ekind, ew)
        self.real_cis.append([kind, w, x])
        if len(self.real_cis) <= len(self.cis):
            if self.cis[len(self.real_cis) - 1] != [kind, w, x]:
                self.deviated = True
        else:
            self.deviated = True
        if kind == 'wait':
            self.ensure_ready()

    def env_step(self, kind, w):
        sw = self.workers[w]
        if kind == 'step':
            if sw.st != 'run' or not sw.inbox or getattr(sw, 'frozen', False):
                return
            x, tag = sw.inbox.pop(0)
            if x in self.scn['poison'] or (w in self.scn['bad'] and sw.counter >= self.scn.get('bad_after', 0)):
                sw.counter_end()
            else:
                sw.emit(x if self.genuine(x, tag) else -x)
        elif kind == 'exit':
            if sw.st == 'dying':
                sw.st = 'dead'
        elif kind == 'kill':
            if sw.st == 'run':
                sw.kill()

    def ensure_ready(self):
        """connection.wait must not block forever: if nothing is readable, let the default fair
        environment progress (only after a deviation or when the schedule is exhausted)."""
        for _ in range(4 * (self.scn['n'] + 2)):
            if any(sw.readable() for sw in self.workers.values()):
                return
            progressed = False
            order = list(self.workers.values())
            if self.rng is not None:
                self.rng.shuffle(order)
            for sw in order:
                if sw.st == 'run' and sw.inbox and not getattr(sw, 'frozen', False):
                    self.env_step('step', sw.id)
                    progressed = True
                    if self.rng is None or self.rng.random() < 0.5:
                        break                      # (with an rng: sometimes several workers answer before the pool looks again)
                if sw.st == 'dying':
                    sw.st = 'dead'
            if not progressed:
                break
        if not any(sw.readable() for sw in self.workers.values()):
            raise Hang('connection.wait would block forever: no worker owes a message')


class ScriptedWorker:
    def __init__(self, target=None, args=None, kwargs=None, name=None, userid=None, results_pipe=None, drv=None, wid=None):
        self.id = wid
        self.drv = drv
        self.pipe = results_pipe
        self.st = 'run'
        self.inbox = []
        self.unread = 0
        self.eof_pending = False
        self.counter = 0
        self.cur = None
        drv.workers[wid] = self

    # environment side ---------------------------------------------------------------------
    def emit(self, x):
        self.counter += 1
        self.pipe.child_end.put((self.counter, True, x, self.id))
        self.unread += 1

    def counter_end(self):
        self.pipe.child_end.put((self.counter, False, None, self.id))
        self.unread += 1
        self.pipe.child_end.close()
        self.eof_pending = True
        self.st = 'dying'
        self.inbox = []

    def kill(self):
        self.pipe.child_end.close()
        self.eof_pending = True
        self.st = 'dead'
        self.inbox = []

    def readable(self):
        try:
            return self.pipe.parent_end.stdpipe.poll(0)
        except (OSError, EOFError, ValueError):
            return False

    # API the pool uses ---------------------------------------------------------------------
    def _enqueue(self, x, tag=None):
        from pyworkers.persistent import WorkerClosedError
        self.drv.handed[x - 1].append(self.id) if 1 <= x <= len(self.drv.handed) else None
        self.cur = x
        if self.st == 'run':
            self.inbox.append((x, tag))
            if getattr(self.drv, 'kill_on_enqueue', None) == self.id:
                # this worker still owes answers to an abandoned run and dies (bare EOF) once the new run has filled its
                # slots (the pool will not talk to it again before it reads from it)
                self.drv.kill_countdown -= 1
                if self.drv.kill_countdown <= 0:
                    self.drv.kill_on_enqueue = None
                    self.kill()
            return
        if self.st == 'dying':
            i = len(self.drv.real_cis)
            nxt = self.drv.cis[i] if (not self.drv.deviated and i < len(self.drv.cis)) else None
            if nxt == ['alive', self.id, x]:
                raise BrokenPipeError('args pipe of a dying child')
            return                       # buffered, never read
        raise WorkerClosedError(self)

    def enqueue(self, x, tag=None):
        self.drv.callin('call', self.id, x)
        self._enqueue(x, tag)

    def is_alive(self):
        self.drv.callin('alive', self.id, self.cur)
        return self.st != 'dead'

    has_error = False
    error = None

    def close(self):
        pass

    def wait(self, timeout=None):
        return True

    def terminate(self, timeout=None, force=None):
        return True

    def __repr__(self):
        return 'SW%d' % self.id


def run_real(scn, h, cis, rng=None):
    """One real Pool.run driven by the environment schedule h."""
    ensure_repo_on_path()
    import logging
    logging.disable(logging.CRITICAL)
    from pyworkers import pool as pool_mod
    pool_mod.time = types.SimpleNamespace(sleep=lambda s: None)
    drv = Driver(scn, h, cis, rng)

    class P(pool_mod.Pool):
        def _get_all_queues(self):
            if self._map_guard:
                drv.callin('wait', 0, 0)
            return super()._get_all_queues()

    p = P(target=None, retry=scn['retry'] == 'T')
    for w in sorted(scn['W']):
        p.add_worker(functools.partial(ScriptedWorker, drv=drv, wid=w))
    refuse = set(tuple(x) for x in scn['refuse'])
    enqueue_fn = None
    if refuse:
        def enqueue_fn(worker, x, tag=None):
            drv.callin('call', worker.id, x)
            if (worker.id, x) in refuse:
                drv.refusers.add(worker.id)
                drv.nrefused = getattr(drv, 'nrefused', 0) + 1
                # pool.py tests `not enqueue_fn(...)`: every falsy answer is a refusal (a function that falls off its end refuses)
                return (False, None, 0)[(drv.nrefused + x) % 3]
            worker._enqueue(x, tag)
            return True

    class Abort(Exception):
        pass

    def cb(worker, event, *a):
        if event == 'finished':
            drv.answered.append([worker.id, a[0] if isinstance(a[0], int) else 0])
            if scn.get('abort_after') and len(drv.answered) == scn['abort_after']:
                raise Abort('the user callback fails')      # run() is abandoned with inputs still in flight

    class PerWorker:                     # a callable object, not a plain function
        def __call__(self, worker):
            drv.gen_calls.append(worker.id)
            return 1000 + worker.id
    sources = [iter(range(1, scn['n'] + 1))] + ([PerWorker()] if scn.get('callsrc') else [])
    retres = scn.get('retres', 'T') == 'T'
    ret, outcome, retnone = [], 'ok', 'F'
    try:
        ret = p.run(*sources, worker_callback=cb, enqueue_fn=enqueue_fn,
                    worker_extra_pending_inputs=scn['extra'], return_results=retres)
        retnone = 'T' if ret is None else 'F'
        ret = list(ret or [])
    except pool_mod.PoolError as e:
        outcome = 'poolerror'
        retnone = 'T' if e.partial_results is None else 'F'
        ret = list(e.partial_results or [])
    except Hang:
        outcome = 'hang'
    except Abort:
        outcome = 'aborted'
    except Exception as e:  # noqa
        outcome = 'internal_error:' + type(e).__name__
    finally:
        p._map_guard = False
    second = None
    drv.first_deviated, drv.first_cis = drv.deviated, list(drv.real_cis)
    if scn.get('abort_twice') and outcome == 'aborted' and any(sw.st == 'run' for sw in drv.workers.values()):
        # a second run() abandoned as well - by the callback's exception on the first 'enqueued' event, i.e. before any
        # of the answers still owed to the first abandoned run has been read
        def cb2(worker, event, *a):
            if event == 'enqueued':
                raise Abort('the user callback fails again')
        drv.budget += 40
        drv.deviated = True
        try:
            p.run(iter(range(201, 204)), worker_callback=cb2, worker_extra_pending_inputs=scn['extra'])
        except Abort:
            pass
        except (Hang, Exception) as e:  # noqa
            outcome = 'internal_error:second abandoned run:' + type(e).__name__
        finally:
            p._map_guard = False
    if scn.get('second_run') and outcome in ('ok', 'poolerror', 'aborted') and any(sw.st == 'run' for sw in drv.workers.values()):
        # the pool is reusable: a later run() must return results of ITS inputs only (no bookkeeping left behind)
        n2 = scn['n'] or 2
        drv.budget += 40 * (n2 + 3) * (len(scn['W']) + 1)
        drv.deviated = True
        if scn.get('second_kill'):
            owing = [w for w, sw in sorted(drv.workers.items()) if sw.st == 'run' and sw.inbox]
            if owing and len([sw for sw in drv.workers.values() if sw.st == 'run']) > 1:
                drv.kill_on_enqueue = owing[0]
                drv.workers[owing[0]].frozen = True      # it makes no progress any more: what it owes is never answered
                drv.kill_countdown = scn['extra'] + 1
        try:
            r2 = p.run(iter(range(101, 101 + n2)), worker_extra_pending_inputs=scn['extra'])
            second = {'outcome': 'ok', 'ret': [x - 100 if (isinstance(x, int) and 101 <= x <= 100 + n2) else 0 for x in (r2 or [])], 'n': n2}
        except pool_mod.PoolError as e:
            second = {'outcome': 'poolerror', 'ret': [x - 100 if (isinstance(x, int) and 101 <= x <= 100 + n2) else 0 for x in (e.partial_results or [])], 'n': n2}
        except Hang:
            second = {'outcome': 'hang', 'ret': [], 'n': n2}
        except Exception as e:  # noqa
            second = {'outcome': 'internal_error:' + type(e).__name__, 'ret': [], 'n': n2}
    for sw in drv.workers.values():
        for end in (sw.pipe.child_end, sw.pipe.parent_end):
            try:
                end.close()
            except OSError:
                pass
    n = scn['n']
    drv.second = second
    obs = {'outcome': outcome,
           'ret': [x if (isinstance(x, int) and 1 <= x <= n) else 0 for x in ret], 'retnone': retnone,
           'alive': sorted(w for w, sw in drv.workers.items() if sw.st == 'run'),
           'dead': sorted(w for w, sw in drv.workers.items() if sw.st != 'run'),
           'refusers': sorted(drv.refusers),
           'handed': drv.handed, 'answered': [[w, x if 1 <= x <= n else 0] for w, x in drv.answered]}
    drv.cbres = [x if 1 <= x <= n else 0 for _, x in drv.answered]
    return obs, drv


# configurations: (label, cfg overrides, python scenario)
def _scn(W, n, extra, retry, poison=(), bad=(), refuse=(), retres=True, callsrc=False):
    return {'W': list(W), 'n': n, 'extra': extra, 'retry': 'T' if retry else 'F', 'poison': list(poison),
            'bad': list(bad), 'refuse': [list(x) for x in refuse], 'second_run': bool(refuse) or bool(bad),
            'retres': 'T' if retres else 'F', 'callsrc': callsrc}


def _jscn(scn, n=None):
    return {'n': scn['n'] if n is None else n, 'retry': scn['retry'], 'retres': scn.get('retres', 'T')}


def _configs(tier):
    c = []

    def add(label, W=(1, 2), n=3, extra=1, retry=True, poison=(), bad=(), kills=1, refuse=None, refname='NoPairs', mc=True,
            retres=True, callsrc=False, bad_after=0):
        kw = dict(BadAfter=str(bad_after), W='{%s}' % ', '.join(map(str, W)), N=str(n), Extra=str(extra), Retry='TRUE' if retry else 'FALSE',
                  Poison='{%s}' % ', '.join(map(str, poison)), Bad='{%s}' % ', '.join(map(str, bad)),
                  MaxKills=str(kills), Refuse=refname, RetRes='TRUE' if retres else 'FALSE', CallSrc='TRUE' if callsrc else 'FALSE')
        c.append((label, kw, _scn(W, n, extra, retry, poison, bad, refuse or (), retres, callsrc), mc))
        c[-1][2]['bad_after'] = bad_after
    add('W2 N3 extra1 kill1')
    add('W2 N3 extra1 poison{2} bad{1} kill1', poison=(2,), bad=(1,))
    add('W2 N3 extra1 noretry poison{2} kill1', retry=False, poison=(2,))
    add('W3 N3 extra1 kill1', W=(1, 2, 3), n=3)
    add('W3 N1 extra1 bad{1,2}', W=(1, 2, 3), n=1, bad=(1, 2), kills=0)       # fewer inputs than worker slots: untouched idle workers
    add('W3 N2 extra0 bad{1} kill1', W=(1, 2, 3), n=2, extra=0, bad=(1,))
    # a worker that answers, then dies on a poison input, is offered its next input while it is dying (BrokenPipe, still alive)
    # and a healthy worker finishes the run: the input whose enqueue failed must not get lost
    add('W2 N5 extra1 bad{2} after its first answer', n=5, bad=(2,), bad_after=1, kills=0)
    add('W3 N7 extra1 bad{2} after its first answer', W=(1, 2, 3), n=7, bad=(2,), bad_after=1, kills=0, mc=False)
    # return_results=False (results only through the callback) and a per-worker input callable as second source
    add('W2 N3 extra1 poison{2} kill1 return_results=False', poison=(2,), retres=False)
    add('W2 N3 extra1 poison{2} kill1 per-worker callable', poison=(2,), callsrc=True)
    if tier == 'thorough':
        add('W3 N4 extra1 kill1', W=(1, 2, 3), n=4)
        add('W2 N3 extra0 kill1', extra=0)
        add('W2 N4 extra2 kill1', n=4, extra=2)
        add('W2 N3 extra1 poison{2}', poison=(2,), kills=0)
        add('W2 N3 extra1 bad{1} kill1', bad=(1,))
        add('W2 N3 extra1 noretry kill1', retry=False)
        add('W2 N2 kill2', n=2, kills=2)
        add('W1 N2 kill1', W=(1,), n=2)
        add('W2 N0', n=0, kills=0)
        add('W2 N3 extra1 noretry kill1 return_results=False', retry=False, retres=False)
        add('W3 N4 extra1 kill1 per-worker callable return_results=False', W=(1, 2, 3), n=4, retres=False, callsrc=True)
        add('W2 N3 refuse(1,1) kill1 per-worker callable', refuse=[(1, 1)], refname='Ref_w1_x1', mc=False, callsrc=True)
    # refusing enqueue_fn (known findings F07b/F08 live here)
    add('W2 N3 refuse(1,1) kill1', refuse=[(1, 1)], refname='Ref_w1_x1', mc=False)
    # run() abandoned by an exception of the user's callback with inputs in flight, then run() again on the same pool
    add('W2 N4 extra1 aborted after 1 result', n=4, kills=0, mc=False)
    c[-1][2].update(abort_after=1, second_run=True)
    add('W2 N4 extra1 aborted after 1 result, aborted again at once, then run', n=4, kills=0, mc=False)
    c[-1][2].update(abort_after=1, abort_twice=True, second_run=True)
    add('W2 N4 extra1 aborted after 1 result, then a worker owing answers dies during the next run', n=4, kills=0, mc=False)
    c[-1][2].update(abort_after=1, second_run=True, second_kill=True)
    add('W1 N3 extra2 aborted after 1 result, aborted again at once, then run', W=(1,), n=3, extra=2, kills=0, mc=False)
    c[-1][2].update(abort_after=1, abort_twice=True, second_run=True)
    add('W2 N3 refuse(1,1) noretry', retry=False, kills=0, refuse=[(1, 1)], refname='Ref_w1_x1', mc=False)
    add('W2 N2 refuse all', n=2, kills=0, refuse=[(1, 1), (1, 2), (2, 1), (2, 2)], refname='Ref_all', mc=False)
    if tier == 'thorough':
        add('W2 N3 refuse(1,*) kill1', refuse=[(1, 1), (1, 2), (1, 3)], refname='Ref_w1_all', mc=False)
        add('W3 N5 extra2 kill2', W=(1, 2, 3), n=5, extra=2, kills=2)
        add('W3 N4 extra1 poison{2} kill1', W=(1, 2, 3), n=4, poison=(2,))
        add('W3 N4 noretry kill2', W=(1, 2, 3), n=4, retry=False, kills=2)
        add('W2 N6 extra2 kill2', n=6, extra=2, kills=2)
        add('W3 N3 bad{2} poison{3} kill1', W=(1, 2, 3), n=3, bad=(2,), poison=(3,))
    return c


TRACE_CFG = '''INIT TInit
NEXT TNext
CONSTANTS
  defaultInitValue = defaultInitValue
  W = {1, 2, 3}
  N = %d
  Extra = 1
  Retry = TRUE
  Poison = %s
  Bad = {}
  BadAfter = 0
  MaxKills = 2
  Refuse <- NoPairs
  MaxDyRaise = 2
  IgnoreLate = TRUE
  OfferOnce = TRUE
  RetRes = TRUE
  CallSrc = FALSE
  Reduced = FALSE
  DetOrder = FALSE
  Hist = FALSE
INVARIANT TAccept
CHECK_DEADLOCK FALSE
'''


def real_worker_traces(tier, ev, drift):
    """Pools of 3 real workers of each kind, SIGKILL at seeded callback indices, poison input 4;
    every callback trace must be a behaviour of Pool.tla (PoolTrace.tla)."""
    import subprocess
    from concurrent.futures import ThreadPoolExecutor
    from ..common import PY, REPO, VERIF, sub_scratch
    runner = os.path.join(os.path.dirname(os.path.abspath(__file__)), '_pool_real_runner.py')
    N = 5
    nseeds = 2 if tier == 'quick' else 8
    specs = [{'kind': k, 'W': 3, 'N': N, 'extra': 1, 'seed': seed() * 100 + s, 'kills': kills, 'poison': poison}
             for poison in ((True,) if tier == 'quick' else (True, False)) for k in ('thread', 'process', 'remote') for s in range(nseeds) for kills in (1, 2)]

    def one(spec):
        env = dict(os.environ, PYTHONPATH=':'.join([VERIF, REPO]), VERIF_REPO=REPO, PYTHONHASHSEED='0')
        try:
            p = subprocess.run([PY, runner, json.dumps(spec)], capture_output=True, text=True, timeout=150, env=env)
        except subprocess.TimeoutExpired:
            return {'spec': spec, 'outcome': 'hang', 'trace': [], 'ret': [], 'killed': [], 'alive': []}
        for line in p.stdout.splitlines():
            if line.startswith('TRACE '):
                return json.loads(line[6:])
        raise MachineryError('real pool runner failed: %s' % p.stderr[-800:])
    with ThreadPoolExecutor(12) as ex:
        res = list(ex.map(one, specs))
    out = []
    for poison in (True, False):
        batch = [r for r in res if r['spec']['poison'] == poison]
        if not batch:
            continue
        traces = [{'id': 't%d' % i, 'trace': r['trace'], 'outcome': r['outcome'], 'ret': r['ret']} for i, r in enumerate(batch)]
        d = sub_scratch('pooltrace')
        tf = os.path.join(d, 'traces_%s.json' % poison)
        json.dump(traces, open(tf, 'w'))
        rt = tlc.run('PoolTrace', cfg_text=TRACE_CFG % (N, '{4}' if poison else '{}'), workers=16, env={'TRACE_FILE': tf},
                     must_complete=False, timeout=3000, name='trace')
        ev.add_tlc('trace validation: %d callback traces of real pools (poison=%s) against Pool.tla' % (len(traces), poison), rt, role='trace')
        if rt.error:
            raise MachineryError('PoolTrace failed: %s' % rt.error)
        acc = set(x[0] for x in rt.tags.get('ACCEPT', []))
        for t, r in zip(traces, batch):
            r['accepted'] = t['id'] in acc
            if not r['accepted'] and len(drift) < 6:
                drift.append('callback trace of a real %s pool is not a behaviour of Pool.tla: outcome %s ret %s trace %s'
                             % (r['spec']['kind'], r['outcome'], r['ret'], r['trace']))
            n = r['spec']['N']
            handed = [[] for _ in range(n)]
            for e in r['trace']:
                if e[0] == 'enq' and 1 <= e[2] <= n:
                    handed[e[2] - 1].append(e[1])
            dead = sorted(set(r.get('killed', [])) | set(e[1] for e in r['trace'] if e[0] == 'died'))
            r['obs'] = {'outcome': r['outcome'], 'ret': r['ret'], 'retnone': 'F', 'alive': [w for w in (1, 2, 3) if w not in dead], 'dead': dead,
                        'refusers': [], 'handed': handed, 'answered': [[e[1], e[2]] for e in r['trace'] if e[0] == 'fin']}
            out.append(r)
    ev.cov['real_worker_traces'] = len(out)
    ev.cov['real_worker_traces_accepted'] = sum(1 for r in out if r['accepted'])
    return out


def signature(prop, clauses, scn, obs):
    return '%s|%s|refuse=%s|retry=%s|outcome=%s%s' % (prop, '+'.join(sorted(clauses)), 'yes' if (scn['refuse'] and not scn.get('second')) else 'no',
                                                      scn['retry'], obs['outcome'], '|second_run' if scn.get('second') else '')


def run(prop, tier, replay=None):
    T = Timer()
    ensure_repo_on_path()
    ev = Evidence(prop, tier)
    mine = 'C07_' if prop == 'C07' else 'C08_'

    if replay is not None:
        rp = replay['replay']
        obs, drv = run_real(rp['scn'], rp['h'], rp['cis'], rng=random.Random(rp['rng']) if rp.get('rng') else None)
        rec = {'id': 'replay', 'scn': _jscn(rp['scn']), 'obs': obs}
        fails, _ = tlc.judge('PoolJudge', [rec], name='replay')
        print('replayed:', json.dumps(rec), 'call-ins:', drv.real_cis)
        bad = [c for _, c in fails if c.startswith(mine)]
        for c in bad:
            print('VIOLATION property=%s replay=(given) clause=%s' % (prop, c))
        return 1 if bad else 0

    violations, drift = [], []
    records, meta = [], {}
    extra_runs = {}
    n_paths = 0
    invs = ['Inv_NoInternalError', 'Inv_ExactlyOnce', 'Inv_Terminates', 'Inv_NotStuck', 'Inv_Genuine', 'Inv_CallbackSeesAll',
            'Inv_RetIffRetRes', 'Inv_GenOnce'] if prop == 'C07' else \
           ['Inv_SoundError', 'Inv_SurvivorSuffices', 'Inv_Genuine', 'Inv_MissingExplained']
    for label, kw, scn, mc in _configs(tier):
        big = len(scn['W']) >= 3
        # 1. the design: exhaustive, unreduced (environment free at every label, any ready/idle order)
        if mc and not (big and prop == 'C08' and tier == 'quick'):
            cfg = mc_cfg(**kw)
            cfg = re.sub(r'(?m)^INVARIANT.*\n', '', cfg).replace('CHECK_DEADLOCK FALSE', ''.join('INVARIANT %s\n' % i for i in invs) + 'CHECK_DEADLOCK FALSE')
            r = tlc.run('PoolMC', cfg_text=cfg, coverage=(label == 'W2 N3 extra1 kill1'), name='mc', must_complete=False, timeout=3000)
            ev.add_tlc('exhaustive ' + label, r)
            if r.error:
                raise MachineryError('Pool.tla (%s) violates %s - replay the counterexample on the real Pool before trusting either\n%s'
                                     % (label, r.error, '\n'.join(r.trace[-30:])))
            if prop == 'C07' and not big:
                live = re.sub(r'(?m)^INVARIANT.*\n', '', cfg).replace('SPECIFICATION Spec', 'SPECIFICATION FairSpec') \
                    .replace('CHECK_DEADLOCK FALSE', 'PROPERTY Live_Terminates\nCHECK_DEADLOCK FALSE')
                rl = tlc.run('PoolMC', cfg_text=live, name='live', must_complete=False, timeout=3000)
                ev.add_tlc('liveness (Pool.run terminates under fairness) ' + label, rl)
                if rl.error:
                    raise MachineryError('Pool.tla (%s): termination violated in the model: %s' % (label, rl.error))
        # 2. spec -> code: every behaviour of the reduced replay configuration on the real Pool
        if big and tier == 'quick':
            pd = mc_cfg(Reduced='TRUE', DetOrder='TRUE', Hist='TRUE', **kw)
            pd = re.sub(r'(?m)^INVARIANT.*\n', '', pd).replace('SPECIFICATION Spec', 'INIT Init\nNEXT Next') \
                .replace('CHECK_DEADLOCK FALSE', 'INVARIANT PathDump\nCHECK_DEADLOCK FALSE')
            rp_ = tlc.run('PoolMC', cfg_text=pd, workers=1, simulate='num=400', depth=400, seed=seed(), name='paths', must_complete=False)
        else:
            pd = mc_cfg(Reduced='TRUE', DetOrder='TRUE', Hist='TRUE', **kw)
            pd = re.sub(r'(?m)^INVARIANT.*\n', '', pd).replace('CHECK_DEADLOCK FALSE', 'INVARIANT PathDump\nCHECK_DEADLOCK FALSE')
            rp_ = tlc.run('PoolMC', cfg_text=pd, workers=1, name='paths', must_complete=False, timeout=3000)
        ev.add_tlc('path dump (Reduced, DetOrder, Hist) ' + label, rp_)
        if rp_.error and not rp_.tags.get('PATH'):
            raise MachineryError('path dump failed for %s: %s' % (label, rp_.error))
        seen = set()
        for hs, cs, m_outcome, m_ret, m_cb, m_gen in rp_.tags.get('PATH', []):
            if (hs, cs) in seen:
                continue
            seen.add((hs, cs))
            h, cis = _tla(hs), _tla(cs)
            obs, drv = run_real(scn, h, cis)
            rid = 'p%d' % len(records)
            if obs['outcome'] != 'aborted':          # a run abandoned by the user's own exception is not judged, the next one is
                records.append({'id': rid, 'scn': _jscn(scn), 'obs': obs})
                meta[rid] = {'scn': scn, 'h': h, 'cis': cis, 'label': label}
            if drv.second is not None:
                s2 = drv.second
                alive = obs['alive']
                rid2 = rid + 'b'
                records.append({'id': rid2, 'scn': dict(_jscn(scn, s2['n']), retres='T'),
                                'obs': {'outcome': s2['outcome'], 'ret': s2['ret'], 'retnone': 'F', 'alive': alive, 'dead': obs['dead'], 'refusers': [],
                                        'handed': [[w for w in alive] for _ in range(s2['n'])], 'answered': []}})
                meta[rid2] = {'scn': dict(scn, second='inputs 101.. after the first run'), 'h': h, 'cis': cis, 'label': label + ' / second run() on the same pool'}
            n_paths += 1
            mo = 'hang' if m_outcome == 'livelock' else m_outcome
            ro = obs['outcome'].split(':')[0]
            if ro == 'aborted':
                continue
            if mo == 'hang' and ro == 'hang' and drv.first_cis[:len(cis)] == cis:
                pass
            elif drv.first_deviated or ro != mo or (mo in ('ok', 'poolerror') and (
                    obs['ret'] != _tla(m_ret) or drv.cbres != _tla(m_cb)
                    or (scn.get('callsrc') and drv.gen_calls != [g for g in _tla(m_gen) if g]))):
                if len(drift) < 4:
                    drift.append('%s: real Pool.run deviates from the TLC behaviour (model outcome %s ret %s; real outcome %s ret %s; '
                                 'callback results model %s real %s; per-worker source evaluated for model %s real %s; '
                                 'call-ins model %s real %s)' % (label, m_outcome, m_ret, obs['outcome'], obs['ret'], m_cb, drv.cbres,
                                                                 m_gen, drv.gen_calls, cis[:8], drv.first_cis[:8]))
                meta[rid]['drift'] = True
                # the real pool has left the model's behaviour: what the tree does from there on depends on the order in which the
                # workers answer, which the model's schedule no longer dictates - play the same prefix a few more times with a
                # seeded random order of answers and judge those runs as well (budget: 60 such re-plays per configuration)
                if extra_runs.get(label, 0) < 60 and 'refuse' not in label:
                    for k in range(3):
                        extra_runs[label] = extra_runs.get(label, 0) + 1
                        rseed = '%s/%s/%d' % (seed(), rid, k)
                        o2, d2 = run_real(scn, h, cis, rng=random.Random(rseed))
                        if o2['outcome'] != 'aborted':
                            rid3 = '%sx%d' % (rid, k)
                            records.append({'id': rid3, 'scn': _jscn(scn), 'obs': o2})
                            meta[rid3] = {'scn': scn, 'h': h, 'cis': cis, 'rng': rseed, 'label': label + ' / answers in a random order after the deviation'}

    # 1c. thorough: the upper end of the quantifier (3 workers, 6 inputs, extra pending 2, 3 deaths incl. a poison input) by simulation
    if tier == 'thorough':
        kw = dict(W='{1, 2, 3}', N='6', Extra='2', Retry='TRUE', Poison='{4}', Bad='{}', MaxKills='2', Refuse='NoPairs')
        cfg = mc_cfg(**kw)
        cfg = re.sub(r'(?m)^INVARIANT.*\n', '', cfg).replace('SPECIFICATION Spec', 'INIT Init\nNEXT Next') \
            .replace('CHECK_DEADLOCK FALSE', ''.join('INVARIANT %s\n' % i for i in invs) + 'CHECK_DEADLOCK FALSE')
        rs = tlc.run('PoolMC', cfg_text=cfg, workers=16, simulate='num=30000', depth=400, seed=seed(), name='sim', must_complete=False, timeout=3000)
        ev.add_tlc('simulation W3 N6 extra2 poison{4} kill2 (30000 behaviours)', rs)
        if rs.error:
            raise MachineryError('Pool.tla simulation (W3 N6 extra2) violates %s' % rs.error)

    # 2b. code -> spec: REAL workers (thread/process/remote) with SIGKILLs and poison inputs; callback traces
    real = real_worker_traces(tier, ev, drift) if (prop == 'C07' or tier == 'thorough') else []
    for r in real:
        rid = 'p%d' % len(records)
        records.append({'id': rid, 'scn': {'n': r['spec']['N'], 'retry': 'T', 'retres': 'T'}, 'obs': r['obs']})
        meta[rid] = {'scn': dict(_scn((1, 2, 3), r['spec']['N'], r['spec']['extra'], True, (4,) if r['spec']['poison'] else ()), real=r['spec']),
                     'h': r['trace'], 'cis': [], 'label': 'real %s workers seed %d kills %d' % (r['spec']['kind'], r['spec']['seed'], r['spec']['kills'])}

    # 3. TLC judges every real run
    fails, rj = tlc.judge('PoolJudge', records, name='judge')
    ev.add_tlc('judge: C07/C08 operators on %d real Pool.run executions' % len(records), rj, role='judge')
    byid = {}
    for rid, clause in fails:
        if clause.startswith(mine):
            byid.setdefault(rid, []).append(clause)
    recs = {r['id']: r for r in records}
    for rid, clauses in byid.items():
        m = meta[rid]
        obs = recs[rid]['obs']
        violations.append(Violation(prop, signature(prop, clauses, m['scn'], obs),
                                    'Pool.run (%s): %s fails: outcome %s, results %s, alive at end %s; environment schedule %s'
                                    % (m['label'], ','.join(clauses), obs['outcome'], obs['ret'], obs['alive'], m['h']),
                                    {'scn': m['scn'], 'h': m['h'], 'cis': m['cis'], 'rng': m.get('rng')}))
    ndrift = sum(1 for m in meta.values() if m.get('drift'))
    ev.cov['traces_validated_against_impl'] = len(records) - ndrift - sum(1 for r in real if not r['accepted'])
    ev.cov['evaluations'] = len(records)
    ev.cov['distinct_nontrivial'] = len(set((m['label'], json.dumps(m['h'])) for m in meta.values() if any(e[1] in ('kill', 'exit') for e in m['h'])))
    ev.cov['rule'] = ('each case = one complete environment schedule (worker steps, poison deaths, kills placed at the pool\'s call-ins) '
                      'enumerated by TLC from Pool.tla and replayed on the real Pool.run; non-trivial = the schedule contains at least one worker death')
    ev.cov['exhaustive'] = tier == 'thorough'
    ev.cov['replayed_paths'] = n_paths
    ev.cov['replay_deviations'] = ndrift
    for rid in list(meta)[:2] + list(meta)[-2:]:
        ev.sample({'config': meta[rid]['label'], 'env_schedule': meta[rid]['h'], 'obs': recs[rid]['obs']})
    ev.assumptions += ['workers are scripted objects with real multiprocessing pipes; connection.wait order = registration order, '
                       'idle-worker pick = smallest id (both as in CPython for small int ids)',
                       'environment moves only at the pool\'s call-ins (reduction validated in selftest)',
                       'inputs come from one iterator, optionally zipped with one per-worker callable source(worker) (gen in Pool.tla)']
    return finish(ev, violations, T.s(), drift)
