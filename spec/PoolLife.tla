------------------------------ MODULE PoolLife ------------------------------
(* Histories of pool API calls (pool.py): add_worker (ok / constructor fails / duplicate  *)
(* id), attach, run, restart_workers, external kill, a worker stuck in an uncooperative   *)
(* target, exception in the with-body, close, terminate.                                  *)
(*   _workers is a dict keyed by worker id: `reg` is a set of <<key, wid>> pairs.         *)
(*   add_worker's except branch pops *the id* of the failed worker (pool.py:113-117): on  *)
(*   a duplicate id that is the entry of the PREVIOUSLY registered worker.                *)
(*   add_worker / attach do not look at _pool_closed; _close returns at once on a closed  *)
(*   pool.  run re-initialises pending / depleted / ppw / retries but NOT _closed          *)
(*   (`closedIds`); restart_workers re-keys every worker under its new id.                *)
(*   _close: one thread per registered worker: close -> wait(timeout) -> terminate(       *)
(*   timeout, force) (CleanupWorker steps, any order), outcome per worker from the C04    *)
(*   model: idle worker ends; stuck process/remote worker is killed unless force=False;   *)
(*   a stuck thread worker cannot be stopped.                                             *)
(* run is abstracted to its pre/post on the bookkeeping (Pool.tla has the loop itself).   *)
(* Fix: "dupguard"    - the except branch only pops the entry if it is the failed worker  *)
(*      "closedguard" - add_worker / attach raise on a closed pool                        *)
(* What-if switches (must be rejected): ReuseKeys (restart keeps the id), NoReinit (run   *)
(* does not reset retries).                                                               *)
EXTENDS Naturals, Sequences, FiniteSets, TLC, PoolLifeProps

CONSTANTS Fix, MaxOps, MaxW, Kinds, Forces, ReuseKeys, NoReinit, Hist

VARIABLES force,      \* scenario: "none" | "false"
          ws,         \* workers ever created: sequence of [kind, os, stuck, key, owned]
          reg,        \* pool._workers: set of <<key, wid>>
          closedIds,  \* pool._closed (ids of workers that died during a run; never reset)
          retries,    \* inputs left in pool._retries: set of run numbers they belong to
          poolClosed, nextKey, nrun,
          restarted,  \* wids restarted since the previous run
          pc, todo, graceful,   \* _close in progress: workers still to clean up
          nops, steps, h
vars == <<force, ws, reg, closedIds, retries, poolClosed, nextKey, nrun, restarted, pc, todo, graceful, nops, steps, h>>

W == 1..Len(ws)
Keys == {kw[1] : kw \in reg}
RegW == {kw[2] : kw \in reg}
WidOf(k) == (CHOOSE kw \in reg : kw[1] = k)[2]
IsProc(w) == ws[w].kind # "thread"
Alive(w) == ws[w].os = "alive"
AliveOwned == Cardinality({w \in W : ws[w].owned /\ IsProc(w) /\ Alive(w)})
LiveUnreg  == Cardinality({w \in W : IsProc(w) /\ Alive(w) /\ w \notin RegW})

Init == /\ force \in Forces /\ ws = <<>> /\ reg = {} /\ closedIds = {} /\ retries = {} /\ poolClosed = FALSE
        /\ nextKey = 1 /\ nrun = 0 /\ restarted = {} /\ pc = "idle" /\ todo = {} /\ graceful = TRUE
        /\ nops = 0 /\ steps = <<>> /\ h = <<>>

Obs(op, outcome, closing, extra, dgw, rnw) ==
   [op |-> op, outcome |-> outcome, closing |-> closing, alive_owned |-> AliveOwned', live_unreg |-> LiveUnreg',
    extra |-> extra, dead_got_work |-> dgw, restarted_no_work |-> rnw]
Done(name, op, outcome, closing, extra, dgw, rnw) ==
   /\ nops' = nops + 1
   /\ steps' = IF Hist THEN Append(steps, Obs(op, outcome, closing, extra, dgw, rnw)) ELSE <<Obs(op, outcome, closing, extra, dgw, rnw)>>
   /\ h' = IF Hist THEN Append(h, name) ELSE h
Simple(name, op, outcome) == Done(name, op, outcome, "F", 0, 0, 0)
Idle == pc = "idle" /\ nops < MaxOps
NewW(kind, key, owned) == [kind |-> kind, os |-> "alive", stuck |-> FALSE, key |-> key, owned |-> owned]

AddOk(kind) ==
  /\ Idle /\ Len(ws) < MaxW
  /\ IF poolClosed /\ "closedguard" \in Fix
     THEN UNCHANGED <<ws, reg, nextKey>> /\ Simple("add:" \o kind, "add", "raised")
     ELSE /\ ws' = Append(ws, NewW(kind, nextKey, TRUE))
          /\ reg' = reg \cup {<<nextKey, Len(ws) + 1>>} /\ nextKey' = nextKey + 1
          /\ Simple("add:" \o kind, "add", "ok")
  /\ UNCHANGED <<force, closedIds, retries, poolClosed, nrun, restarted, pc, todo, graceful>>
AddFail ==                                  \* the constructor raises: nothing exists, nothing is registered
  /\ Idle
  /\ Simple("addfail", "addfail", "raised")
  /\ UNCHANGED <<force, ws, reg, closedIds, retries, poolClosed, nextKey, nrun, restarted, pc, todo, graceful>>
AddDup(o) ==                                \* the new worker's id collides with registered worker o
  /\ Idle /\ Len(ws) < MaxW /\ o \in RegW /\ ~poolClosed
  /\ ws' = Append(ws, [NewW(ws[o].kind, ws[o].key, FALSE) EXCEPT !.os = "dead"])        \* worker.terminate() in the except branch
  /\ reg' = IF "dupguard" \in Fix THEN reg ELSE {kw \in reg : kw[1] # ws[o].key}         \* pops *the id*: the original's entry
  /\ Simple("dup:" \o ToString(o), "dup", "raised")
  /\ UNCHANGED <<force, closedIds, retries, poolClosed, nextKey, nrun, restarted, pc, todo, graceful>>
Attach(kind) ==
  /\ Idle /\ Len(ws) < MaxW
  /\ IF poolClosed /\ "closedguard" \in Fix
     THEN UNCHANGED <<ws, reg, nextKey>> /\ Simple("attach:" \o kind, "attach", "raised")
     ELSE /\ ws' = Append(ws, NewW(kind, nextKey, TRUE))
          /\ reg' = reg \cup {<<nextKey, Len(ws) + 1>>} /\ nextKey' = nextKey + 1
          /\ Simple("attach:" \o kind, "attach", "ok")
  /\ UNCHANGED <<force, closedIds, retries, poolClosed, nrun, restarted, pc, todo, graceful>>

\* workers that run() would wait for forever: the harness never calls run then
Blocking == \E w \in RegW : Alive(w) /\ ws[w].stuck /\ ws[w].key \notin closedIds
Usable(w) == w \in RegW /\ ws[w].key \notin closedIds
Run(poison) ==
  /\ Idle /\ ~Blocking
  /\ LET name == IF poison THEN "runp" ELSE "run" IN
     IF poolClosed
     THEN /\ Done(name, name, "raised", "F", 0, 0, 0)
          /\ UNCHANGED <<ws, closedIds, retries, nrun, restarted>>
     ELSE IF {w \in W : Usable(w)} = {}
     THEN /\ Done(name, name, "ok", "F", 0, 0, 0)           \* "no workers": returns None before touching the bookkeeping
          /\ UNCHANGED <<ws, closedIds, retries, nrun, restarted>>
     ELSE LET got    == {w \in W : Usable(w) /\ Alive(w)}          \* workers that are handed inputs
              deadw  == {w \in W : Usable(w) /\ ~Alive(w)}         \* found dead at the first enqueue
              stale  == IF NoReinit THEN retries ELSE {}            \* run re-initialises _retries (pool.py:242)
              rnw    == Cardinality({w \in restarted : w \in RegW /\ Alive(w) /\ w \notin got})
          IN /\ nrun' = nrun + 1
             /\ closedIds' = closedIds \cup {ws[w].key : w \in deadw} \cup (IF poison THEN {ws[w].key : w \in got} ELSE {})
             /\ ws' = IF poison THEN [w \in W |-> IF w \in got THEN [ws[w] EXCEPT !.os = "dead"] ELSE ws[w]] ELSE ws
             /\ retries' = IF poison /\ got # {} THEN stale \cup {nrun + 1} ELSE (IF got = {} THEN stale ELSE {})
             /\ restarted' = {}
             /\ Done(name, name, IF poison \/ got = {} THEN "raised" ELSE "ok", "F", Cardinality(stale), 0, rnw)
  /\ UNCHANGED <<force, reg, poolClosed, nextKey, pc, todo, graceful>>

\* restart_workers: every registered worker, in dict order; a stuck thread worker cannot be stopped -> RuntimeError, the rest is skipped
RECURSIVE RestartAll(_, _, _, _)
RestartAll(ks, wsx, regx, nk) ==
  IF ks = <<>> THEN [ws |-> wsx, reg |-> regx, nk |-> nk, ok |-> TRUE, done |-> {}]
  ELSE LET k == Head(ks)
           w == (CHOOSE kw \in regx : kw[1] = k)[2] IN
       IF wsx[w].kind = "thread" /\ wsx[w].stuck /\ wsx[w].os = "alive"
       THEN [ws |-> wsx, reg |-> regx, nk |-> nk, ok |-> FALSE, done |-> {}]
       ELSE LET newk == IF ReuseKeys THEN k ELSE nk
                r == RestartAll(Tail(ks), [wsx EXCEPT ![w] = [@ EXCEPT !.os = "alive", !.stuck = FALSE, !.key = newk]],
                                (regx \ {<<k, w>>}) \cup {<<newk, w>>}, nk + 1)
            IN [r EXCEPT !.done = @ \cup {w}]
RECURSIVE SortedKeys(_)
SortedKeys(S) == IF S = {} THEN <<>> ELSE LET m == CHOOSE x \in S : \A y \in S : x <= y IN <<m>> \o SortedKeys(S \ {m})
Restart ==
  /\ Idle
  /\ IF poolClosed THEN UNCHANGED <<ws, reg, nextKey, restarted>> /\ Simple("restart", "restart", "raised")
     ELSE LET r == RestartAll(SortedKeys(Keys), ws, reg, nextKey) IN
          /\ ws' = r.ws /\ reg' = r.reg /\ nextKey' = r.nk /\ restarted' = restarted \cup r.done
          /\ Simple("restart", "restart", IF r.ok THEN "ok" ELSE "raised")
  /\ UNCHANGED <<force, closedIds, retries, poolClosed, nrun, pc, todo, graceful>>

Kill(w) ==
  /\ Idle /\ w \in W /\ IsProc(w) /\ Alive(w) /\ ws[w].owned
  /\ ws' = [ws EXCEPT ![w].os = "dead"]
  /\ Simple("kill:" \o ToString(w), "kill", "ok")
  /\ UNCHANGED <<force, reg, closedIds, retries, poolClosed, nextKey, nrun, restarted, pc, todo, graceful>>
Stick(w) ==
  /\ Idle /\ w \in RegW /\ Alive(w) /\ ~ws[w].stuck /\ ~poolClosed
  /\ ws' = [ws EXCEPT ![w].stuck = TRUE]
  /\ Simple("stick:" \o ToString(w), "stick", "ok")
  /\ UNCHANGED <<force, reg, closedIds, retries, poolClosed, nextKey, nrun, restarted, pc, todo, graceful>>

\* close / terminate / exception in the with-body
CloseBegin(name) ==
  /\ Idle
  /\ IF poolClosed
     THEN /\ Done(name, name, "ok", "T", 0, 0, 0) /\ UNCHANGED <<pc, todo, graceful, h>>       \* _close returns at once
     ELSE /\ pc' = "closing" /\ todo' = RegW /\ graceful' = (name = "close")
          /\ h' = IF Hist THEN Append(h, name) ELSE h
          /\ UNCHANGED <<nops, steps>>
  /\ UNCHANGED <<force, ws, reg, closedIds, retries, poolClosed, nextKey, nrun, restarted>>
CleanupWorker(w) ==                         \* one thread per worker: close -> wait(timeout) -> terminate(timeout, force)
  /\ pc = "closing" /\ w \in todo
  /\ todo' = todo \ {w}
  /\ ws' = [ws EXCEPT ![w].os = IF ~Alive(w) THEN "dead"
                                ELSE IF ~ws[w].stuck THEN "dead"                              \* closes down on its own
                                ELSE IF ws[w].kind = "thread" THEN "alive"                      \* never forced
                                ELSE IF force = "false" THEN "alive"                            \* no terminate / terminate(force=False)
                                ELSE "dead"]                                                    \* terminate(timeout) with the kind's default force=True
  /\ UNCHANGED <<force, reg, closedIds, retries, poolClosed, nextKey, nrun, restarted, pc, graceful, nops, steps, h>>
CloseEnd ==
  /\ pc = "closing" /\ todo = {}
  /\ pc' = "idle" /\ poolClosed' = TRUE
  /\ nops' = nops + 1
  /\ LET nm == IF graceful THEN "close" ELSE "terminate" IN
     steps' = IF Hist THEN Append(steps, Obs(nm, "ok", "T", 0, 0, 0)) ELSE <<Obs(nm, "ok", "T", 0, 0, 0)>>
  /\ UNCHANGED <<force, ws, reg, closedIds, retries, nextKey, nrun, restarted, todo, graceful, h>>

Next == \/ \E k \in Kinds : AddOk(k) \/ Attach(k)
        \/ AddFail \/ (\E o \in W : AddDup(o) \/ Kill(o) \/ Stick(o))
        \/ Run(FALSE) \/ Run(TRUE) \/ Restart
        \/ CloseBegin("close") \/ CloseBegin("terminate") \/ CloseBegin("exc")
        \/ (\E w \in W : CleanupWorker(w)) \/ CloseEnd
Spec == Init /\ [][Next]_vars

R0 == [scn |-> [force |-> force], obs |-> [steps |-> steps]]
AtRest == pc = "idle"
TypeOK == /\ \A kw \in reg : kw[2] \in W
          /\ \A k \in Keys : Cardinality({kw \in reg : kw[1] = k}) = 1
          /\ nops <= MaxOps
Inv_AllDead          == AtRest => C09_AllDead(R0)
Inv_RunIsolated      == AtRest => C09_RunIsolated(R0)
Inv_NoWorkToDead     == AtRest => C09_NoWorkToDead(R0)
Inv_RestartedGetWork == AtRest => C09_RestartedGetWork(R0)
Inv_NoLeak           == AtRest => C09_NoLeak(R0)

\* ---- witnesses (expected violated) ----
W_ClosedWithStuck == ~(poolClosed /\ \E w \in W : ws[w].stuck /\ IsProc(w) /\ w \in RegW)
W_RestartAfterDeath == ~(restarted # {} /\ closedIds # {} /\ nrun >= 1)
W_DupRaised == ~(steps # <<>> /\ steps[Len(steps)].op = "dup")
W_RunAfterPoison == ~(nrun >= 2 /\ closedIds # {} /\ steps # <<>> /\ steps[Len(steps)].op = "run" /\ steps[Len(steps)].outcome = "ok")
W_ForceFalseSurvivor == ~(poolClosed /\ force = "false" /\ AliveOwned > 0)

\* ---- complete histories for replay (Hist = TRUE) ----
RECURSIVE Join(_, _)
Join(s, k) == IF k > Len(s) THEN "" ELSE s[k] \o (IF k < Len(s) THEN " " ELSE "") \o Join(s, k + 1)
RECURSIVE Outs(_, _)
Outs(s, k) == IF k > Len(s) THEN "" ELSE s[k].outcome \o (IF k < Len(s) THEN " " ELSE "") \o Outs(s, k + 1)
PathDump == (AtRest /\ nops = MaxOps) => PrintT(<<"PATH", force, Join(h, 1), Outs(steps, 1)>>)
=============================================================================
