"""C04 - wait/terminate are bounded, truthful, idempotent, even on unresponsive children.

spec/Lifecycle.tla models wait/terminate/is_alive/close of the three worker kinds step by
step (every blocking primitive with or without a Timeout alternative, exactly as in the
code) against a child that cooperates, swallows exceptions, sits in a system call, holds
the interpreter lock in C, waits for input, or is SIGSTOPped.  TLC checks the C04
operators over all histories (liveness under fairness), rejects the three pre-fix
variants, and enumerates every outcome of the planned histories; each planned history is
replayed on REAL workers (one host process per case), every real execution is judged by
TLC (LifecycleJudge) with the same operators against OS ground truth, and compared with
the model's outcomes (conformance)."""
import itertools
import json
import os
import random
import re
import signal
import subprocess
import sys
import tempfile
import threading
import time
from concurrent.futures import ThreadPoolExecutor

CHECKS = {
    'C04': dict(
        engine='Lifecycle',
        technique='TLA+ spec Lifecycle.tla (parent procedures wait/terminate/is_alive/close of thread, process and remote workers step by step; child OS states running/frozen/stopped; control threads; server-side control thread; frontend thread) model-checked with TLC: liveness "every call returns" under weak fairness, safety Truthful/DeadFast/Force/Stable, pre-fix variants rejected; TLC enumerates all outcomes of planned histories; each history replayed on real workers with real SIGSTOP / GIL-holding C call / exception-swallowing targets; TLC judges every real execution (LifecycleJudge) against /proc ground truth; model outcomes vs real outcomes = conformance',
        text='Exhaustive TLC model checking (all call histories up to 2 (quick; 3 for the process kind) / 4 (thorough) over 38 scenarios (incl. a child that has reported its result while its process lingers): kind x persistent x target behaviour x start state, with SIGSTOP at any point), bound to the code by replaying planned histories on real thread/process/remote workers and judging each real execution with the same TLA+ operators.',
        note='Trusted: TLC; the timing abstraction (a small timeout expires only when no other party can step; timeout 0 may expire at once); /proc as ground truth for child liveness; durations classed against generous bounds (3*timeout+2 s; "at once" = under 0.3 s, re-measured before alarming). Server process itself is assumed responsive. Replay covers a seeded sample of histories of length 3-4 (all of length <= 2 in the thorough tier).',
        design_ref='6/C04'),
}

T_SMALL = 0.4        # the "small" timeout of the property's quantifier
T_LONG = 11.0        # a long timeout: longer than any deadline hidden in the machinery (e.g. a 10 s socket timeout)
FAST = 0.3           # "at once": below the small timeout
GRACE = 1.0          # signal-delivery grace for os_grace
SETTLE = 0.25        # paced replays: let a dying child die before the next call
WNAME = 'lifeW'
OPS_ALL = ['wait0', 'waitT', 'term0', 'termT', 'term0F', 'termTF', 'alive', 'close']
OPS_THREAD = ['wait0', 'waitT', 'term0', 'termT', 'alive', 'close']
OPS_NOTERM = ['wait0', 'waitT', 'alive', 'close']
WT_OPS = ('wait0', 'waitT', 'waitL', 'term0', 'termT', 'term0F', 'termTF')


def _op_timeout(op):
    return 0.0 if op in ('wait0', 'term0', 'term0F') else T_LONG if op == 'waitL' else T_SMALL


# ======================================================================================
# host side: one real worker, one history (runs in its own process: a remote worker's
# terminate(force=True) may SIGTERM the calling process, and children are cleaned up by
# killing the host's session)
# ======================================================================================
def _pstate(pid):
    try:
        with open('/proc/%d/stat' % pid) as f:
            s = f.read()
        return s[s.rindex(')') + 2]
    except (OSError, ValueError):
        return 'X'


def _proc_dead(pid):
    """OS ground truth: the process is gone, or a zombie whose threads are all gone (a zombie
    group leader with live sibling threads is still dying and not yet waitable)"""
    st = _pstate(pid)
    if st in 'Xx':
        return True
    if st != 'Z':
        return False
    try:
        return len(os.listdir('/proc/%d/task' % pid)) <= 1
    except OSError:
        return True


def _thread_named(name):
    return any(t.name == name and t.is_alive() for t in threading.enumerate())


def host_main(case_path, out_path):
    with open(case_path) as f:
        case = json.load(f)
    repo = os.environ.get('VERIF_REPO', '/repo')
    verif = os.path.dirname(os.path.dirname(os.path.dirname(os.path.abspath(__file__))))
    for p_ in (verif, repo):
        if p_ not in sys.path:
            sys.path.insert(0, p_)
    os.environ['PYTHONPATH'] = os.pathsep.join([repo, verif])
    import logging
    logging.disable(logging.CRITICAL)
    threading.excepthook = lambda a: None          # a frontend thread dying on a closed socket is expected noise
    sigs = []
    signal.signal(signal.SIGTERM, lambda *a: sigs.append(time.monotonic()))
    from vf.drivers import _life_targets as TG
    res = {'id': case['id'], 'error': None}
    srv = None
    child_pid = None
    try:
        kind, pers, beh, start = case['kind'], case['pers'] == 'T', case['beh'], case['start']
        flag = os.path.join(tempfile.mkdtemp(prefix='life-', dir=os.path.dirname(out_path)), 'flag')
        kw = {'name': WNAME}
        if kind == 'remote':
            from pyworkers.remote_server import spawn_server
            srv = spawn_server(('127.0.0.1', 0))
            if not srv.is_alive():
                raise RuntimeError('could not start a remote server: %r' % (srv.error,))
            kw['host'] = srv.addr
        if pers:
            mod = __import__('pyworkers.persistent_' + kind, fromlist=['x'])
            cls = getattr(mod, 'Persistent' + kind.capitalize() + 'Worker')
        else:
            mod = __import__('pyworkers.' + kind, fromlist=['x'])
            cls = getattr(mod, kind.capitalize() + 'Worker')
        one_shot = {'coop': TG.coop_loop, 'swallow': TG.swallow_loop, 'sleep': TG.sleep_block, 'frozen': TG.frozen_c,
                    'linger': TG.linger_ret, 'unreb': TG.unreb_raise}
        if start == 'notrun':
            w = cls(target=None, **kw)
        elif pers and beh == 'slowres':
            # the child answers at once and is idle again; the frontend thread in THIS process is busy rebuilding the result
            w = cls(target=TG.slow_result_target, **kw)
            w.enqueue(flag)
        elif pers:
            w = cls(target=TG.pers_target, **kw)
            if start == 'run' and beh != 'idle':
                w.enqueue(beh, flag)
        elif start == 'dead':
            w = cls(target=TG.quick_ret, **kw)
        else:
            w = cls(target=one_shot[beh], args=[flag], **kw)
        child_pid = w.pid if (kind != 'thread' and start != 'notrun') else None

        def child_dead():
            if start == 'notrun':
                return True
            if kind == 'thread':
                return not _thread_named(WNAME)
            return _proc_dead(child_pid)

        def worker_gone():
            return child_dead() and not (kind == 'remote' and _thread_named(WNAME + ' (remote front)'))

        def await_(cond, bound, what):
            t0 = time.monotonic()
            while not cond():
                if time.monotonic() - t0 > bound:
                    raise RuntimeError('harness: timed out waiting for ' + what)
                time.sleep(0.003)

        if start == 'run' and not (pers and beh == 'idle'):
            await_(lambda: os.path.exists(flag), 20, 'the target to reach its position')
            if beh == 'linger':
                time.sleep(0.2)       # the child reports its result and closes its pipes; the process lives on
            if beh in ('frozen', 'sleep'):
                time.sleep(0.1)       # the mark is written just before the blocking call: let the child enter it
        elif start == 'run':
            time.sleep(0.15)          # idle persistent child: let it reach its input wait
        elif start == 'dead':
            if pers and kind != 'thread':
                os.kill(child_pid, signal.SIGKILL)
            await_(worker_gone, 20, 'the worker to be dead before the history starts')
            time.sleep(0.05)

        death = {}

        def monitor():
            while 't' not in death:
                if child_dead():
                    death['t'] = time.monotonic()
                    return
                time.sleep(0.003)
        if start != 'notrun':
            threading.Thread(target=monitor, daemon=True, name='lifemon').start()
        else:
            death['t'] = time.monotonic()

        def api(op):
            t = _op_timeout(op)
            return {'wait0': lambda: w.wait(0), 'waitT': lambda: w.wait(t), 'waitL': lambda: w.wait(t),
                    'term0': lambda: w.terminate(timeout=0, force=False), 'termT': lambda: w.terminate(timeout=t, force=False),
                    'term0F': lambda: w.terminate(timeout=0, force=True), 'termTF': lambda: w.terminate(timeout=t, force=True),
                    'alive': lambda: w.is_alive(), 'close': lambda: w.close()}[op]

        def run_call(op):
            box = {}
            fn = api(op)

            def body():
                t0 = time.monotonic()
                try:
                    box['ret'] = fn()
                except BaseException as e:  # noqa
                    box['exc'] = type(e).__name__
                box['t_ret'] = time.monotonic()
                box['dur'] = box['t_ret'] - t0
            th = threading.Thread(target=body, daemon=True, name='lifecall')
            th.start()
            th.join(_op_timeout(op) * 3 + 5)
            return None if th.is_alive() else box

        def gone_stable():
            # "dead before the call" is claimed only when the OS has shown the child dead for 50 ms (exit of a
            # multi-threaded process is not atomic) and no worker thread is left
            return 't' in death and time.monotonic() - death['t'] > 0.05 and worker_gone()

        calls, stopped, hung = [], False, False
        paced = case.get('pace', 'paced') == 'paced'
        for op in case['ops']:
            if op == 'stop':
                if child_pid is not None and not child_dead() and not stopped:
                    os.kill(child_pid, signal.SIGSTOP)
                    await_(lambda: _pstate(child_pid) in 'TtXZ', 10, "state 'T' after SIGSTOP")
                    stopped = True
                continue
            if kind == 'thread' and op in ('term0F', 'termTF'):
                raise RuntimeError('harness: force-terminate of a thread worker is never replayed')
            pre = 'dead' if gone_stable() else 'alive'
            nsig = len(sigs)
            box = run_call(op)
            rec = {'op': op, 'pre': pre, 'stopped': 'T' if stopped else 'F',
                   'after_true': 'T' if any(c_['op'] in WT_OPS and c_['ret'] == 'T' for c_ in calls) else 'F'}
            if box is None:
                rec.update(ret='hung', durc='hung', fast='F', dur=-1.0, thr_ret='alive',
                           os_ret='dead' if child_dead() else 'alive', selfsig='T' if len(sigs) > nsig else 'F')
                rec['os_grace'] = rec['os_ret']
                calls.append(rec)
                hung = True
                break
            dead_now = child_dead()
            thr_now = (kind == 'remote' and start != 'notrun' and _thread_named(WNAME + ' (remote front)')) or \
                      (kind == 'thread' and start != 'notrun' and _thread_named(WNAME))
            dur = box['dur']
            if pre == 'dead' and dur >= FAST and 'exc' not in box:
                for _ in range(2):      # a dead worker must answer at once ANY number of times: re-measure before believing a stall
                    b2 = run_call(op)
                    if b2 is None:
                        break
                    dur = min(dur, b2['dur'])
            t = _op_timeout(op)
            r = box.get('ret')
            rec.update(ret=('raised:' + box['exc']) if 'exc' in box else ('T' if r is True else 'F' if r is False else 'none' if r is None else 'other:' + type(r).__name__),
                       durc='ok' if box['dur'] <= 3 * t + 2 else 'over', fast='T' if dur < FAST else 'F', dur=round(box['dur'], 3),
                       os_ret='dead' if dead_now else 'alive', selfsig='T' if len(sigs) > nsig else 'F', t_ret=box['t_ret'],
                       thr_ret='alive' if thr_now else 'gone')
            calls.append(rec)
            if case.get('pace') == 'gap':
                time.sleep(0.004)          # a few ms: the child dies, the frontend thread is still winding down
            if paced:
                lim = GRACE if (op in ('term0F', 'termTF') and not dead_now) else SETTLE
                t0 = time.monotonic()
                while time.monotonic() - t0 < lim and not gone_stable():
                    time.sleep(0.003)
                rec['os_grace'] = 'dead' if child_dead() else 'alive'
        if not paced and not hung:
            t0 = time.monotonic()
            while time.monotonic() - t0 < GRACE and not child_dead():
                time.sleep(0.003)
        if child_dead():
            death.setdefault('t', time.monotonic())
        for rec in calls:
            if 'os_grace' not in rec:
                rec['os_grace'] = 'dead' if ('t' in death and death['t'] <= rec.get('t_ret', 0) + GRACE) else 'alive'
            rec.pop('t_ret', None)
        res['calls'] = calls
        res['nsig'] = len(sigs)
    except BaseException as e:  # noqa
        import traceback
        res['error'] = '%s: %s\n%s' % (type(e).__name__, e, traceback.format_exc()[-1500:])
    finally:
        try:
            if child_pid:
                os.kill(child_pid, signal.SIGKILL)
        except OSError:
            pass
        try:
            if srv is not None:
                os.kill(srv.pid, signal.SIGKILL)
        except OSError:
            pass
        with open(out_path, 'w') as f:
            json.dump(res, f)
        sys.stdout.flush()
        os._exit(0)


# ======================================================================================
# driver side
# ======================================================================================
def _valid(kind, pers, beh, start):
    if kind == 'thread' and beh == 'frozen':
        return False
    if beh == 'linger' and (kind == 'thread' or (pers != 'F' and kind != 'process')):
        return False
    if beh == 'slowres' and (kind != 'remote' or pers != 'T'):
        return False
    if beh == 'unreb' and pers != 'F':
        return False
    if beh == 'idle' and pers != 'T':
        return False
    if start != 'run' and beh != 'coop':
        return False
    if start == 'dead' and kind == 'thread' and pers == 'T':
        return False
    return True


def scenarios():
    out = []
    for kind in ('thread', 'process', 'remote'):
        for pers in ('F', 'T'):
            for beh in ('coop', 'swallow', 'sleep', 'frozen', 'idle', 'linger', 'slowres', 'unreb'):
                for start in ('run', 'dead', 'notrun'):
                    if _valid(kind, pers, beh, start):
                        out.append(dict(kind=kind, pers=pers, beh=beh, start=start))
    return out


def gen_cases(tier, rng):
    cases, seen = [], set()

    def add(scn, ops, pace='paced'):
        key = (scn['kind'], scn['pers'], scn['beh'], scn['start'], tuple(ops), pace)
        if key in seen:
            return
        seen.add(key)
        cases.append(dict(scn, ops=list(ops), pace=pace, id='c%d' % len(cases)))

    for scn in scenarios():
        kind = scn['kind']
        alpha = OPS_THREAD if kind == 'thread' else OPS_ALL
        # random draws never make a (pre-fix) hanging case: those are added deliberately below
        hang_prone = kind == 'process' and scn['beh'] == 'frozen'
        ralpha = OPS_NOTERM if hang_prone else alpha
        if scn['start'] == 'run':
            if not hang_prone:
                add(scn, ['waitT', 'termT', 'termT' if kind == 'thread' else 'termTF', 'wait0'])
            if tier == 'thorough':
                for n in (1, 2):
                    for ops in itertools.product(alpha, repeat=n):
                        add(scn, ops)
            for n in ([4, 3] if tier == 'quick' else [4, 4, 4, 4, 3, 3, 3, 3]):
                add(scn, [rng.choice(ralpha) for _ in range(n)])
        else:
            for n in ([4, 4] if tier == 'quick' else [4, 4, 4, 4, 3, 3, 2, 1]):
                add(scn, [rng.choice(alpha) for _ in range(n)])
    S = lambda kind, beh, pers='F': dict(kind=kind, pers=pers, beh=beh, start='run')  # noqa
    # SIGSTOP: without terminate (never hangs), with terminate (process: control-pipe get()), after the control thread closed
    for kind in ('process', 'remote'):
        add(S(kind, 'coop'), ['stop', 'waitT', 'alive', 'wait0'])
        add(S(kind, 'coop'), ['stop', 'termTF'] + ([] if kind == 'process' else ['termTF', 'alive']))
        add(S(kind, 'swallow'), ['term0', 'stop', 'termTF', 'alive'])
        add(S(kind, 'swallow'), ['termT', 'stop', 'term0F', 'wait0'])
        add(S(kind, 'sleep'), ['stop', 'term0F', 'waitT'])
        add(S(kind, 'frozen'), ['termTF', 'wait0', 'termT'])
        add(S(kind, 'frozen'), ['waitT', 'term0F', 'alive', 'termTF'])
    # the child has reported its result but the process lingers (a non-daemon thread left behind by the target)
    for kind in ('process', 'remote'):
        add(S(kind, 'linger'), ['waitT', 'alive', 'termTF', 'wait0'])
        add(S(kind, 'linger'), ['wait0', 'waitT', 'termT', 'termTF'])
        add(S(kind, 'linger'), ['alive', 'waitT', 'term0F', 'alive'])
        add(S(kind, 'linger'), ['waitT', 'stop', 'termTF', 'alive'])
    # persistent process worker whose item leaves a thread behind and fails: do_work ends, the child has closed its end of the
    # arguments pipe (close()/_release_child write to a pipe nobody reads) while the process lives on
    add(S('process', 'linger', 'T'), ['waitT', 'alive', 'termTF', 'wait0'])
    add(S('process', 'linger', 'T'), ['wait0', 'termT', 'alive', 'termTF'])
    add(S('process', 'linger', 'T'), ['term0F', 'waitT', 'termTF', 'alive'])
    # the target ends by itself with an outcome that cannot be rebuilt on the parent side, while wait() is receiving it
    for kind in ('thread', 'process', 'remote'):
        add(S(kind, 'unreb'), ['waitT', 'wait0', 'termT', 'alive'])
        add(S(kind, 'unreb'), ['waitT', 'termT' if kind == 'thread' else 'termTF', 'wait0', 'waitT'])
    # a gentle terminate that fails, then questions about the (live) worker
    for kind in ('thread', 'process', 'remote'):
        for beh in ('swallow', 'sleep'):
            add(S(kind, beh), ['termT', 'alive', 'wait0', 'termT'])
            add(S(kind, beh), ['term0', 'wait0', 'alive', 'waitT'])
    # a wait that lasts longer than any deadline hidden in the machinery, on a busy remote worker
    add(S('remote', 'sleep'), ['waitL', 'termTF', 'alive'])
    if tier == 'thorough':
        add(S('remote', 'swallow'), ['waitL', 'termT', 'termTF', 'wait0'])
        add(S('remote', 'swallow', 'T'), ['waitL', 'alive', 'termTF'])
        add(S('process', 'sleep'), ['waitL', 'termTF', 'alive'])
    # the remote child is idle, the frontend thread is busy with a slow result: the worker is not dead when the child is
    add(S('remote', 'slowres', 'T'), ['termT', 'termT', 'alive', 'wait0'])
    add(S('remote', 'slowres', 'T'), ['termTF', 'termTF', 'wait0', 'alive'])
    add(S('remote', 'slowres', 'T'), ['waitT', 'waitT', 'alive', 'termT'])
    add(S('remote', 'slowres', 'T'), ['term0', 'term0', 'term0', 'alive'])
    add(S('process', 'idle', 'T'), ['stop', 'termT'])
    add(S('remote', 'idle', 'T'), ['close', 'stop', 'termTF', 'alive'])
    # back-to-back calls (no pause between them)
    for kind in ('process', 'remote'):
        for beh in ('coop', 'swallow'):
            add(S(kind, beh), ['term0F', 'term0F', 'term0F', 'wait0'], 'b2b')
            add(S(kind, beh), ['term0', 'term0F', 'wait0', 'term0F'], 'b2b')
    # calls a few milliseconds apart: the remote child has died, the frontend thread is still winding down
    for beh in ('coop', 'swallow'):
        for ops in (['term0F', 'term0F', 'term0F', 'wait0'], ['term0F', 'term0F', 'wait0', 'term0F'],
                    ['term0F', 'term0', 'term0F', 'term0F'], ['term0', 'term0F', 'term0F', 'term0F']):
            add(S('remote', beh), ops, 'gap')
            if tier == 'thorough':
                add(S('process', beh), ops, 'gap')
                add(S('remote', beh, 'T'), ops, 'gap')
    if tier == 'thorough':
        for kind in ('process', 'remote'):
            for beh in ('coop', 'swallow'):
                for n in (1, 2):
                    for ops in itertools.product(OPS_ALL, repeat=n):
                        add(S(kind, beh), ['stop'] + list(ops))
                for ops in itertools.product(['term0', 'termT'], OPS_ALL):
                    add(S(kind, beh), [ops[0], 'stop', ops[1], 'alive'])
            for _ in range(12):
                ops = [rng.choice(OPS_ALL) for _ in range(4)]
                add(S(kind, rng.choice(['coop', 'swallow'])), ops, 'b2b')
    return cases


def _mc_cfg(**kw):
    from vf import tlc
    base = open(os.path.join(tlc.SPEC, 'Lifecycle_mc.cfg')).read()
    for a, b in kw.items():
        base = re.sub(r'(?m)^(\s*%s\s*(=|<-)\s*).*$' % a, lambda m: m.group(1) + b, base)
    return base


def _run_hosts(cases, scratch, par=12):
    from vf.common import PY, REPO, VERIF, MachineryError
    env = dict(os.environ)
    env['PYTHONPATH'] = os.pathsep.join([REPO, VERIF])
    env['VERIF_REPO'] = REPO

    def one(case):
        cp = os.path.join(scratch, case['id'] + '.case.json')
        op = os.path.join(scratch, case['id'] + '.out.json')
        with open(cp, 'w') as f:
            json.dump(case, f)
        bound = 40 + sum(_op_timeout(o) * 3 + 5 for o in case['ops'] if o != 'stop')
        p = subprocess.Popen([PY, '-m', 'vf.drivers.lifecycle', '--host', cp, op], cwd=VERIF, env=env,
                             stdout=subprocess.DEVNULL, stderr=subprocess.DEVNULL, start_new_session=True)
        try:
            p.wait(bound)
        except subprocess.TimeoutExpired:
            pass
        try:
            os.killpg(p.pid, signal.SIGKILL)       # the host's session: the host, its children, a server and its backends
        except OSError:
            pass
        p.wait()
        try:
            with open(op) as f:
                return json.load(f)
        except (OSError, ValueError):
            return {'id': case['id'], 'error': 'host produced no result'}
    with ThreadPoolExecutor(max_workers=par) as ex:
        outs = list(ex.map(one, cases))
    bad = [o for o in outs if o.get('error')]
    if len(bad) > max(2, len(cases) // 20):
        raise MachineryError('%d of %d replay hosts failed, first: %s' % (len(bad), len(cases), bad[0]['error']))
    return outs


def _record(case, out):
    calls = []
    for c in out['calls']:
        calls.append({k: c[k] for k in ('op', 'ret', 'durc', 'fast', 'pre', 'os_ret', 'os_grace', 'selfsig', 'after_true', 'thr_ret')})
    return {'id': case['id'], 'scn': {k: case[k] for k in ('kind', 'pers', 'beh', 'start', 'ops', 'pace')},
            'obs': {'calls': calls}}


def _outcome(out):
    parts = []
    for c in out['calls']:
        if c['selfsig'] == 'T':
            parts.append('selfkill')
            break
        parts.append(c['ret'])
    return ','.join(parts)


def run(prop, tier, replay=None):
    assert prop == 'C04'
    from vf import tlc
    from vf.common import MachineryError, Timer, seed, sub_scratch
    from vf.report import Evidence, Violation, finish
    T = Timer()
    ev = Evidence(prop, tier)
    rng = random.Random(seed())
    scratch = sub_scratch('life')
    violations, drift = [], []

    if replay is not None:
        case = dict(replay['replay'], id='replay')
        out = _run_hosts([case], scratch, par=1)[0]
        if out.get('error'):
            raise MachineryError('replay host failed: ' + out['error'])
        rec = _record(case, out)
        fails, _ = tlc.judge('LifecycleJudge', [rec], name='replay')
        print('replayed:', json.dumps(rec))
        for _, clause in fails:
            print('VIOLATION property=C04 replay=(given) clause=%s' % clause)
        return 1 if fails else 0

    cases = gen_cases(tier, rng)
    cf = os.path.join(scratch, 'cases.json')
    with open(cf, 'w') as f:
        json.dump([{k: c[k] for k in ('id', 'kind', 'pers', 'beh', 'start', 'ops')} for c in cases], f)

    # ---- 1. TLC: the design (fixed algorithm) over all histories; pre-fix variants must be rejected; witnesses ----
    jobs = {}
    if tier == 'quick':
        jobs['mc_live'] = dict(cfg=_mc_cfg(MaxOps='2'), workers=8, label='exhaustive, histories <= 2, liveness + safety, all fixes applied')
        jobs['mc_safe'] = dict(cfg=_mc_cfg(MaxOps='3', Cases='FreeProcess').replace('PROPERTY Live_Returns', ''), workers=6, label='exhaustive, histories <= 3, safety, process kind, all fixes applied')
    else:
        jobs['mc_live'] = dict(cfg=_mc_cfg(MaxOps='4'), workers=16, label='exhaustive, histories <= 4, liveness + safety, all fixes applied')
    for nm, fx, sub in (('pre_all', 'FixNone', 'FreeProcess'), ('pre_poll', 'FixNoPoll', 'FreeProcess'), ('pre_kill', 'FixNoKill', 'FreeRemote'),
                        ('pre_self', 'FixNoSelf', 'FreeRemote')):
        jobs[nm] = dict(cfg=_mc_cfg(MaxOps='2', Fix=fx, Cases=sub), workers=2, label='pre-fix variant %s on %s (must be rejected)' % (fx, sub), expect_error=True)
    jobs['whatif_cachedeadonfalse'] = dict(cfg=_mc_cfg(MaxOps='2', CacheDeadOnFalse='TRUE', Cases='FreeRemote').replace('PROPERTY Live_Returns', ''), workers=2, expect_error=True,
                                           label='what-if: RemoteWorker.terminate caches _dead when it answers False (must be rejected)')
    jobs['whatif_rebuildraises'] = dict(cfg=_mc_cfg(MaxOps='2', RebuildRaises='TRUE', Cases='FreeProcess').replace('PROPERTY Live_Returns', ''), workers=2, expect_error=True,
                                        label='what-if: ProcessWorker.wait lets the error of rebuilding the final message escape (must be rejected)')
    jobs['whatif_stalealive'] = dict(cfg=_mc_cfg(MaxOps='2', StaleAliveAfterKill='TRUE', Cases='FreeProcess').replace('PROPERTY Live_Returns', ''), workers=2, expect_error=True,
                                     label='what-if: ProcessWorker.terminate does not re-read liveness after kill()+join() (must be rejected)')
    jobs['whatif_hiddendeadline'] = dict(cfg=_mc_cfg(MaxOps='2', HiddenDeadline='TRUE', Cases='FreeRemote').replace('PROPERTY Live_Returns', ''), workers=2, expect_error=True,
                                         label='what-if: the control socket keeps a 10 s timeout from the handshake (must be rejected)')
    jobs['whatif_remdeadmeansdead'] = dict(cfg=_mc_cfg(MaxOps='3', RemDeadMeansDead='TRUE', Cases='FreeRemote').replace('PROPERTY Live_Returns', ''), workers=2, expect_error=True,
                                           label='what-if: RemoteWorker.terminate answers True once the remote child is known to be gone (must be rejected)')
    jobs['whatif_reportmeansdead'] = dict(cfg=_mc_cfg(MaxOps='2', ReportMeansDead='TRUE', Cases='FreeProcess'), workers=2, expect_error=True,
                                          label='what-if: wait() takes the arrival of the final message for the death of the child (must be rejected)')
    for wn in ('W_TrueAnswer', 'W_DeadCall', 'W_ForceStopped', 'W_ForceFrozen', 'W_Swallowed'):
        jobs[wn] = dict(cfg=_mc_cfg(MaxOps='2').replace('PROPERTY Live_Returns', 'INVARIANT ' + wn), workers=2, label='witness ' + wn, expect_error=True)
    plan = open(os.path.join(tlc.SPEC, 'Lifecycle_plan.cfg')).read()
    jobs['plan_pre'] = dict(cfg=plan, workers=4, label='all outcomes of the %d planned histories, code as it is (Fix = {})' % len(cases), env={'CASE_FILE': cf})
    jobs['plan_fix'] = dict(cfg=plan.replace('FixNone', 'FixAll'), workers=4, label='all outcomes of the planned histories, fixed algorithm', env={'CASE_FILE': cf})

    def tlc_job(nm):
        j = jobs[nm]
        for attempt in (1, 2):
            r = tlc.run('LifecycleMC', cfg_text=j['cfg'], workers=j['workers'], env=j.get('env'), name=nm,
                        must_complete=False, timeout=3000)
            if r.error is not None or r.completed:
                break                  # a JVM that died without a verdict (machine under load) is run once more
        return nm, r
    with ThreadPoolExecutor(max_workers=7 if tier == 'quick' else 4) as ex:      # the big jobs are first in the dict
        results = dict(ex.map(tlc_job, list(jobs)))
    wit = {}
    for nm, r in results.items():
        j = jobs[nm]
        if j.get('expect_error'):
            if not r.error or r.error.startswith('other:'):
                raise MachineryError('%s: TLC was expected to reject this config but reported %r\n%s' % (nm, r.error, r.stdout[-1500:]))
            wit[nm] = r.error
            ev.add_tlc(j['label'], r, role='vacuity')
        else:
            if r.error or not r.completed:
                raise MachineryError('%s: Lifecycle.tla fails: %s\n%s\n%s' % (nm, r.error, '\n'.join(r.trace[:80]), r.stdout[-1500:]))
            ev.add_tlc(j['label'], r, role='model')
    if wit['whatif_stalealive'] != 'invariant:Inv_Truthful' or wit['whatif_hiddendeadline'] != 'invariant:Inv_Truthful':
        raise MachineryError('what-if variants are rejected for unexpected reasons: %r' % wit)
    if wit['whatif_cachedeadonfalse'] != 'invariant:Inv_Truthful' or wit['whatif_rebuildraises'] != 'invariant:Inv_Returns':
        raise MachineryError('what-if variants are rejected for unexpected reasons: %r' % wit)
    if wit['whatif_remdeadmeansdead'] not in ('invariant:Inv_Stable', 'invariant:Inv_Truthful'):
        raise MachineryError('what-if RemDeadMeansDead is rejected for an unexpected reason: %r' % wit['whatif_remdeadmeansdead'])
    if wit['whatif_reportmeansdead'] != 'invariant:Inv_Truthful':
        raise MachineryError('what-if ReportMeansDead is rejected for an unexpected reason: %r' % wit['whatif_reportmeansdead'])
    if not wit['pre_poll'].startswith('temporal') or wit['pre_kill'] != 'invariant:Inv_Force' or wit['pre_self'] != 'invariant:Inv_NoSelfKill':
        raise MachineryError('pre-fix variants are rejected for unexpected reasons: %r' % wit)
    ev.cov['witnesses'] = wit
    allowed_pre, allowed_fix = {}, {}
    for x in results['plan_pre'].tags.get('PATH', []):
        allowed_pre.setdefault(x[0], set()).add(x[1])
    for x in results['plan_fix'].tags.get('PATH', []):
        allowed_fix.setdefault(x[0], set()).add(x[1])
    missing = [c['id'] for c in cases if c['id'] not in allowed_pre or c['id'] not in allowed_fix]
    if missing:
        raise MachineryError('TLC produced no behaviour for planned cases %s' % missing[:5])
    hangers = [c for c in cases if all(o.endswith('hung') for o in allowed_pre[c['id']])]
    if tier == 'quick' and len(hangers) > 14:
        raise MachineryError('quick plan contains %d cases that hang by design of the current code (budget 14)' % len(hangers))

    # ---- 2. spec -> code: every planned history on real workers ----
    t_rep = Timer()
    outs = _run_hosts(cases, scratch)
    ev.cov['replay_wall_s'] = t_rep.s()
    records, meta, skipped = [], {}, 0
    for case, out in zip(cases, outs):
        if out.get('error'):
            skipped += 1
            ev.cov.setdefault('host_errors', []).append({'case': case, 'error': out['error'][:300]})
            continue
        rec = _record(case, out)
        records.append(rec)
        meta[case['id']] = (case, out)
    if not records:
        raise MachineryError('no replay produced a record')

    # ---- 3. TLC judges every real execution ----
    fails, rj = tlc.judge('LifecycleJudge', records, name='judge')
    ev.add_tlc('judge: C04 operators on %d real histories' % len(records), rj, role='judge')
    for rid, clause in fails:
        case, out = meta[rid]
        name, _, k = clause.partition('@')
        c = out['calls'][int(k) - 1]
        child = case['beh'] if case['start'] == 'run' else case['start']
        if c.get('stopped') == 'T':
            child += '+stop'
        effect = ('selfsig' if c['selfsig'] == 'T' else c['ret'] if c['ret'] in ('hung',) else
                  'ret=%s,os=%s,thr=%s,grace=%s,fast=%s,durc=%s' % (c['ret'], c['os_ret'], c.get('thr_ret'), c['os_grace'], c['fast'], c['durc']))
        sig = 'C04|%s|kind=%s|pers=%s|child=%s|pre=%s|op=%s|%s' % (name, case['kind'], case['pers'], child, c['pre'], c['op'], effect)
        what = ('%s fails: %s%s worker, child %s: call #%s %s of history %s (%s) -> ret=%s dur=%ss child %s at return / %s after grace%s'
                % (name, 'persistent ' if case['pers'] == 'T' else '', case['kind'], child, k, c['op'], case['ops'], case['pace'], c['ret'],
                   c.get('dur'), c['os_ret'], c['os_grace'], ', SIGTERM sent to the calling process' if c['selfsig'] == 'T' else ''))
        violations.append(Violation('C04', sig, what, {k2: case[k2] for k2 in ('kind', 'pers', 'beh', 'start', 'ops', 'pace')}))

    # ---- 4. conformance: real outcome vs the outcomes TLC enumerated for the same history ----
    conf = {'pre': 0, 'fix': 0, 'both': 0, 'neither': 0}
    for rec in records:
        case, out = meta[rec['id']]
        oc = _outcome(out)
        a, b = oc in allowed_pre[rec['id']], oc in allowed_fix[rec['id']]
        conf['both' if a and b else 'pre' if a else 'fix' if b else 'neither'] += 1
        if not a and not b and len(drift) < 4:
            drift.append('real outcome %s of %s/%s/%s/%s history %s (%s) is not an outcome of Lifecycle.tla (model, code as is: %s; fixed: %s)'
                         % (oc, case['kind'], 'pers' if case['pers'] == 'T' else 'oneshot', case['beh'], case['start'], case['ops'], case['pace'],
                            sorted(allowed_pre[rec['id']])[:6], sorted(allowed_fix[rec['id']])[:6]))
    if conf['pre'] and conf['fix'] and len(drift) < 4:
        pass    # partially fixed tree: both models are matched by some case; not a drift
    ev.cov['conformance_detail'] = conf
    ev.cov['traces_validated_against_impl'] = len(records) - conf['neither']
    ev.cov['evaluations'] = sum(len(r['obs']['calls']) for r in records)
    nontriv = set()
    for rec in records:
        s = rec['scn']
        if any(c['pre'] == 'alive' for c in rec['obs']['calls']) or s['start'] != 'run':
            nontriv.add((s['kind'], s['pers'], s['beh'], s['start'], tuple(s['ops']), s['pace']))
    ev.cov['distinct_nontrivial'] = len(nontriv)
    ev.cov['rule'] = ('case = (kind, persistent, target behaviour, start state, call history incl. SIGSTOP position, pacing); %d planned, %d replayed '
                      'on real workers (%d host errors); non-trivial = at least one call met a live child, or the worker was dead/never run '
                      '(idempotence clauses)' % (len(cases), len(records), skipped))
    ev.cov['exhaustive'] = tier == 'thorough'
    ev.cov['replayed_cases'] = len(records)
    ev.cov['cases_by_kind'] = {k: sum(1 for r in records if r['scn']['kind'] == k) for k in ('thread', 'process', 'remote')}
    ev.cov['cases_hanging_in_prefix_model'] = len(hangers)
    for rec in records[:1] + [r for r in records if 'stop' in r['scn']['ops']][:2] + [r for r in records if r['scn']['kind'] == 'remote'][:2]:
        ev.sample({'scn': rec['scn'], 'obs': rec['obs'], 'model_outcomes_code_as_is': sorted(allowed_pre[rec['id']])[:8]})
    ev.assumptions += ['timing abstraction: a small timeout expires only when no other party can take a step; a zero timeout may expire at once',
                       'the server process and the parent process are responsive (only the child is stopped / frozen)',
                       '/proc state (gone or zombie) is ground truth for "dead"; thread workers: no live thread with the worker name',
                       'durations classed against 3*timeout + 2 s; "at once" = under %.1f s, re-measured twice before a stall is believed' % FAST,
                       'force-terminate of a thread worker is never executed (it SIGTERMs the harness); thread kind covered with force=False only']
    return finish(ev, violations, T.s(), drift)


if __name__ == '__main__':
    if len(sys.argv) == 4 and sys.argv[1] == '--host':
        host_main(sys.argv[2], sys.argv[3])
