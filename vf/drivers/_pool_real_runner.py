"""Runs one REAL Pool (real persistent thread/process/remote workers) with SIGKILLs / poison inputs
injected from the worker_callback at seeded event indices; prints the trace of callback events
(code -> spec trace validation against Pool.tla, see PoolTrace.tla)."""
import json
import os
import random
import signal
import sys
import threading

HERE = os.path.dirname(os.path.abspath(__file__))
VERIF = os.path.dirname(os.path.dirname(HERE))
REPO = os.environ.get('VERIF_REPO', '/repo')
for p in (VERIF, REPO):
    if p not in sys.path:
        sys.path.insert(0, p)

POISON = 4


def ident(x):
    if x == POISON and os.environ.get('VF_POISON') == '1':
        raise ValueError('poison')
    return x


def main():
    import logging
    logging.disable(logging.CRITICAL)
    spec = json.loads(sys.argv[1])
    kind, W, N, extra, seed = spec['kind'], spec['W'], spec['N'], spec['extra'], spec['seed']
    rng = random.Random(seed)
    os.environ['PYTHONPATH'] = ':'.join([VERIF, REPO])
    os.environ['VF_POISON'] = '1' if spec.get('poison') else '0'
    from pyworkers.pool import Pool, PoolError
    from pyworkers.worker import WorkerType
    server = None
    kw = {}
    if kind == 'remote':
        from pyworkers.remote_server import spawn_server
        server = spawn_server(('127.0.0.1', 0))
        kw['host'] = server.addr
    wt = {'thread': WorkerType.THREAD, 'process': WorkerType.PROCESS, 'remote': WorkerType.REMOTE}[kind]
    trace, ids = [], {}
    kills = sorted(rng.sample(range(1, 2 * N + 2), spec.get('kills', 0))) if kind != 'thread' else []
    nev = [0]
    killed = []
    out = {'spec': spec}
    pool = Pool(ident, retry=spec.get('retry', True), close_timeout=2)
    try:
        for _ in range(W):
            w = pool.add_worker(wt, **kw)
            ids[w.id] = len(ids) + 1

        def cb(worker, event, *a):
            wi = ids.get(worker.id, 0)
            if event == 'enqueued':
                x = pool._pending_per_worker[worker.id][-1][0]
                trace.append(['enq', wi, x])
            elif event == 'finished':
                trace.append(['fin', wi, a[0] if isinstance(a[0], int) else 0])
            elif event == 'died':
                trace.append(['died', wi, 0])
            else:
                return
            nev[0] += 1
            if kills and nev[0] >= kills[0]:
                kills.pop(0)
                alive = [x for x in pool.workers if x.is_alive() and x.id not in killed]
                if alive:
                    victim = rng.choice(alive)
                    killed.append(victim.id)
                    try:
                        os.kill(victim.pid, signal.SIGKILL)
                    except OSError:
                        pass
        box = {}

        def body():
            try:
                box['ret'] = pool.run(iter(range(1, N + 1)), worker_callback=cb, worker_extra_pending_inputs=extra)
                box['outcome'] = 'ok'
            except PoolError as e:
                box['outcome'] = 'poolerror'
                box['ret'] = e.partial_results
            except BaseException as e:  # noqa
                box['outcome'] = 'internal_error'
                box['detail'] = repr(e)
        t = threading.Thread(target=body, daemon=True)
        t.start()
        t.join(40)
        if t.is_alive():
            box['outcome'] = 'hang'
            box['ret'] = []
        import time
        t1 = time.time()
        died = set(e[1] for e in trace if e[0] == 'died')
        while time.time() - t1 < 2.0 and any(w.is_alive() for w in pool.workers if ids[w.id] in died or w.id in killed):
            time.sleep(0.02)          # a worker whose end marker / EOF was seen needs a moment to be gone
        out.update(outcome=box['outcome'], detail=box.get('detail', ''),
                   ret=[x if isinstance(x, int) and 1 <= x <= N else 0 for x in (box.get('ret') or [])],
                   trace=trace, killed=[ids[k] for k in killed],
                   alive=sorted(ids[w.id] for w in pool.workers if box['outcome'] != 'hang' and w.is_alive()))
    finally:
        try:
            pool._map_guard = False
            pool.terminate(timeout=1)
        except BaseException:  # noqa
            pass
        for w in list(pool.workers):
            try:
                if kind != 'thread' and w.pid != os.getpid():
                    os.kill(w.pid, signal.SIGKILL)
            except OSError:
                pass
        if server is not None:
            try:
                server.terminate(timeout=1)
            except BaseException:  # noqa
                pass
    print('TRACE ' + json.dumps(out))


if __name__ == '__main__':
    main()
    sys.stdout.flush()
    os._exit(0)
